#!/usr/bin/env python3
"""Regenerates MANIFEST.json from the table below (kept in one place so it stays valid)."""
import json

CHECKS = {
    "C03": dict(
        text="Theorems over the segmentation automaton for all row sequences and all classifiers (kinds-only, rows preserved, origin/type, order, prefix stability) and the list-level characterisation of the marker classifier; model tied to parse_blocks_stable by generated cases evaluated with vm_compute, an exhaustive classifier sweep through the real reader, and the isspace table sweep; the property predicate is also evaluated directly on the implementation.",
        note="Coq kernel + vm_compute; hand-written model Model/{Text,Marker,Cell,Segment}.v; regex engine and str.isspace enter via exhaustive sweeps (H_regex over a 5-letter alphabet to length 7/9, H_isspace over all code points).",
        design="DESIGN.md section 5/C03",
    ),
    "C14": dict(
        text="Theorem: for every cell comparison and all pairs of tables with default row numbering, equals holds iff name, destination set, column names, units, row count agree and cells are pairwise equal; reflexivity and symmetry; with the concrete cell comparison on python scalars (ints as integers, floats as bit patterns): numbers are equal cells iff their exact values are, the missing values equal each other and nothing else, the comparison is an equivalence; on python objects origin, orientation and class are ignored and a non-table is unequal; refutation theorems for the code before each of the three repairs. Model tied to Table.equals by generated (t, mutate(t)) pairs (numpy and nullable column types, a subclass) and all pairs of a scalar pool, evaluated with vm_compute; expected verdicts recomputed independently from the specifications.",
        note="Coq kernel + vm_compute; models Model/Equals.v, Model/PyEq.v; H_pyeq (python == on int/bool/float is exact, on str/Timestamp by content) checked on all pairs of a scalar pool each run; pandas itertuples/shape semantics assumed.",
        design="DESIGN.md section 5/C14",
    ),
    "C20": dict(
        text="Theorems for every block sequence and every representation (abstract name extraction): stored list = TABLE blocks in order; len/iteration/indexing agree; unique/all/in are the filter-by-name view; construction fails iff a table block has no extractable name. Model (dict-of-lists + ordered list, as in the code) tied to TableBundle by generated block sequences in four representations.",
        note="Coq kernel + vm_compute; model Model/Bundle.v; the regex used for cell-grid names is modelled by grid_name and tied by the generated grid cases; names without whitespace for grids.",
        design="DESIGN.md section 5/C20",
    ),
    "C02": dict(
        text="Theorems over the table-block parser for all grids and all float()/to_datetime() functions: header extraction, full shape, column locality, per-kind cell rules incl. the exact condition for a missing numeric value and 'nothing else' case splits. Model tied to the real reader by generated grids evaluated with vm_compute; expectation of the oracle is a literal reading of the StarTable rules.",
        note="Coq kernel + vm_compute; models Model/{Cell,ParseTable,Reader}.v; H_float/H_datetime/H_native enter as theorem parameters and as per-case lookup tables computed by the interpreter; generated cells over an alphabet where str.lower is ASCII-only.",
        design="DESIGN.md section 5/C02",
    ),
    "C07": dict(
        text="Theorems for every input: the jsondata read equals the pdtable read with each table replaced by the JSON rendering of the same parse; the cellgrid read never fails and hands out the raw rows of each block, with the same types/origins whenever the pdtable read succeeds; for every delivered table, table_to_json_data of the frame built from the parse equals the JsonData rendered from the precursor (two routes, one result). Correspondence on three forms per generated sheet plus table_to_json_data of every delivered table against the model's frame route; oracle compares jsondata with table_to_json_data incl. exact leaf types and checks rejection of unknown forms before any row is consumed.",
        note="Coq kernel + vm_compute; models Reader.v, Json.v; H_tolist; the dispatch on the 'to' string itself is checked by the oracle only.",
        design="DESIGN.md section 5/C07",
    ),
    "C11": dict(
        text="Theorems for every input, predicate, form and tracker: reading with a filter equals reading the accepted blocks only (rejected content does not occur in the result); the offered table name is the parsed table's name; a rejected block is not handed to its handler. Correspondence with random predicates; oracle compares with the unfiltered read and records the predicate's arguments.",
        note="Coq kernel + vm_compute; model Reader.v; predicates assumed pure.",
        design="DESIGN.md section 5/C11",
    ),
    "C12": dict(
        text="Theorem for EVERY row sequence over cells of any kind, every form, filter and tracker: the reader never ends with an exception other than InputError (premises: to_datetime raises only ValueError; fewer than 1000 column-name cells per table); prefix delivery under the raising tracker; continuation under a collecting tracker. Correspondence + oracle on fault-injected sheets incl. exhaustive single faults of seed sheets.",
        note="Coq kernel + vm_compute; models Segment.v, ParseTable.v, Reader.v; crash sites of the code are Crash results in the model; pandas DataFrame construction after a successful parse is outside the model (one residual escape is documented in DESIGN.md: mixed-resolution datetime column).",
        design="DESIGN.md section 5/C12",
    ),
    "C13": dict(
        text="Theorems for all grids and fixer configurations: strict accepts only repair-free tables; every counted repair is logged; per column exact warning count, untouched non-defective cells, replacement in illegal cells; exact error count and filler for short rows; unique names; full shape; per-block isolation. Correspondence incl. fixer counters after each block; oracle recomputes expectations from the injected defect set.",
        note="Coq kernel + vm_compute; models ParseTable.v, Reader.v; custom fixers return values of the column's type.",
        design="DESIGN.md section 5/C13",
    ),
    "C04": dict(
        text="Theorem: for any finite history of steps (arbitrary replacement of the dataframe's columns, facade add_column/setitem, physical relabelling, consultations) on a strict frame, a consultation of the non-empty frame either refuses or leaves the register equal to the dataframe's columns in order, each unit compatible with its dtype; hence units positional = per-column lookup. Model tied to the real Table/TableDataFrame by replaying operation histories over a 25-operation alphabet, comparing register, snapshot and raised flag after every operation; every __finalize__ call pandas makes is observed.",
        note="Coq kernel + vm_compute; model Model/Frame.v; H_pandas_result (result columns/dtypes and the __finalize__ calls of a pandas operation are observed inputs); multi-source results are C05; non-strict frames are covered by the correspondence only.",
        design="DESIGN.md section 5/C04",
    ),
    "C15": dict(
        text="Same invariant theorem as C04 read for dtype compatibility (text <-> string/object, onoff <-> bool, no special unit on numeric data) incl. the skipped-validation shortcut, preservation of the snapshot relation by every step, default units by dtype. Correspondence and oracle on histories weighted to type-changing operations.",
        note="Coq kernel + vm_compute; model Model/Frame.v; the direct unit setter with special units is outside the guarantee (as the statement says).",
        design="DESIGN.md section 5/C15",
    ),
    "C06": dict(
        text="Theorems for every table, dispatcher form and converter: convert_units fails as a whole or returns the same columns in order, each identical (untargeted / same unit / skipped special column under 'base') or holding exactly the converter's output with the requested unit (base: the reported unit); special columns are refused a different unit; any failing column fails the call; the call as the code performs it (a copy becomes a new object whose columns are converted in place) refines that specification on an explicit store and writes to no object that existed before. Correspondence (specification, store version and the original as observed after the call) on generated tables incl. permuted / non-default / string indexes, failure injection and pint; oracle compares row for row with the converter's own output and checks the original is untouched. The bulk form normalized_table_generator (pdtable/utils.py) is modelled as a stream function with its own theorem and is run on a four-block stream in every case.",
        note="Coq kernel + vm_compute; models Model/Convert.v, Model/ConvertStore.v; column values are opaque in the model, positional write-through of Column.values and data independence of the copy are checked by the oracle (and C05).",
        design="DESIGN.md section 5/C06",
    ),
    "C05": dict(
        text="Theorems over a heap of identified metadata objects: the metadata of a pandas result and of a re-wrapped table consists of freshly allocated objects only and building it leaves all existing objects untouched; separation of any population of frames is preserved when such a frame joins; between separated frames no mutation (unit, destination, name, delete/add column) changes any observation of another frame; name/destinations/derived origin propagation; single-source unit preservation; refusal on unit conflict; no-source fallback. Correspondence replays every observed __finalize__ call, re-wrap and mutation and compares all live frames after every action; the oracle additionally checks object-identity disjointness in the implementation.",
        note="Coq kernel + vm_compute; model Model/Heap.v (+ Frame.v for the dtype check); H_pandas_result (which frames pandas passes to __finalize__ is observed); TableOrigin immutable; multi-source unit agreement proved as the local conflict step, exercised by correspondence.",
        design="DESIGN.md section 5/C05",
    ),
    "C01": dict(
        text="Theorems for bundles of any length and every separator: text iteration recovers exactly the written lines plus one terminator line per table, and splitting recovers exactly the joined cells; one written value read back under its unit; one table of either orientation read back; and the whole statement in the reader model: read(cells(lines(write_csv sep ts))) delivers exactly one TABLE event per written table, in order, equal to it - for tables with rows and columns, with columns only, or with neither; the destinations read back are the destinations written; the block-shape hypotheses follow from conditions on first cells. The same composition read_csv(write_csv ts) is evaluated with vm_compute on every generated bundle, the writer model is compared byte for byte with write_csv, and the oracle checks the real round trip (count, order, name, destinations, flag, columns, units, values, inputs unmodified) for explicit/default separators and path/stream.",
        note="Coq kernel + vm_compute; models WriteCsv.v + reader models; H_float_roundtrip, H_dt_roundtrip, H_native sampled per case; no display formats.",
        design="DESIGN.md section 5/C01",
    ),
    "C08": dict(
        text="Theorems: json_data_to_table(table_to_json_data t) rebuilds t's name, destinations, columns, units and values for every table (zero rows included) whose scalars are admissible for their units (missing timestamps excepted, as the statement says); table_to_json_data and the readers' JsonData carry name, destinations, columns in table order with their own units, and every leaf is one of the five JSON leaf kinds and never NaN; null exactly for missing values. Correspondence of table_to_json (on the python scalars list(df[col]) yields) and of json_data_to_table (grid of native cells through the table parser) with the implementation; the oracle checks exact leaf types, strict json.dumps, and the full round trip through text.",
        note="Coq kernel + vm_compute; models Json.v, ParseTable.v; H_json_codec, H_float_roundtrip, H_dt_roundtrip; the layout half of the round-trip theorem is shared with C01/C10 (see Properties).",
        design="DESIGN.md section 5/C08",
    ),
    "C09": dict(
        text="Theorems: every table of a sheet (any tables around it, any sep_lines >= 1, any sheet width, zero rows included) is one TABLE block of the sheet as read back, at the row where it was appended, and that block parses back to the table, native cells needing no float()/to_datetime hypothesis; for every list of table dimensions, orientation and number of separator lines the styler addresses exactly the rows and cells the writer wrote; rows written per table. The worksheet model (appended rows, sep_lines empty rows, None padding) is compared cell by cell with the grid openpyxl loads back, the reader model is run on that grid, and the oracle checks the real write_excel/read_excel round trip per sheet incl. origin sheet names, styles, sep_lines, path/BytesIO and sheet-name patterns.",
        note="Coq kernel + vm_compute; models WriteXl.v + reader models; H_openpyxl_store; xlsxwriter backend not installed and not covered; openpyxl storing and loading cell values is H_openpyxl_store, tied by comparing the worksheet model with the loaded grid.",
        design="DESIGN.md section 5/C09",
    ),
    "C10": dict(
        text="Theorems: a table given as a cell matrix with header texts parses, from the row-wise grid with arbitrary noise (cells after the name / destinations / units / data rows, blanks around names and units, comment cells after a blank cell on the name row), to a table that mentions none of the noise; the transposed grid with other noise (blank trailing cells per line, other blanks) parses to the same table apart from the flag; and a table block ends identically at end of input, before a blank line and before any other block start. The reader model is run on every rewritten grid next to the implementation, and the oracle compares plain against rewritten parse (parse_blocks and read_csv).",
        note="Coq kernel + vm_compute; models ParseTable.v, Segment.v, Reader.v; cell parsers float()/to_datetime as section variables tied by the correspondence; hypothesis: no entirely blank data row.",
        design="DESIGN.md section 5/C10",
    ),
    "C16": dict(
        text="Theorems over the LIFO work-list with visited set for abstract resolution / enqueued items / yielded blocks (hence for every loader composition, file tree and include graph): termination with an explicit fuel bound, each location read at most once, completed loads read exactly the reachable locations, the output is per location its blocks together and in order, every reported repetition names a read location. The file-system instantiation (folder matching, include resolution, path model) is run against load_files on real directory trees with every open()/listdir observed through an audit hook; an in-memory 'mem:' protocol loader exercises prefix dispatch.",
        note="Coq kernel + vm_compute; models Load.v, Path.v; H_path (pathlib on POSIX) tied by the correspondence; directory order observed; protocol dispatch covered by the oracle only.",
        design="DESIGN.md section 5/C16",
    ),
    "C17": dict(
        text="Theorems: a specification resolves to a canonical path (no symlink component) with the root as prefix or is a load error; realpath leaves no link in its result; lifted to the loader: however the load ends, every location opened, listed or read from lies canonically under the root, and an unresolvable item aborts before being visited. Correspondence and oracle on hostile trees (outward / upward / absolute / looping symlinks, .. and // and backslash and file: prefixes) with all OS-level opens and listings observed.",
        note="Coq kernel + vm_compute; models Path.v, Load.v; root given as resolved absolute path; symlink loops raise in pathlib (outside the statement); stat/readlink during resolution are not 'open/list'.",
        design="DESIGN.md section 5/C17",
    ),
    "C18": dict(
        text="Theorems: a TABLE block's origin row is the index of its '**' row (segmentation theorem); every location read has a chain of load items back to a root (reachability); location trees over any list of loaded tables hold every table exactly once as a leaf beneath its file node, and every registered child sits under the head of its chain. Oracle compares file / sheet / row with the generator's ground truth (csv trees and multi-sheet workbooks), checks the load-history chain link by link and the forest shape.",
        note="Coq kernel + vm_compute; models Segment.v, Load.v, Tree.v; the tie of load_history / make_location_trees to the models is by the oracle (ground truth) rather than by a generated-cases comparison.",
        design="DESIGN.md section 5/C18",
    ),
    "C19": dict(
        text="Theorem over the reader protocol machine (Fresh / Suspended k / Finished; events next, close, drop; any fault position; path-owned or caller stream): for EVERY event trace the caller's stream is never closed, nothing is opened before the first next, exactly one file is held while suspended, and everything opened is closed once the generator has finished in whatever way; writers: write_csv closes what it opened whichever table fails, write_excel creates nothing unless all tables serialised; load_files over any list of files (default tracker) holds at most the one file of the reader it is suspended in and nothing once finished. PARTIAL by nature: that CPython finalises a dropped generator at once and that closing(workbook) releases the archive handle are runtime facts, observed through /proc/self/fd after every event (also while the exception is alive) and compared, together with what every event produced, with the model's ledger.",
        note="Coq kernel + vm_compute; model Model/Lifecycle.v; H_gen_finalise; Linux /proc observation; load_files over several files is modelled as a sequence of readers in reading order (one-file loads as a single reader).",
        design="DESIGN.md section 5/C19",
    ),
}
ALL = [f"C{n:02d}" for n in range(1, 21)]
NOT_YET = {p: "check not built yet in this revision (planned, see DESIGN.md section 5); not a claim that the technique cannot apply" for p in ALL if p not in CHECKS}

m = {
    "version": 1,
    "setup_cmd": "cd coq && coq_makefile -f _CoqProject -o Makefile && timeout 3000 make -j16",
    "hooks": {
        "guard": "PDTABLE_VERIF",
        "enable": "no hooks are needed: the checks import pdtable from /repo's working tree (PYTHONPATH=/repo) and observe it from outside (audit hook, /proc/self/fd)",
        "baseline_off_cmd": "cd /repo && /venv/bin/python -m pytest -ra -q -p no:cacheprovider --timeout=900 --continue-on-collection-errors",
        "source_commits": [],
        "add_only": True,
    },
    "engines": [
        {
            "name": "coq-proof+correspondence",
            "path": "harness/check.py",
            "serves_properties": sorted(CHECKS),
            "kind_free_text": "Rocq/Coq 8.16.1 theorems over hand-written Gallina models (coq/), tied to /repo by a behavioural correspondence harness (harness/) that evaluates the model with vm_compute on the cases the implementation ran",
        }
    ],
    "checks": [],
    "not_applicable": [{"property_id": k, "reason": v} for k, v in sorted(NOT_YET.items())],
    "notes": "Every check: (1) full Coq build + Print Assumptions of Properties/Cnn.v + forbidden-vernacular scan, (2) model/implementation correspondence on generated cases, (3) property oracle on the implementation. See DESIGN.md.",
}
for pid, c in sorted(CHECKS.items()):
    m["checks"].append(
        {
            "property_id": pid,
            "quick_cmd": f"/venv/bin/python harness/check.py {pid} --tier quick",
            "thorough_cmd": f"/venv/bin/python harness/check.py {pid} --tier thorough",
            "evidence_file": f"/verif/evidence/{pid}.json",
            "replay_cmd_template": f"/venv/bin/python harness/check.py {pid} --replay {{path}}",
            "engine": "coq-proof+correspondence",
            "level_claimed": {"category": "proof", "text": c["text"], "design_ref": c["design"]},
            "level_note": c["note"],
            "technique": "machine-checked proof in Rocq (Coq 8.16.1) over a Gallina model + checked model/implementation correspondence",
        }
    )
json.dump(m, open("MANIFEST.json", "w"), indent=1)
print("checks:", len(m["checks"]), "not_applicable:", len(m["not_applicable"]))
