"""Table specifications (JSON-able), builders for pdtable.Table, canonical extraction, generators.

A table spec:
  {"name": str, "dests": [str], "transposed": bool,
   "cols": [{"name": str, "unit": str, "kind": "text|onoff|datetime|float|int", "values": [cell]}]}
cells: str | {"b": bool} | {"ts": "iso"} | {"nat": 1} | {"f": hex|"nan"|"inf"|"-inf"} | {"i": int}
"""
from __future__ import annotations

import datetime
import math
import random
import struct

import numpy as np
import pandas as pd

SPECIAL_UNITS = ("text", "onoff", "datetime")


def fbits(x: float) -> int:
    return struct.unpack("<Q", struct.pack("<d", float(x)))[0]


def cell_py(c):
    if isinstance(c, str):
        return c
    if c is None:
        return None
    if "b" in c:
        return bool(c["b"])
    if "ts" in c:
        return pd.Timestamp(c["ts"])
    if "nat" in c:
        return pd.NaT
    if "f" in c:
        return float(c["f"]) if c["f"] in ("nan", "inf", "-inf") else float.fromhex(c["f"])
    if "i" in c:
        return int(c["i"])
    if "na" in c:
        return pd.NA
    raise ValueError(c)


INDEX_KINDS = ["reversed", "offset", "dup", "gaps", "text"]
NULLABLE = {"int": "Int64", "float": "Float64", "text": "string", "onoff": "boolean"}


def col_array(col, nullable=False):
    vals = [cell_py(v) for v in col["values"]]
    k = col["kind"]
    if nullable and k in NULLABLE:
        # pandas' nullable extension dtypes: a missing cell is pd.NA
        return pd.array([pd.NA if (isinstance(v, float) and v != v) else v for v in vals], dtype=NULLABLE[k])
    if k == "text":
        if col.get("infer"):
            return list(vals)        # let pandas choose the column type (pandas 3: str, with NaN for a missing cell)
        if any(not isinstance(v, str) for v in vals):
            # an explicit object Series keeps each spelling of an empty cell (None / NaN / NaT) as given;
            # a bare object array would be re-inferred by the DataFrame constructor
            return pd.Series(vals, dtype=object)
        return np.array(vals, dtype=object) if vals else np.array([], dtype=object)
    if k == "onoff":
        return np.array(vals, dtype=bool)
    if k == "datetime":
        ser = pd.Series(pd.to_datetime(vals) if vals else pd.to_datetime([]))
        if col.get("res"):
            ser = ser.astype(f"datetime64[{col['res']}]")      # storage resolution (pandas 3 default: us)
        return ser
    if k == "int":
        return np.array(vals, dtype=np.int64)
    return np.array(vals, dtype=float)


def build_table(spec, origin=None, cls=None):
    import pdtable
    from pdtable import Table

    if cls is not None:
        Table = cls
    data = {c["name"]: col_array(c, nullable=bool(spec.get("nullable"))) for c in spec["cols"]}
    df = pd.DataFrame(data)
    if spec.get("index") and len(df):
        # row labels other than 0..n-1 (a frame that was sorted, filtered, sliced or concatenated): the rows, in their
        # positions, are the table; the labels are not part of it
        n = len(df)
        df.index = {"reversed": list(range(n - 1, -1, -1)), "offset": list(range(5, 5 + n)), "dup": [0] * n,
                    "gaps": list(range(0, 2 * n, 2)), "text": [f"r{i}" for i in range(n)]}[spec["index"]]
    kw = {}
    if origin is not None:
        kw["origin"] = origin
    return Table(
        df,
        name=spec["name"],
        destinations=set(spec["dests"]),
        # "no_units": the units are left to the defaults of the column types
        **({} if spec.get("no_units") else {"units": [c["unit"] for c in spec["cols"]]}),
        transposed=bool(spec.get("transposed", False)),
        **({"strict_types": False} if spec.get("strict") is False else {}),
        **kw,
    )


def tok(v, bool_as_num=False):
    """Canonical comparison token of a scalar taken from a dataframe / parsed block."""
    if v is None or v is pd.NaT or v is pd.NA:
        return ["m"]
    if isinstance(v, (bool, np.bool_)):
        return ["n", fbits(1.0 if v else 0.0)] if bool_as_num else ["b", bool(v)]
    if isinstance(v, (int, np.integer)):
        f = float(v)
        return ["n", fbits(f if (f != 0 or not bool_as_num) else 0.0)] if int(f) == int(v) else ["I", str(int(v))]
    if isinstance(v, (float, np.floating)):
        if math.isnan(v):
            return ["m"]
        return ["n", fbits(float(v) if (v != 0 or not bool_as_num) else 0.0)]
    if isinstance(v, str):
        return ["s", v]
    if isinstance(v, (pd.Timestamp, np.datetime64, datetime.datetime)):
        t = pd.Timestamp(v)
        if t is pd.NaT:
            return ["m"]
        if t.tzinfo is not None:
            return ["o", "aware:" + repr(t)]          # never equal to a naive timestamp
        from .cells import dt_ns

        return ["d", dt_ns(t)]
    return ["o", type(v).__name__ + ":" + repr(v)]


def extract(table, bool_as_num=False):
    """Canonical observation of a pdtable.Table: header + per-column tokens."""
    df = table.df
    names = [str(c) for c in df.columns]
    units = list(table.units)
    cols = []
    for j, n in enumerate(names):
        ser = df.iloc[:, j]
        cols.append({"name": n, "unit": units[j] if j < len(units) else None,
                     "values": [tok(v, bool_as_num) for v in ser.tolist()]})
    return {
        "name": table.name,
        "dests": sorted(table.metadata.destinations),
        "transposed": bool(table.metadata.transposed),
        "cols": cols,
        "nrows": int(df.shape[0]),
        "index_default": list(df.index) == list(range(df.shape[0])),
    }


def spec_tokens(spec, bool_as_num=False):
    """The same canonical form computed from a spec (ground truth)."""
    return {
        "name": spec["name"],
        "dests": sorted(set(spec["dests"])),
        "transposed": bool(spec.get("transposed", False)),
        "cols": [{"name": c["name"], "unit": c["unit"],
                  "values": [tok(cell_py(v), bool_as_num) for v in c["values"]]} for c in spec["cols"]],
        "nrows": len(spec["cols"][0]["values"]) if spec["cols"] else 0,
        "index_default": True,
    }


def same_table(a, b, flag=True):
    """Equality of canonical forms (header, cells); zero-row tables compare names and units only."""
    keys = ["name", "dests", "nrows"] + (["transposed"] if flag else [])
    if any(a[k] != b[k] for k in keys):
        return False
    if [(c["name"], c["unit"]) for c in a["cols"]] != [(c["name"], c["unit"]) for c in b["cols"]]:
        return False
    # numbers compare by value: -0.0 == 0.0 (a workbook stores -0.0 as 0)
    z = lambda vs: [["n", 0] if v == ["n", 0x8000000000000000] else v for v in vs]
    return all(z(x["values"]) == z(y["values"]) for x, y in zip(a["cols"], b["cols"]))


# ---- generators ---------------------------------------------------------------------------------
NAME_ALPHA = "abcxyzT_09æ中-"
TEXT_ODD = ["", " ", "a b", " lead", "trail ", "x y", "æøå", "\"q\"", "'s'", "**t", ":c", "a:", "***d",
            "-", "nan", "NaN", "1", "1.5", "true", "中文", "\t", "a\tb", "=1+1", "0", "_"]
UNITS_NUM = ["-", "m", "kg", "mm", "1/s", "m/s^2", "%", "°C", "\u00b5m", "\u2126", "m\u00b2", "\ufb01t"]   # micro sign, ohm sign, superscript two, fi ligature


def gen_name(rng, n=(1, 6)):
    s = "".join(rng.choice(NAME_ALPHA[:10]) for _ in range(rng.randint(*n)))
    # now and then a character that Unicode normalisation would rewrite
    return s + ("\u00b2" if (len(s) + ord(s[0])) % 11 == 0 else "")


def gen_float(rng):
    r = rng.random()
    if r < 0.15:
        return {"f": "nan"}
    if r < 0.2:
        return {"f": rng.choice(["inf", "-inf"])}
    if r < 0.4:
        return {"f": float(rng.randint(-1000, 1000)).hex()}
    if r < 0.5:
        return {"f": rng.choice([0.0, -0.0, 1e-300, 1e300, 5e-324, 1.7976931348623157e308, 0.1, 1 / 3]).hex()}
    return {"f": (rng.uniform(-1e6, 1e6) * 10 ** rng.randint(-8, 8)).hex()}


def gen_ts(rng, allow_nat=True, whole_seconds=False):
    if allow_nat and rng.random() < 0.15:
        return {"nat": 1}
    y = rng.randint(1901, 2200)
    t = pd.Timestamp(year=y, month=rng.randint(1, 12), day=rng.randint(1, 28), hour=rng.randint(0, 23),
                     minute=rng.randint(0, 59), second=rng.randint(0, 59),
                     microsecond=0 if (whole_seconds or rng.random() < 0.5) else rng.randint(0, 999999))
    return {"ts": t.isoformat()}


def gen_text(rng, sep, first_col=False, odd=True):
    for _ in range(50):
        if odd and rng.random() < 0.5:
            s = rng.choice(TEXT_ODD)
        else:
            s = "".join(rng.choice("abcXYZ 019.,;|~-_") for _ in range(rng.randint(0, 8)))
        if sep in s or "\n" in s or "\r" in s:
            continue
        if first_col and (not s.strip() or is_marker(s)):
            continue
        return s
    return "v"


def is_marker(s: str) -> bool:
    from .props.c03 import ref_mark

    return ref_mark(s) != "plain"


def gen_col(rng, kind, nrows, sep, first_col=False, name=None, odd=True, excel=False, bigint=True):
    unit = {"text": "text", "onoff": "onoff", "datetime": "datetime"}.get(kind) or rng.choice(UNITS_NUM)
    if kind == "text":
        vals = [gen_text(rng, sep, first_col, odd) for _ in range(nrows)]
    elif kind == "onoff":
        vals = [{"b": rng.random() < 0.5} for _ in range(nrows)]
    elif kind == "datetime":
        vals = [gen_ts(rng, allow_nat=not first_col, whole_seconds=excel) for _ in range(nrows)]
    elif kind == "int":
        pool = [0, 1, -1, rng.randint(-10**6, 10**6), 2**53, -(2**53)]
        if bigint:
            pool += [2**53 + 1, 2**60 + 1, -(2**53) - 1, 2**62]
        vals = [{"i": rng.choice(pool)} for _ in range(nrows)]
    else:
        vals = [gen_float(rng) for _ in range(nrows)]
        if first_col:
            vals = [v if v["f"] != "nan" else {"f": (1.5).hex()} for v in vals]
    col = {"name": name or gen_name(rng), "unit": unit, "kind": kind, "values": vals}
    if kind == "datetime" and (sum(map(ord, col["name"])) + nrows) % 3 == 0:
        col["res"] = "ns"          # a third of the datetime columns are stored at nanosecond resolution
    return col


KINDS = ["text", "onoff", "datetime", "float", "int"]


def gen_table(rng, sep=";", max_cols=4, max_rows=6, kinds=None, odd=True, transposed=None, excel=False,
              min_cols=1, bigint=True, empty_rate=0.0):
    kinds = kinds or KINDS
    ncols = rng.randint(min_cols, max_cols)
    if empty_rate and rng.random() < empty_rate:
        ncols = 0           # a table of name and destinations only
    nrows = rng.choice([0, 1, 1, 2, 3, max_rows]) if rng.random() < 0.8 else rng.randint(0, max_rows)
    names = []
    while len(names) < ncols:
        n = gen_name(rng)
        if n not in names and sep not in n:
            names.append(n)
    cols = [gen_col(rng, rng.choice(kinds), nrows, sep, first_col=(j == 0), name=names[j], odd=odd, excel=excel,
                    bigint=bigint)
            for j in range(ncols)]
    nd = rng.choice([1, 1, 2, 3])
    dests = sorted({gen_name(rng, (1, 4)) for _ in range(nd)}) if rng.random() < 0.7 else ["all"]
    return {
        "name": gen_name(rng),
        "dests": dests,
        "transposed": (rng.random() < 0.4) if transposed is None else transposed,
        "cols": cols,
    }
