"""Driving the real block reader and encoding what it did for the Coq reader model (Corr/Read.v).

Shared by C02, C07, C10, C11, C12, C13.
A read case (JSON-able):
  {"rows": [[cell]], "form": "pdtable|jsondata|cellgrid", "raising": bool,
   "fixer": "strict|lenient|custom|strict_class|lenient_class|none",
   "filter": None | {"invert": bool, "pairs": [[type_name, name]]}, "tuples": bool}
"""
from __future__ import annotations

import logging
import math
import warnings

from . import cells as C
from .core import g_bool, g_list, g_nat, g_opt, g_pair, g_str

TCODE = {"DIRECTIVE": 1, "TABLE": 2, "TEMPLATE_ROW": 3, "METADATA": 4, "BLANK": 5}
FORM = {"pdtable": "FPd", "jsondata": "FJson", "cellgrid": "FGrid"}
CUSTOM = {"onoff": True, "datetime": "1999-12-31T23:59:59", "float": -1.0}
# a second custom fixer: falsy replacements, and a fresh list (not the extended input) for short rows
CUSTOM0 = {"onoff": False, "datetime": "1970-01-01T00:00:00", "float": 0.0}

logging.disable(logging.CRITICAL)


def make_fixer(kind):
    import pandas as pd
    from pdtable import ParseFixer

    if kind == "none":
        return None
    if kind == "strict_class":
        return ParseFixer

    class Lenient(ParseFixer):
        def __init__(self):
            super().__init__()
            self.stop_on_errors = False
            self._dbg = False
            self._called_from_test = True

    class Custom(Lenient):
        def fix_illegal_cell_value(self, vtype, value):
            ParseFixer.fix_illegal_cell_value(self, vtype, value)
            return {"onoff": True, "datetime": pd.Timestamp(CUSTOM["datetime"]), "float": -1.0, "-": -1.0}[vtype]

    class Custom0(Lenient):
        def fix_illegal_cell_value(self, vtype, value):
            ParseFixer.fix_illegal_cell_value(self, vtype, value)
            return {"onoff": False, "datetime": pd.Timestamp(CUSTOM0["datetime"]), "float": 0.0, "-": 0.0}[vtype]

        def fix_missing_rows_in_column_data(self, row, row_data, num_columns):
            # "should return the entire row": a new list, the caller's row is left as it was
            return ParseFixer.fix_missing_rows_in_column_data(self, row, list(row_data), num_columns)

    if kind == "custom0":
        return Custom0()
    if kind == "lenient_class":
        return Lenient
    if kind == "strict":
        f = ParseFixer()
        f._called_from_test = True
        return f
    if kind == "lenient":
        return Lenient()
    if kind == "custom":
        return Custom()
    raise ValueError(kind)


def make_filter(spec, log=None):
    if spec is None:
        return None
    pairs = {(t, n) for t, n in spec["pairs"]}

    def f(bt, name):
        if log is not None:
            log.append([bt.name, name])
        return ((bt.name, name) in pairs) != bool(spec["invert"])

    # any callable is a filter: a plain function, a partial, an object with __call__, a bound method
    # (the choice is a function of the specification, so that a case replays identically)
    kind = (len(pairs) + (1 if spec["invert"] else 0)) % 4
    if kind == 1:
        import functools

        return functools.partial(lambda extra, bt, name: f(bt, name), None)
    if kind == 2:
        class Predicate:
            def __call__(self, bt, name):
                return f(bt, name)

        return Predicate()
    if kind == 3:
        class Holder:
            def accept(self, bt, name):
                return f(bt, name)

        return Holder().accept
    return f


class Collecting:
    pass


def make_tracker(raising):
    from pdtable.table_origin import InputIssueTracker

    if raising:
        return None

    class Collect(InputIssueTracker):
        def __init__(self):
            self._issues = []

        def add_issue(self, input_issue):
            self._issues.append(input_issue)

        @property
        def issues(self):
            return self._issues

    return Collect()


def jleaf(v):
    """A JSON leaf with its exact python type recorded."""
    t = type(v)
    if v is None:
        return ["null"]
    if t is bool:
        return ["bool", v]
    if t is int:
        return ["int", v]
    if t is float:
        return ["float", C.canon_fbits(v)] if not math.isnan(v) else ["nanfloat"]
    if t is str:
        return ["str", v]
    return ["impure", t.__module__ + "." + t.__name__]


def observe_block(bt, block, ids, fixer, want_tjson=False):
    from . import tables as T

    name = bt.name
    if name == "METADATA" and hasattr(block, "items"):
        return {"k": "meta", "kv": [[str(k), str(v)] for k, v in block.items()]}
    if name == "DIRECTIVE" and hasattr(block, "lines"):
        return {"k": "dir", "name": block.name, "lines": [C.from_py(x) for x in block.lines]}
    if hasattr(block, "df") and hasattr(block, "metadata"):
        ex = T.extract(block)
        ex["k"] = "table"
        if fixer is not None and not isinstance(fixer, type):
            ex["err"], ex["warn"] = fixer._errors, fixer._warnings
        if want_tjson:
            # table_to_json_data of the delivered table (C07: the other side of the 'jsondata' form)
            from pdtable.io.json import table_to_json_data

            try:
                ex["tjson"] = observe_block(bt, table_to_json_data(block), ids, None)
            except Exception as e:  # reported by the oracle
                ex["tjson"] = {"k": "raised", "exc": f"{type(e).__name__}: {e}"[:200]}
        return ex
    if isinstance(block, dict) and "columns" in block:
        return {"k": "json", "name": block.get("name"), "dests": sorted(block.get("destinations", {})),
                "keys": sorted(block.keys()),
                "dest_values_none": all(v is None for v in block.get("destinations", {}).values()),
                "cols": [[cn, col.get("unit"), [jleaf(v) for v in col.get("values")]] for cn, col in block["columns"].items()]}
    if isinstance(block, (list, tuple)):
        return {"k": "grid", "idx": [ids.get(id(r), -1) for r in block]}
    return {"k": "unknown", "type": type(block).__name__}


def run_reader(case, via="parse_blocks"):
    """Run the implementation; returns {"events": [...], "final": [code, origin], "filter_calls": [...]}"""
    from pdtable import BlockType
    from pdtable.io.parsers.blocks import parse_blocks
    from pdtable.table_origin import InputError

    rows_py = C.rows_to_py(case["rows"])
    if case.get("tuples"):
        rows_py = [tuple(r) for r in rows_py]
    ids = {id(r): i for i, r in enumerate(rows_py)}
    snapshot = [list(r) for r in rows_py]     # the caller's grid as handed in (cells by identity)
    fixer = make_fixer(case.get("fixer", "strict"))
    calls = []
    flt = make_filter(case.get("filter"), calls)
    tracker = make_tracker(case.get("raising", True))
    events = []
    final = [0, 0]
    n_issues = 0
    with warnings.catch_warnings():
        warnings.simplefilter("ignore")
        try:
            gen = parse_blocks(iter(rows_py), to=case.get("form", "pdtable"), filter=flt, fixer=fixer,
                               issue_tracker=tracker)
            for bt, block in gen:
                if tracker is not None:
                    while n_issues < len(tracker.issues):
                        iss = tracker.issues[n_issues]
                        events.append({"k": "issue", "origin": iss.load_location.row, "text": str(iss.issue),
                                       "severity": iss.severity})
                        n_issues += 1
                origin = None
                if hasattr(block, "metadata") and getattr(block.metadata, "origin", None) is not None:
                    origin = block.metadata.origin.input_location.row
                elif hasattr(block, "origin") and hasattr(block.origin, "input_location"):
                    origin = block.origin.input_location.row
                o = observe_block(bt, block, ids, fixer, want_tjson=bool(case.get("want_tjson")))
                o["t"] = bt.name
                o["origin"] = origin
                events.append(o)
        except InputError as e:
            iss = e.args[0]
            loc = getattr(iss, "load_location", None)
            final = [1, getattr(loc, "row", -1), str(getattr(iss, "issue", ""))[:2000]]
        except Exception as e:  # any other escape is an internal crash
            final = [2, 0, f"{type(e).__name__}: {str(e)[:300]}"]
        if tracker is not None:
            while n_issues < len(tracker.issues):
                iss = tracker.issues[n_issues]
                events.append({"k": "issue", "origin": iss.load_location.row, "text": str(iss.issue),
                               "severity": iss.severity})
                n_issues += 1
    out = {"events": events, "final": final, "filter_calls": calls}
    # rows of the caller's grid that the read changed (length or any cell replaced): a read is not to write to its input
    out["input_altered"] = [i for i, (a, b) in enumerate(zip(snapshot, rows_py))
                            if len(a) != len(b) or any(x is not y for x, y in zip(a, b))]
    if fixer is not None and not isinstance(fixer, type):
        out["fixer_end"] = [fixer._errors, fixer._warnings]
    return out


# ---- Gallina encoding ------------------------------------------------------------------------
def g_value(t):
    k = t[0]
    if k == "m":
        return None  # resolved by column unit below
    if k == "n":
        return f"VNum {t[1]}"
    if k == "s":
        return f"VText {g_str(t[1])}"
    if k == "d":
        return f"VDate ({t[1]})%Z"
    if k == "b":
        return f"VBool {g_bool(t[1])}"
    return "VCustom 0"


def g_col_values(col):
    unit = col["unit"]
    out = []
    for t in col["values"]:
        if t[0] == "m":
            out.append("VNaT" if unit == "datetime" else "VNum 9221120237041090560")
        else:
            out.append(g_value(t))
    return g_list(out)


def g_jleaf(l):
    k = l[0]
    if k == "null" or k == "nanfloat":
        return "JNull" if k == "null" else "JFloat 9221120237041090560"
    if k == "bool":
        return f"JBool {g_bool(l[1])}"
    if k == "int":
        return f"JInt ({l[1]})%Z"
    if k == "float":
        return f"JFloat {l[1]}"
    if k == "str":
        return f"JStr {g_str(l[1])}"
    return "JStr [0;0;0]"   # impure leaf: never equal to a model leaf built from text


def g_event(e, origin_of_block):
    if e["k"] == "issue":
        return f"OIssue {g_nat(e['origin'])}"
    t = TCODE[e["t"]]
    origin = g_opt(None if e["origin"] is None else g_nat(e["origin"]))
    k = e["k"]
    if k == "table":
        c = (f"OTable {g_str(e['name'])} {g_bool(e['transposed'])} {g_list([g_str(d) for d in e['dests']])} "
             f"{g_list([g_str(c['name']) for c in e['cols']])} {g_list([g_str('?' if c['unit'] is None else c['unit']) for c in e['cols']])} "
             f"{g_list([g_col_values(c) for c in e['cols']])} {g_nat(e.get('err', 0))} {g_nat(e.get('warn', 0))}")
    elif k == "json":
        cols = g_list([g_pair(g_pair(g_str(cn), g_str(u if isinstance(u, str) else "?")), g_list([g_jleaf(v) for v in vals]))
                       for cn, u, vals in e["cols"]])
        c = f"OJson {g_str(e['name'])} {g_list([g_str(d) for d in e['dests']])} {cols}"
    elif k == "grid":
        c = f"OGrid {g_list([g_nat(i) for i in e['idx']])}"
    elif k == "meta":
        c = f"OMeta {g_list([g_pair(g_str(a), g_str(b)) for a, b in e['kv']])}"
    elif k == "dir":
        c = f"ODir {g_str(e['name'])} {g_list([C.to_coq(x) for x in e['lines']])}"
    else:
        c = "OGrid [999%nat]"
    return f"OBlock {t} {origin} ({c})"


def tables_for(rows):
    """ftab / dtab / dstr for every string cell of the grid (H_float, H_datetime, H_str_datetime)."""
    import pandas as pd

    ftab, dtab, dstr = {}, {}, {}
    for r in rows:
        for c in r:
            if isinstance(c, str):
                n = c.strip().lower()
                if n not in ftab:
                    try:
                        ftab[n] = C.canon_fbits(float(n))
                    except ValueError:
                        ftab[n] = None
                v = c.strip()
                if v and v not in dtab and (v[0].isdigit()):
                    try:
                        with warnings.catch_warnings():
                            warnings.simplefilter("ignore")
                            t = pd.to_datetime(v)
                        if t is pd.NaT:
                            dtab[v] = "DNaTres"
                        else:
                            ns = C.dt_ns(t)
                            dtab[v] = f"DOk ({ns})%Z"
                            dstr[ns] = str(t)
                    except ValueError:
                        dtab[v] = "DBad"
                    except Exception:
                        dtab[v] = "DCrash"
            elif isinstance(c, dict) and ("d" in c or "ts" in c):
                v = C.to_py(c)
                dstr[C.dt_ns(v)] = str(pd.Timestamp(v)) if False else str(v)
    dstr[C.dt_ns(pd.Timestamp(CUSTOM["datetime"]))] = str(pd.Timestamp(CUSTOM["datetime"]))
    dstr[C.dt_ns(pd.Timestamp(CUSTOM0["datetime"]))] = str(pd.Timestamp(CUSTOM0["datetime"]))
    return ftab, dtab, dstr


def exotic_timestamps(rows):
    """H_dt_uniform: the timestamps of one column that parse one by one form one datetime64 column.  It
    holds for zone-free timestamps unless sub-microsecond stamps meet dates outside the nanosecond range; a
    grid where that can happen is outside the model's domain (the oracle still judges it)."""
    import pandas as pd

    any_ns = any_far = False
    for r in rows:
        for c in r:
            if isinstance(c, str) and c.strip()[:1].isdigit():
                try:
                    with warnings.catch_warnings():
                        warnings.simplefilter("ignore")
                        t = pd.to_datetime(c.strip())
                except Exception:
                    continue
                if t is pd.NaT:
                    continue
                if t.tzinfo is not None:
                    return True
                any_ns = any_ns or t.nanosecond != 0
                any_far = any_far or not (1678 <= t.year <= 2261)
    # sub-microsecond stamps alone make a nanosecond column, far dates alone a microsecond column; together they do not fit
    return any_ns and any_far


def case_to_coq(case, obs):
    rows = case["rows"]
    if exotic_timestamps(rows):
        return None
    ftab, dtab, dstr = tables_for(rows)
    fx = case.get("fixer", "strict")
    if fx in ("strict_class", "lenient_class", "none"):
        return None  # counters not observable: covered by the oracle only
    stop = fx == "strict"
    custom = "None"
    if fx == "custom":
        import pandas as pd

        custom = f"(Some (VBool true, VDate ({C.dt_ns(pd.Timestamp(CUSTOM['datetime']))})%Z, VNum {C.canon_fbits(-1.0)}))"
    if fx == "custom0":
        import pandas as pd

        custom = f"(Some (VBool false, VDate ({C.dt_ns(pd.Timestamp(CUSTOM0['datetime']))})%Z, VNum {C.canon_fbits(0.0)}))"
    flt = case.get("filter")
    if flt is None:
        gf = "None"
    else:
        gf = "(Some " + g_pair(g_bool(flt["invert"]), g_list([g_pair(str(TCODE[t]), g_str(n)) for t, n in flt["pairs"]])) + ")"
    # origin for blocks that carry none (raw grids): taken from the first row index
    def origin_of(e):
        if e["k"] == "grid" and e["idx"]:
            return e.get("_origin", e["idx"][0])
        return 0

    # raw-grid blocks have no origin attribute; recover it from a parallel stable run
    events = obs["events"]
    fin = obs["final"]
    return (
        "(mkcase " + C.rows_to_coq(rows) + "\n "
        + g_list([g_pair(g_str(k), g_opt(None if v is None else str(v))) for k, v in ftab.items()]) + "\n "
        + g_list([g_pair(g_str(k), v) for k, v in dtab.items()]) + "\n "
        + g_list([g_pair(f"({k})%Z", g_str(v)) for k, v in dstr.items()]) + "\n "
        + g_bool(stop) + " " + custom + " " + FORM[case.get("form", "pdtable")] + " " + gf + " "
        + g_bool(case.get("raising", True)) + "\n "
        + g_list([g_event(e, origin_of) for e in events]) + "\n "
        + g_pair(str(fin[0]), g_nat(max(fin[1], 0) if fin[0] == 1 else 0)) + ")"
    )
