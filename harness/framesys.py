"""Operation histories on a real Table / TableDataFrame, mirrored as steps of the Coq frame model
(Corr/FrameC.v).  Shared by C04 and C15."""
from __future__ import annotations

import io
import warnings
import zlib

import numpy as np
import pandas as pd

from .core import g_bool, g_list, g_opt, g_pair, g_str

KINDS = {"b": "KBool", "i": "KNumeric", "u": "KNumeric", "f": "KNumeric", "M": "KNumeric",
         "O": "KText", "S": "KText", "U": "KText"}


def lab(x):
    """A column label as text; labels that are not strings (the integers of a transposed frame) are kept apart
    from the strings that look like them: 0 and '0' are different columns to pandas and to pdtable."""
    return x if isinstance(x, str) else f"#{x}"


def dtype_code(dt):
    k = getattr(dt, "kind", "?")
    return [KINDS.get(k, "KOther"), zlib.crc32(str(dt).encode()) % 100000]


def df_state(df):
    return [[lab(c), dtype_code(df.dtypes.iloc[i])] for i, c in enumerate(df.columns)], bool(df.empty)


def observe(df, raised):
    info = getattr(df, "_table_data", None)
    reg = [[lab(k), str(v.unit)] for k, v in info.columns.items()] if info is not None else []
    nolast = info is None or info._last_dataframe_state is None
    return [bool(raised), reg, bool(nolast)]


def values_for(kind, n, rng):
    if kind == "float":
        return [rng.choice([1.5, 2.0, -3.25, float("nan")]) for _ in range(n)]
    if kind == "int":
        return [rng.randint(-5, 5) for _ in range(n)]
    if kind == "text":
        return [rng.choice(["x", "y", "", "zz"]) for _ in range(n)]
    if kind == "bool":
        return [rng.random() < 0.5 for _ in range(n)]
    if kind == "datetime":
        return [pd.Timestamp("2020-01-01") + pd.Timedelta(days=rng.randint(0, 9)) for _ in range(n)]
    if kind == "timedelta":
        return [pd.Timedelta(days=rng.randint(0, 9)) for _ in range(n)]
    if kind == "datetime_tz":
        return [pd.Timestamp("2020-01-01", tz="UTC") + pd.Timedelta(days=rng.randint(0, 9)) for _ in range(n)]
    if kind == "complex":
        return [complex(1, rng.randint(0, 3)) for _ in range(n)]
    raise ValueError(kind)


DEFAULT_UNIT = {"float": "-", "int": "-", "text": "text", "bool": "onoff", "datetime": "-"}
VAL_KINDS = ["float", "int", "text", "bool", "datetime"]
ODD_KINDS = ["timedelta", "datetime_tz", "datetime_tz"]
PHYS = ["m", "kg", "mm", "s"]
CNAMES = ["a", "b", "c", "d", "e", "x1", "new"]
CNAMES_X = CNAMES + ["1", 1]      # a label that is a number and the text that looks like it: two different columns


def gen_case(rng, max_ops=8, type_changing=False):
    ncols = rng.randint(1, 4)
    nrows = rng.choice([0, 1, 2, 3]) if rng.random() < 0.25 else rng.randint(1, 4)
    names = rng.sample(CNAMES[:6], ncols)
    kinds = [rng.choice(VAL_KINDS) for _ in range(ncols)]
    units_mode = rng.choice(["given", "given", "none", "wrong"])
    units = None
    if units_mode != "none":
        units = [DEFAULT_UNIT[k] if (k in ("text", "bool") or rng.random() < 0.4) else rng.choice(PHYS) for k in kinds]
        if units_mode == "wrong" and ncols:
            j = rng.randrange(ncols)
            units[j] = rng.choice(["text", "onoff", "m"])
    ops = []
    for _ in range(rng.randint(1, max_ops)):
        ops.append(gen_op(rng, type_changing))
    pairs = [(i, j) for i in range(ncols) for j in range(ncols) if i < j and kinds[i] != kinds[j]]
    if pairs and rng.random() < (0.2 if type_changing else 0.06):
        # two columns of different kinds exchange their data types by plain assignments with no consultation in
        # between: labels and the multiset of dtypes are as remembered, only the positions differ
        i, j = rng.choice(pairs)
        ops = [{"op": "consult"}, {"op": "df_set", "col": names[i], "kind": kinds[j]},
               {"op": "df_set", "col": names[j], "kind": kinds[i]}, {"op": "consult"}] + ops
    return {"names": names, "kinds": kinds, "nrows": nrows, "units": units, "strict": rng.random() < 0.9,
            "vseed": rng.randint(0, 10**6), "ops": ops}


def gen_op(rng, type_changing=False):
    kinds_pool = VAL_KINDS + (ODD_KINDS if rng.random() < 0.2 else [])
    facade = [
        lambda: {"op": "add_column", "col": rng.choice(CNAMES_X), "kind": rng.choice(kinds_pool),
                 "unit": rng.choice([None, None, "m", "text", "onoff", "kg", "-"])},
        lambda: {"op": "setitem", "col": rng.choice(CNAMES_X), "kind": rng.choice(kinds_pool)},
        lambda: {"op": "relabel", "pick": rng.randint(0, 9), "unit": rng.choice(PHYS + ["-"]),
                 "via": rng.choice(["proxy", "proxy", "units_setter", "set_all_units"])},
        lambda: {"op": "consult"},
        lambda: {"op": "consult", "via": rng.choice(["lenient", "facade"])},
    ]
    direct = [
        lambda: {"op": "df_set", "col": rng.choice(CNAMES_X), "kind": rng.choice(kinds_pool)},
        lambda: {"op": "df_insert", "col": rng.choice(CNAMES_X), "kind": rng.choice(VAL_KINDS), "pos": rng.randint(0, 3)},
        lambda: {"op": "df_del", "pick": rng.randint(0, 9)},
        lambda: {"op": "df_rename_all", "shift": rng.randint(1, 3)},
        lambda: {"op": "df_loc_append", "foreign": rng.random() < 0.4},
        lambda: {"op": "df_pop", "pick": rng.randint(0, 9)},
        lambda: {"op": "df_restore", "pick": rng.randint(0, 9)},
    ]
    pandas_ops = [
        lambda: {"op": "p_copy"},
        lambda: {"op": "p_select", "perm": rng.randint(0, 23), "keep": rng.randint(1, 4)},
        lambda: {"op": "p_iloc", "n": rng.randint(0, 3)},
        lambda: {"op": "p_take"},
        lambda: {"op": "p_reindex_cols", "perm": rng.randint(0, 23), "extra": rng.random() < 0.3},
        lambda: {"op": "p_sort_index"},
        lambda: {"op": "p_astype", "pick": rng.randint(0, 9), "to": rng.choice(["float", "str", "int", "bool", "object"])},
        lambda: {"op": "p_fillna", "val": rng.choice([0, "none", 1.5])},
        lambda: {"op": "p_replace", "val": rng.choice([9, "q", 2.5])},
        lambda: {"op": "p_assign", "col": rng.choice(CNAMES), "kind": rng.choice(VAL_KINDS)},
        lambda: {"op": "p_drop", "pick": rng.randint(0, 9)},
        lambda: {"op": "p_reset_index"},
        lambda: {"op": "p_rename", "pick": rng.randint(0, 9)},
        lambda: {"op": "rewrap"},
        lambda: {"op": "fork_edit", "how": rng.choice(["copy", "rows", "take"]), "pick": rng.randint(0, 9),
                 "kind": rng.choice(VAL_KINDS)},
    ]
    r = rng.random()
    if type_changing:
        pool = [facade[0], facade[1], direct[0], direct[4], direct[6], pandas_ops[0], pandas_ops[6], pandas_ops[7],
                pandas_ops[8], facade[2], facade[3], pandas_ops[13], direct[3], direct[2], direct[0], facade[3],
                pandas_ops[14]]
        return rng.choice(pool)()
    if r < 0.3:
        return rng.choice(facade)()
    if r < 0.6:
        return rng.choice(direct)()
    return rng.choice(pandas_ops)()


FIN_LOG = []
_SINGLE = frozenset({"reindex", "take", "copy", "groupby", "replace", "sort_index", "transpose", "astype", "append",
                     "fillna", "rename", "unstack", "melt"})


def install_finalize_log():
    """Wrap TableDataFrame.__finalize__ (in this process only) to record every call."""
    from pdtable.frame import TableDataFrame

    if getattr(TableDataFrame.__finalize__, "_pdv_wrapped", False):
        return
    orig = TableDataFrame.__finalize__

    def wrapper(self, other, method=None, **kw):
        if method is None or method in _SINGLE:
            src = [other]
        elif method == "merge":
            src = [other.left, other.right]
        elif method == "concat":
            src = list(other.objs)
        else:
            src = [other]
        data = [d for d in (getattr(x, "_table_data", None) for x in src) if d is not None]
        strict = True
        if hasattr(self, "_table_data") and not self._table_data.metadata.strict_types:
            strict = False
        elif hasattr(other, "_table_data") and not other._table_data.metadata.strict_types:
            strict = False
        st, empty = df_state(self)
        ev = {"method": method, "nsrc": len(data), "strict": strict, "cols": st, "empty": empty,
              "view": [[lab(k), str(v.unit)] for k, v in data[0].columns.items()] if data else [],
              "self_obj": self, "src_objs": [x for x in src if getattr(x, "_table_data", None) is not None]}
        FIN_LOG.append(ev)
        try:
            res = orig(self, other, method, **kw)
            ev["raised"] = None
            return res
        except Exception as e:
            ev["raised"] = type(e).__name__
            raise

    wrapper._pdv_wrapped = True
    TableDataFrame.__finalize__ = wrapper


class History:
    """Runs a case on the implementation; records model ops, observations and oracle checks."""

    def __init__(self, case):
        import random

        self.case = case
        self.rng = random.Random(case["vseed"])
        self.log = []       # [(model_op, obs)]
        self.checks = []    # oracle observations after successful consultations
        self.saved = {}     # column name -> earlier values (for df_restore)

    def build(self):
        from pdtable import Table

        install_finalize_log()

        c = self.case
        data = {n: self._col(k, c["nrows"]) for n, k in zip(c["names"], c["kinds"])}
        df = pd.DataFrame(data)
        self.init_state = df_state(df)
        kw = {"name": "t", "strict_types": c["strict"]}
        if c["units"] is not None:
            kw["units"] = list(c["units"])
        try:
            self.t = Table(df, **kw)
            # display formats on some numeric columns (they must stay with their column in the writers)
            from pdtable.table_metadata import ColumnFormat

            for j, (nme, k) in enumerate(zip(c["names"], c["kinds"])):
                if k == "float" and (c["vseed"] + j) % 3 != 2 and c["nrows"] > 0 and c["strict"]:
                    self.t.column_metadata[nme].display_format = ColumnFormat([".1f", ".3e", "08.2f"][(c["vseed"] + j) % 3])
            self.init_obs = observe(self.t.df, False)
        except Exception as e:
            self.t = None
            self.init_obs = [True, [], True]
            self.init_exc = type(e).__name__
        return self

    def _col(self, kind, n):
        vals = values_for(kind, n, self.rng)
        if kind == "text":
            return pd.array(vals, dtype=object) if n == 0 else vals
        if kind == "float" and n == 0:
            return pd.Series([], dtype=float)
        return vals

    def _pick(self, i):
        cols = list(self.t.df.columns)
        return cols[i % len(cols)] if cols else None

    def run(self):
        if self.t is None:
            return self
        for op in self.case["ops"]:
            try:
                self._apply(op)
            except Skip:
                continue
        return self

    def _record(self, mop, raised, exc=None):
        o = observe(self.t.df, raised)
        if exc:
            o.append(exc)
        self.log.append((mop, o))

    def _consult_checks(self):
        """After a successful consultation: what C04 / C15 say must hold."""
        from pdtable import write_csv
        from pdtable.io.json import table_to_json_data

        t = self.t
        df = t.df
        if df.empty or not t.metadata.strict_types:
            return
        names = [str(c) for c in df.columns]
        # a numeric display format left on a column that has since been retyped makes str.format raise:
        # the harness's own doing, not a statement about units - such formats are dropped before writing
        for c in df.columns:
            cm = t.column_metadata[c]
            if cm.display_format is not None and df[c].dtype.kind not in "fiu":
                cm.display_format = None
        rec = {"names": names, "units": list(t.units), "dtypes": [str(d.kind) for d in df.dtypes]}
        try:
            rec["by_name"] = [t[c].unit for c in df.columns]
        except Exception as e:
            rec["by_name"] = f"{type(e).__name__}"
        try:
            with warnings.catch_warnings():
                warnings.simplefilter("ignore")
                s = io.StringIO()
                write_csv(t, s)
                lines = s.getvalue().split("\n")
                rec["csv"] = [lines[2].split(";"), lines[3].split(";")] if not t.metadata.transposed else None
                rec["format_fail"] = self._format_check(t, df)
                try:
                    j = table_to_json_data(t)
                    rec["json"] = [[k, v["unit"]] for k, v in j["columns"].items()]
                except NotImplementedError:
                    # an object column holding values JSON has no form for (e.g. Timedelta): a limit of
                    # to_json_serializable on cell contents, not a statement about units
                    rec["json"] = None
        except Exception as e:
            rec["writer_exc"] = f"{type(e).__name__}: {e}"[:200]
        self.checks.append(rec)

    def _format_check(self, t, df):
        """CSV in both orientations: every numeric cell is rendered with its own column's display format."""
        import math

        from pdtable import write_csv

        fmts = {}
        for c in df.columns:
            f = t.column_metadata[c].display_format
            fmts[str(c)] = f.specifier if f else None
        if not any(fmts.values()):
            return None
        was = t.metadata.transposed
        out = {}
        try:
            for tr in (False, True):
                t.metadata.transposed = tr
                s = io.StringIO()
                write_csv(t, s)
                lines = s.getvalue().split("\n")
                n, m = len(df.columns), len(df)
                if tr:
                    out[tr] = [lines[2 + j].split(";")[2:2 + m] for j in range(n)]
                else:
                    rows = [lines[4 + i].split(";")[:n] for i in range(m)]
                    out[tr] = [[rows[i][j] for i in range(m)] for j in range(n)]
        finally:
            t.metadata.transposed = was
        for j, c in enumerate(df.columns):
            spec = fmts[str(c)]
            if spec is None or df[c].dtype.kind != "f":
                continue
            for i, v in enumerate(df[c].tolist()):
                want = "-" if (isinstance(v, float) and math.isnan(v)) else format(v, spec)
                for tr in (False, True):
                    if out[tr][j][i] != want:
                        return (f"column {str(c)!r} (format {spec}) row {i} written as {out[tr][j][i]!r} in the "
                                f"{'transposed' if tr else 'row-wise'} layout, expected {want!r}")
        return None

    def _apply(self, op):
        from pdtable import Table
        from pdtable.frame import TableDataFrame

        t, rng = self.t, self.rng
        df = t.df
        n = len(df)
        name = op["op"]
        if name in ("add_column", "setitem"):
            col = op["col"]
            vals = values_for(op["kind"], n, rng)
            if n == 0:
                raise Skip()
            try:
                if name == "add_column":
                    t.add_column(col, vals, unit=op["unit"])
                else:
                    t[col] = vals
                raised, exc = False, None
            except Exception as e:
                raised, exc = True, type(e).__name__
            st, empty = df_state(df)
            d = next(dc for nm, dc in st if nm == lab(col))
            self._record(["OAdd", lab(col), d, op.get("unit") if name == "add_column" else None, empty], raised, exc)
            return
        if name == "relabel":
            col = self._pick(op["pick"])
            if col is None:
                raise Skip()
            try:
                colp = t[col]
            except Exception as e:
                self._record(["ORelabel", lab(col), op["unit"]], True, type(e).__name__)
                return
            if colp.unit in ("text", "onoff"):
                # relabelling a special unit through the setter is a pure metadata edit outside the
                # guarantees of C04/C15; the consultation made by t[col] is still recorded
                self._record(["OConsult"], False)
                return
            via = op.get("via", "proxy")
            if via == "units_setter":
                t.units = {col: op["unit"]}                      # Table.units setter -> frame.set_units
            elif via == "set_all_units" and all(c in t.column_metadata for c in df.columns):
                from pdtable.frame import set_all_units

                set_all_units(df, [op["unit"] if c == col and type(c) is type(col) else t.column_metadata[c].unit for c in df.columns])
            else:
                colp.unit = op["unit"]
            self._record(["ORelabel", lab(col), op["unit"]], False)
            return
        if name == "consult":
            try:
                if op.get("via") == "lenient":
                    # the same checked access through the frame-level accessor, asked not to fail on a missing register
                    from pdtable.frame import get_table_info

                    info = get_table_info(df, fail_if_missing=False)
                    seen = [[lab(k), str(v.unit)] for k, v in info.columns.items()]
                    if df.shape[0] > 0 and t.metadata.strict_types:
                        self.checks.append({"names": [str(c) for c in df.columns], "units": [u for _, u in seen],
                                            "by_name": [u for _, u in seen], "dtypes": [str(d.kind) for d in df.dtypes],
                                            "lenient_names": [k for k, _ in seen], "frame_names": [lab(c) for c in df.columns]})
                else:
                    t.units
                self._record(["OConsult"], False)
                self._consult_checks()
            except Exception as e:
                self._record(["OConsult"], True, type(e).__name__)
            return
        if name.startswith("df_"):
            cols = list(df.columns)
            if name == "df_set":
                if n == 0:
                    raise Skip()
                if op["col"] in cols:
                    self.saved.setdefault(op["col"], df[op["col"]].tolist())
                df[op["col"]] = values_for(op["kind"], n, rng)
            elif name == "df_insert":
                if op["col"] in cols or n == 0:
                    raise Skip()
                df.insert(min(op["pos"], len(cols)), op["col"], values_for(op["kind"], n, rng))
            elif name in ("df_del", "df_pop"):
                c = self._pick(op["pick"])
                if c is None or len(cols) < 2:
                    raise Skip()
                self.saved[c] = df[c].tolist()
                if name == "df_del":
                    del df[c]
                else:
                    df.pop(c)
            elif name == "df_rename_all":
                k = op["shift"] % max(len(cols), 1)
                if not cols or k == 0:
                    raise Skip()
                df.columns = cols[k:] + cols[:k]
            elif name == "df_loc_append":
                if not cols:
                    raise Skip()
                row = []
                for c in cols:
                    kd = df[c].dtype.kind
                    v = {"b": True, "i": 7, "f": 7.5, "M": pd.Timestamp("2021-01-01")}.get(kd, "s")
                    if op["foreign"] and c == cols[0]:
                        v = "foreign" if kd != "O" else 3.5
                    row.append(v)
                del FIN_LOG[:]
                before_state = df_state(df)
                try:
                    with warnings.catch_warnings():
                        warnings.simplefilter("ignore")
                        df.loc[len(df)] = row
                    st, empty = df_state(df)
                    self._record(["OPandas", list(FIN_LOG), True, st, empty], False)
                except Exception as e:
                    st, empty = df_state(df)
                    if any(ev["raised"] for ev in FIN_LOG):
                        self._record(["OPandas", list(FIN_LOG), True, st, empty], True, type(e).__name__)
                    elif (st, empty) == before_state:
                        self._failed_pandas(op, e)      # pandas itself refused the value (also on a plain DataFrame)
                    else:
                        self._record(["OData", st, empty], False)   # pandas changed the data before refusing
                return
            elif name == "df_restore":
                if not self.saved:
                    raise Skip()
                c = sorted(self.saved, key=lab)[op["pick"] % len(self.saved)]
                vals = self.saved[c]
                if len(vals) != n or n == 0:
                    raise Skip()
                df[c] = vals
            st, empty = df_state(df)
            self._record(["OData", st, empty], False)
            return
        if name == "fork_edit":
            # derive a frame from this one, retype a column of the DERIVED table through the facade, and
            # come back to this table: by C05 the source is untouched, so the model sees two consultations
            cols = list(df.columns)
            if n == 0 or not cols:
                raise Skip()
            try:
                t.units
                self._record(["OConsult"], False)
            except Exception as e:
                self._record(["OConsult"], True, type(e).__name__)
                return
            saved_log = list(FIN_LOG)
            try:
                with warnings.catch_warnings():
                    warnings.simplefilter("ignore")
                    work = {"copy": lambda: df.copy(), "rows": lambda: df[[True] * n],
                            "take": lambda: df.take(list(range(n)))}[op["how"]]()
                    c = cols[op["pick"] % len(cols)]
                    Table(work)[c] = values_for(op["kind"], len(work), rng)
            except Exception:
                pass
            del FIN_LOG[:]
            FIN_LOG.extend(saved_log)
            try:
                t.units
                self._record(["OConsult"], False)
                self._consult_checks()
            except Exception as e:
                self._record(["OConsult"], True, type(e).__name__)
            return
        if name == "rewrap":
            try:
                with warnings.catch_warnings():
                    warnings.simplefilter("ignore")
                    t2 = Table(t.df, name="other")
                self.t = t2
                self._record(["ORewrap"], False)
            except Exception as e:
                self._record(["ORewrap"], True, type(e).__name__)
            return
        # pandas operations: continue on the result
        cols = list(df.columns)
        del FIN_LOG[:]
        try:
            with warnings.catch_warnings():
                warnings.simplefilter("ignore")
                res = self._pandas(op, df, cols, n)
        except Skip:
            raise
        except Exception as e:
            if any(ev["raised"] for ev in FIN_LOG):
                st, empty = df_state(df)
                self._record(["OPandas", list(FIN_LOG), False, st, empty], True, type(e).__name__)
            else:
                self._failed_pandas(op, e)   # pandas itself refused, not pdtable
            return
        if not isinstance(res, TableDataFrame) or not hasattr(res, "_table_data"):
            raise Skip()
        st, empty = df_state(res)
        self.t = Table(res)
        self._record(["OPandas", list(FIN_LOG), False, st, empty], False)

    def _failed_pandas(self, op, e):
        # the result shape is unknown when the operation raised; such steps are judged by the oracle
        self.log.append((["OFail", op["op"]], [True, [], True, type(e).__name__]))

    def _pandas(self, op, df, cols, n):
        import itertools

        name = op["op"]
        if name == "p_copy":
            return df.copy()
        if name == "p_select":
            if not cols:
                raise Skip()
            perms = list(itertools.permutations(cols))
            sel = list(perms[op["perm"] % len(perms)])[: max(1, min(op["keep"], len(cols)))]
            return df[sel]
        if name == "p_iloc":
            return df.iloc[list(range(min(op["n"], n)))]
        if name == "p_take":
            return df.take(list(range(n))[::-1])
        if name == "p_reindex_cols":
            perms = list(itertools.permutations(cols))
            sel = list(perms[op["perm"] % len(perms)]) if cols else []
            if op["extra"]:
                sel = sel + ["zz_new"]
            return df.reindex(columns=sel)
        if name == "p_sort_index":
            return df.sort_index(ascending=False)
        if name == "p_astype":
            c = self._pick(op["pick"])
            if c is None:
                raise Skip()
            return df.astype({c: {"float": float, "str": str, "int": "int64", "bool": bool, "object": object}[op["to"]]})
        if name == "p_fillna":
            return df.fillna({"none": "none"}.get(op["val"], op["val"]))
        if name == "p_replace":
            return df.replace(2.0, op["val"])
        if name == "p_assign":
            if n == 0:
                raise Skip()
            return df.assign(**{op["col"]: values_for(op["kind"], n, self.rng)})
        if name == "p_drop":
            c = self._pick(op["pick"])
            if c is None or len(cols) < 2:
                raise Skip()
            return df.drop(columns=[c])
        if name == "p_reset_index":
            if "index" in cols or "level_0" in cols:
                raise Skip()
            return df.reset_index()
        if name == "p_rename":
            c = self._pick(op["pick"])
            if c is None or (str(c) + "_r") in cols:
                raise Skip()
            return df.rename(columns={c: str(c) + "_r"})
        raise Skip()


class Skip(Exception):
    pass


# ---- Gallina ---------------------------------------------------------------------------------
def g_dtype(d):
    return g_pair(d[0], str(d[1]))


def g_cols(st):
    return g_list([g_pair(g_str(n), g_dtype(d)) for n, d in st])


def g_obs(o):
    return g_pair(g_pair(g_bool(o[0]), g_list([g_pair(g_str(a), g_str(b)) for a, b in o[1]])), g_bool(o[2]))


def g_op(m):
    k = m[0]
    if k == "OData":
        return f"OData {g_cols(m[1])} {g_bool(m[2])}"
    if k == "OAdd":
        return f"OAdd {g_str(m[1])} {g_dtype(m[2])} {g_opt(None if m[3] is None else g_str(m[3]))} {g_bool(m[4])}"
    if k == "ORelabel":
        return f"ORelabel {g_str(m[1])} {g_str(m[2])}"
    if k == "OConsult":
        return "OConsult"
    if k == "OPandas":
        evs = g_list([g_pair(g_pair(g_pair(g_list([g_pair(g_str(a), g_str(b)) for a, b in ev["view"]]), g_bool(ev["strict"])),
                                    g_cols(ev["cols"])), g_bool(ev["empty"])) for ev in m[1]])
        return f"OPandas {evs} {g_bool(m[2])} {g_cols(m[3])} {g_bool(m[4])}"
    if k == "ORewrap":
        return "ORewrap"

    raise ValueError(k)


def history_to_coq(case, h: History):
    st, empty = h.init_state
    units = "None" if case["units"] is None else "(Some " + g_list([g_str(u) for u in case["units"]]) + ")"
    hist = []
    for m, o in h.log:
        if m[0] == "OFail":
            continue  # pandas itself refused the operation: nothing happened
        if m[0] == "OPandas" and any(ev["nsrc"] != 1 for ev in m[1]):
            break  # several metadata sources: outside the single-frame model (C05)
        hist.append(g_pair(g_op(m), g_obs(o)))
    return g_pair(g_pair(g_pair(g_pair(g_pair(g_cols(st), g_bool(empty)), g_bool(case["strict"])), units),
                         g_obs(h.init_obs)), g_list(hist))
