import sys, json, random, re
sys.path.insert(0, "/verif")
from harness import core
import importlib
core.setup_impl_path()
P = importlib.import_module("harness.props.c05").PROP
k = int(sys.argv[1]) if len(sys.argv) > 1 else 2
rng = random.Random(core.seed_from_env())
cases = list(P.generate(rng, "quick"))
res = []
for c in cases:
    o = P.run_impl(c); res.append((c, o, P.to_coq(c, o)))
ev = core.CoqEval("C05"); ev.add("all", P.coq_header, "Definition cases : list case := [\n" + ";\n".join(t for _, _, t in res) + "\n].\nEval vm_compute in (mismatches check cases).\n")
r = ev.run()["all"]; ev.cleanup()
bad = core.parse_nat_list(r[1][0]) if r[1] else []
print("mismatches", len(bad), bad[:15], r[2][-300:] if r[0] else "")
def dec(s):
    return re.sub(r"\[((?:\d+; )*\d+)\]", lambda m: '"' + "".join(chr(int(x)) for x in m.group(1).split("; ")) + '"' if all(int(x) < 1114112 and int(x) > 31 for x in m.group(1).split("; ")) else m.group(0), s)
for j in bad[:k]:
    c, o, t = res[j]
    print("=" * 90)
    for a, ob in o["prog"]:
        print("  IMPL", a, "refused" if ob[0] else "", {kk: (v["name"], v["units"], v["op"], v["anc"], v.get("consult_exc")) for kk, v in ob[1].items()})
    ev2 = core.CoqEval("C05d"); ev2.add("one", P.coq_header, f"Definition c : case := {t}.\nEval vm_compute in (trace ({{| nxt := 0; objs := [] |}}, []) c).\n")
    r2 = ev2.run()["one"]; print("MODEL", dec(r2[1][0] if r2[1] else r2[2])[:3500]); ev2.cleanup()
