"""C15 - Special units always match the data: text is strings, onoff is booleans."""
from __future__ import annotations

from .c04 import C04


class C15(C04):
    id = "C15"
    type_changing = True
    rule = ("as C04 but with the type-changing part of the alphabet weighted up (astype, fillna / replace with foreign "
            "types, loc-append with foreign values, column overwrite through the facade with and without unit and "
            "directly, restore of earlier dtypes, construction with wrong units, copies, physical-unit relabelling, "
            "re-wrap); after every successful consultation of a strict non-empty frame: unit text <-> string/object "
            "dtype, unit onoff <-> bool dtype; non-trivial = some column changed dtype kind during the history")
    assumptions = C04.assumptions + ["the direct unit setter is used with physical units only (outside the guarantee otherwise)"]


PROP = C15()
