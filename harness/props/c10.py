"""C10 - Orientation, trailing delimiters and header whitespace never change the table."""
from __future__ import annotations

import random

from .. import readsys as R
from .. import sheets as S
from ..driver import Prop
from .c02 import table_matches

ENDS = ["eof", "blank", "table", "directive", "template", "blankcells"]


class C10(Prop):
    id = "C10"
    coq_header = "From PdV.Corr Require Import Read."
    rule = ("well-formed tables (all column kinds, 0..4 rows, text and native cells) laid out plainly row-wise and then "
            "rewritten by random subsets of: transposed layout, trailing empty cells on every line, blanks around "
            "column-name and unit cells, comment cells after a blank cell on the name row, and six ways of ending the "
            "block; each rewriting must parse to the same table as the plain layout (flag apart); also through read_csv "
            "for text tables; non-trivial = at least one data row; distinct = distinct (table, rewriting)")
    assumptions = ["no data row of the table is entirely blank (such a row ends a table in either layout)"]

    def generate(self, rng, tier):
        n = 1200 if tier == "quick" else 15000
        cases = []
        for i in range(n):
            native = rng.random() < 0.3
            parts, exp = S.gen_parts(rng, native=native)
            base = S.layout(rng, parts, False, header_noise=False, trailing=False, comments=False)
            tr = rng.random() < 0.5
            rew = S.layout(rng, parts, tr, header_noise=rng.random() < 0.7, trailing=rng.random() < 0.7,
                           comments=rng.random() < 0.7)
            end = rng.choice(ENDS)
            tail = {"eof": [], "blank": [[]], "table": [["**next"], ["all"]], "directive": [["***d"], ["x"]],
                    "template": [[":t", "a"]], "blankcells": [["", "", ""], ["stray"]]}[end]
            cases.append({"base": base, "rows": rew + tail, "exp": dict(exp, transposed=tr), "native": native, "end": end,
                          "csv": (not native) and i % 3 == 0})
        return cases

    def corpus(self):
        return [{"base": [["**t"], ["all"], ["a", "b"], ["-", "text"], ["1", "x"], ["2", ""]],
                 "rows": [["**t*", "", ""], ["all", ""], [" a ", " -", "1", "2", "", ""], ["b\t", "text ", "x", ""]],
                 "exp": {"name": "t", "transposed": True, "dests": ["all"], "nrows": 2, "bad": [], "kinds": ["float", "text"],
                         "cols": [{"name": "a", "unit": "-", "values": [S.n(1), S.n(2)]},
                                  {"name": "b", "unit": "text", "values": [["s", "x"], ["s", ""]]}]},
                 "native": False, "end": "eof", "csv": True}]

    def _rcase(self, case, rows):
        return {"rows": rows, "form": "pdtable", "raising": True, "fixer": "strict", "filter": None}

    def run_impl(self, case):
        obs = R.run_reader(self._rcase(case, case["rows"]))
        obs["base"] = R.run_reader(self._rcase(case, case["base"]))
        if case.get("csv") and all(isinstance(c, str) and ";" not in c and "\n" not in c for r in case["rows"] for c in r):
            import io
            import warnings

            from pdtable import read_csv
            from .. import tables as T

            # the last line of the input may lack its terminator when the block ends at end of input
            txt = "\n".join(";".join(r) for r in case["rows"]) + ("" if (case["end"] == "eof" and len(case["rows"]) % 2) else "\n")
            try:
                with warnings.catch_warnings():
                    warnings.simplefilter("ignore")
                    tabs = [T.extract(b) for bt, b in read_csv(io.StringIO(txt)) if bt.name == "TABLE"]
                obs["csv"] = tabs[:1]
            except Exception as e:
                obs["csv"] = f"{type(e).__name__}: {e}"[:200]
        return obs

    def oracle(self, case, obs):
        fails = []
        if obs["final"][0] != 0 or obs["base"]["final"][0] != 0:
            which = "rewritten" if obs["final"][0] != 0 else "plain"
            f = obs["final"] if obs["final"][0] != 0 else obs["base"]["final"]
            return [f"rejected-{which}: {f[2][:150] if len(f) > 2 else f}"]
        tb = [e for e in obs["base"]["events"] if e.get("k") == "table"]
        tr = [e for e in obs["events"] if e.get("k") == "table"]
        if len(tb) != 1 or not tr:
            return ["count: table missing"]
        a, b = dict(tb[0]), dict(tr[0])
        for d in (a, b):
            d.pop("transposed"), d.pop("origin"), d.pop("err", None), d.pop("warn", None)
        if a != b:
            diffs = table_matches(dict(case["exp"], transposed=tr[0]["transposed"]), tr[0])
            fails.append(f"rewrite-changes-table ({'T' if case['exp']['transposed'] else 'R'}, end={case['end']}): "
                         + (diffs[0] if diffs else "tables differ"))
        if tr[0]["transposed"] != case["exp"]["transposed"]:
            fails.append("flag: transposed flag does not follow the layout")
        for d in table_matches(dict(case["exp"], transposed=False), tb[0])[:2]:
            fails.append("plain-layout: " + d)
        if "csv" in obs:
            if isinstance(obs["csv"], str) or not obs["csv"]:
                fails.append(f"csv: read_csv failed on the rewritten text: {obs['csv']}")
            else:
                c = dict(obs["csv"][0])
                c.pop("transposed")
                x = dict(b)
                x.pop("k", None), x.pop("t", None)
                if {k: c[k] for k in ("name", "dests", "cols", "nrows")} != {k: x[k] for k in ("name", "dests", "cols", "nrows")}:
                    fails.append("csv: read_csv gives a different table than parse_blocks on the same cells")
        return fails

    def multi_coq(self, case, obs):
        return [R.case_to_coq(self._rcase(case, case["rows"]), obs),
                R.case_to_coq(self._rcase(case, case["base"]), obs["base"])]

    def to_coq(self, case, obs):
        return None

    def nontrivial(self, case, obs):
        return case["exp"]["nrows"] > 0

    def kind(self, case, obs):
        return ("T" if case["exp"]["transposed"] else "R") + "-" + case["end"]


PROP = C10()
