"""C05 - Pandas operations carry table metadata along and never alias it."""
from __future__ import annotations

import random
import warnings

import numpy as np
import pandas as pd

from .. import framesys as F
from ..core import g_bool, g_list, g_nat, g_opt, g_pair, g_str
from ..driver import Prop

KINDS = ["float", "int", "text", "bool"]
DEFAULT = {"KBool": "onoff", "KNumeric": "-", "KText": "text"}
SAFE_OPS = ["copy", "rows", "cols", "take", "reindex", "sort_index", "astype", "fillna", "replace", "assign", "drop",
            "concat", "merge", "concat_conflict", "describe", "pivot", "T", "dropna",
            # arithmetic with an operand that is not a table: outside the safe list, the unit of the result is unknown
            "pow", "rdiv", "mul_array", "div_series",
            # merge on a shared key column whose unit differs between the frames, with and without the row-origin indicator
            "merge_key_conflict", "merge_key_conflict_indicator"]
KEYCONF = ("merge_key_conflict", "merge_key_conflict_indicator")
ARITH = ("pow", "rdiv", "mul_array", "div_series")
MUTS = ["unit", "dest", "name", "delcol", "addcol"]


def ids_of(df):
    info = df._table_data
    out = {id(info), id(info.metadata), id(info.metadata.destinations), id(info.columns)}
    out |= {id(c) for c in info.columns.values()}
    return out


def view(df):
    info = df._table_data
    o = info.metadata.origin
    if o is None:
        op, anc = None, []
    elif o.operation is None:
        op, anc = None, [o.input_location.row]
    else:
        op = o.operation
        try:
            anc = [loc.row for loc in o.get_input_ancestors()]
        except Exception as e:
            anc = [f"{type(e).__name__}"]
    return {"name": info.metadata.name, "dests": sorted(info.metadata.destinations),
            "units": [[F.lab(k), str(v.unit)] for k, v in info.columns.items()], "op": op, "anc": anc}


class Program:
    def __init__(self, case):
        self.case = case
        self.rng = random.Random(case["vseed"])
        self.keys = {}      # id(obj) -> key
        self.refs = []      # keep every frame object alive (ids must not be reused)
        self.user = {}      # key -> TableDataFrame held by the "user"
        self.prog = []      # [(action, [refused, {key: view}])]
        self.oracle = []

    def key(self, obj):
        k = self.keys.get(id(obj))
        if k is None:
            k = len(self.keys)
            self.keys[id(obj)] = k
            self.refs.append(obj)
        return k

    def views(self):
        """A checked access to every live frame, then its view and current columns."""
        from pdtable.frame import get_table_info

        out = {}
        for k, df in self.user.items():
            try:
                get_table_info(df)
            except Exception as e:
                out[str(k)] = dict(view(df), consult_exc=type(e).__name__)
                continue
            v = view(df)
            v["cols"] = [] if df.empty else [[F.lab(c), DEFAULT.get(F.dtype_code(df.dtypes.iloc[i])[0], "?")] for i, c in enumerate(df.columns)]
            out[str(k)] = v
        return out

    def record(self, action, refused=False):
        self.prog.append((action, [refused, self.views()]))

    def new_table(self, spec, loc):
        from pdtable import Table
        from pdtable.table_origin import NullLocationFile, TableOrigin

        n = spec["nrows"]
        data = {c["name"]: F.values_for(c["kind"], n, self.rng) for c in spec["cols"]}
        origin = TableOrigin(input_location=NullLocationFile("src").make_location_sheet().make_location_block(loc))
        t = Table(pd.DataFrame(data), name=spec["name"], destinations=set(spec["dests"]),
                  units=[c["unit"] for c in spec["cols"]], origin=origin)
        k = self.key(t.df)
        self.user[k] = t.df
        self.record(["ANew", k, spec["name"], spec["dests"], [[c["name"], c["unit"]] for c in spec["cols"]], loc])

    def flush_events(self):
        for ev in F.FIN_LOG:
            k = self.key(ev["self_obj"])
            srcs = [self.key(x) for x in ev["src_objs"]]
            defaults = [] if ev["empty"] else [[n, DEFAULT.get(d[0], "?")] for n, d in ev["cols"]]
            act = ["AFinalize", k, srcs, [n for n, _ in ev["cols"]], str(ev["method"]), ev["strict"], defaults]
            self.record(act, refused=ev["raised"] is not None)
        del F.FIN_LOG[:]

    def pandas_op(self, op):
        from pdtable.frame import TableDataFrame

        keys = sorted(self.user)
        a = self.user[keys[op["a"] % len(keys)]]
        b = self.user[keys[op["b"] % len(keys)]]
        n = len(a)
        cols = list(a.columns)
        name = op["op"]
        before = self.views()
        del F.FIN_LOG[:]
        res, exc, wrn = None, None, []
        try:
            with warnings.catch_warnings(record=True) as w:
                warnings.simplefilter("always")
                if name == "copy":
                    res = a.copy()
                elif name == "rows":
                    res = a.iloc[: max(1, n - 1)]
                elif name == "cols":
                    res = a[cols[::-1][: max(1, len(cols) - op["k"] % 2)]]
                elif name == "take":
                    res = a.take(list(range(n))[::-1])
                elif name == "reindex":
                    res = a.reindex(list(a.index)[::-1])
                elif name == "sort_index":
                    res = a.sort_index(ascending=False)
                elif name == "astype":
                    num = [c for c in cols if a[c].dtype.kind in "if"]
                    if not num:
                        return
                    res = a.astype({num[0]: float})
                elif name == "fillna":
                    res = a.fillna(0.0)
                elif name == "replace":
                    res = a.replace(12345.0, 1.0)
                elif name == "assign":
                    res = a.assign(extra_col=np.arange(n, dtype=float))
                elif name == "drop":
                    if len(cols) < 2:
                        return
                    res = a.drop(columns=[cols[-1]])
                elif name in ("concat", "concat_conflict") + KEYCONF:
                    other = b
                    if name in KEYCONF and not any(a[c].dtype.kind in "if" for c in cols):
                        return
                    if name == "concat_conflict" or name in KEYCONF:
                        from pdtable import Table

                        from pdtable.table_origin import NullLocationFile, TableOrigin

                        t2 = Table(pd.DataFrame(a).copy(), name="conflict", units=["zz" if a[c].dtype.kind in "if" else
                                   {"b": "onoff"}.get(a[c].dtype.kind, "text") for c in cols],
                                   origin=TableOrigin(input_location=NullLocationFile("c").make_location_sheet().make_location_block(999)),
                                   # the refusal must not depend on how strictly the other frame checks its own types
                                   **({"strict_types": False} if op["k"] % 2 else {}))
                        other = t2.df
                        del F.FIN_LOG[:]
                        self.prog.append((["ANew", self.key(other), "conflict", ["all"],
                                           [[u[0], u[1]] for u in view(other)["units"]], 999], [False, self.views()]))
                    if name in KEYCONF:
                        key_col = next(c for c in cols if a[c].dtype.kind in "if")
                        res = a.merge(other, on=key_col, suffixes=("", "_r"), **({"indicator": True} if name.endswith("indicator") else {}))
                    else:
                        res = pd.concat([a, other], ignore_index=True)
                elif name == "merge":
                    res = a.merge(b, left_index=True, right_index=True, suffixes=("", "_r"))
                elif name == "describe":
                    res = a.describe()
                elif name == "pivot":
                    res = pd.DataFrame(a).head(0)
                elif name == "T":
                    res = a.T
                elif name == "dropna":
                    res = a.dropna()
                elif name in ARITH:
                    num = [c for c in cols if a[c].dtype.kind in "if"]
                    if not num or n == 0:
                        return
                    an = a[num]
                    del F.FIN_LOG[:]
                    if name == "pow":
                        res = an ** 2
                    elif name == "rdiv":
                        res = 1.0 / an
                    elif name == "mul_array":
                        res = an * np.full((n, len(num)), 1000.0)
                    else:
                        res = an.div(an[num[0]], axis=0)
                wrn = [str(x.message)[:60] for x in w]
        except Exception as e:
            exc = type(e).__name__
        plain = None
        if exc and name == "merge":
            # what pandas alone makes of it: a refusal, or a frame no table can carry (repeated labels)
            try:
                with warnings.catch_warnings():
                    warnings.simplefilter("ignore")
                    r = pd.DataFrame(a).merge(pd.DataFrame(b), left_index=True, right_index=True, suffixes=("", "_r"))
                plain = "duplicate-labels" if bool(r.columns.duplicated().any()) else "ok"
            except Exception as e2:
                plain = "raised:" + type(e2).__name__
        self.flush_events()
        rec = {"op": name, "exc": exc, "plain": plain, "conflict_possible": any(a[c].dtype.kind in "if" and dict(view(a)["units"]).get(F.lab(c)) != "zz" for c in cols), "warned": bool(wrn),   # any warning counts: the wording is the library's business
               "is_table": isinstance(res, TableDataFrame) and hasattr(res, "_table_data"),
               "src_a": keys[op["a"] % len(keys)], "src_b": keys[op["b"] % len(keys)], "before": before}
        if rec["is_table"]:
            k = self.key(res)
            self.user[k] = res
            rec["result"] = k
            rec["result_cols"] = [[F.lab(c), F.dtype_code(res.dtypes.iloc[i])[0]] for i, c in enumerate(res.columns)]
        rec["after"] = self.views()
        if rec["is_table"]:
            rec["result_view"] = rec["after"][str(rec["result"])]
            self.record(["ADrop", rec["result"]])   # a checked access to the new frame (no other effect)
        self.oracle.append(rec)

    def rewrap(self, op):
        from pdtable import Table

        keys = sorted(self.user)
        k0 = keys[op["a"] % len(keys)]
        a = self.user[k0]
        before = self.views()
        newname = "renamed" if op["k"] % 2 == 0 else None
        cur_units = [u for _, u in view(a)["units"]]
        newunits = None
        if op["k"] % 3 == 0:
            newunits = [u if u in ("text", "onoff") else "N" for u in cur_units]
        kw = {}
        if newname:
            kw["name"] = newname
        if newunits:
            kw["units"] = newunits
        if not kw:
            kw["name"] = "again"
            newname = "again"
        del F.FIN_LOG[:]
        try:
            with warnings.catch_warnings():
                warnings.simplefilter("ignore")
                t2 = Table(a, **kw)
        except Exception as e:
            self.oracle.append({"op": "rewrap", "exc": type(e).__name__, "before": before, "after": self.views()})
            del F.FIN_LOG[:]
            return
        self.flush_events()
        k = self.key(t2.df)
        self.user[k] = t2.df
        self.record(["ARewrap", k, k0, newname, newunits])
        self.oracle.append({"op": "rewrap", "exc": None, "src_a": k0, "result": k, "before": before, "after": self.views(),
                            "newname": newname, "newunits": newunits})

    def mutate(self, op):
        from pdtable import Table

        keys = sorted(self.user)
        k0 = keys[op["a"] % len(keys)]
        a = self.user[k0]
        t = Table(a)
        before = self.views()
        m = op["m"]
        cols = [c for c, _ in view(a)["units"]]
        act = None
        try:
            if m == "unit" and cols:
                c = cols[op["k"] % len(cols)]
                if view(a)["units"][op["k"] % len(cols)][1] in ("text", "onoff"):
                    return
                label = next(x for x in a.columns if F.lab(x) == c)    # labels of a transposed frame are integers
                t[label].unit = "changed"
                act = ["AMutate", k0, ["MSetUnit", c, "changed"]]
            elif m == "dest":
                t.destinations.add("extra_dest")
                act = ["AMutate", k0, ["MAddDest", "extra_dest"]]
            elif m == "name":
                t.metadata.name = "mutated_name"
                act = ["AMutate", k0, ["MSetName", "mutated_name"]]
            elif m == "delcol" and len(a.columns) >= 2:
                c = a.columns[-1]      # not necessarily a string (labels of a transposed frame)
                del a[c]
                t.units
                act = ["AMutate", k0, ["MDelCol", F.lab(c)]]
            elif m == "addcol" and "added_col" not in a.columns and len(a) > 0:
                t.add_column("added_col", list(np.arange(len(a), dtype=float)), unit="kg")
                act = ["AMutate", k0, ["MAddCol", "added_col", "kg"]]
        except Exception as e:
            self.oracle.append({"op": "mutate-" + m, "exc": type(e).__name__, "before": before, "after": self.views()})
            return
        if act is None:
            return
        self.record(act)
        self.oracle.append({"op": "mutate-" + m, "exc": None, "target": k0, "before": before, "after": self.views()})

    def run(self):
        F.install_finalize_log()
        del F.FIN_LOG[:]
        for j, spec in enumerate(self.case["tables"]):
            self.new_table(spec, 100 + j)
            del F.FIN_LOG[:]
        for op in self.case["ops"]:
            if op["t"] == "pandas":
                self.pandas_op(op)
            elif op["t"] == "rewrap":
                self.rewrap(op)
            else:
                self.mutate(op)
        # identity separation between all user-held frames
        self.sep = []
        ks = sorted(self.user)
        for i, x in enumerate(ks):
            for y in ks[i + 1:]:
                shared = ids_of(self.user[x]) & ids_of(self.user[y])
                if shared:
                    self.sep.append([x, y, len(shared)])
        return self


def g_mut(m):
    if m[0] == "MSetUnit":
        return f"(MSetUnit {g_str(m[1])} {g_str(m[2])})"
    if m[0] == "MAddDest":
        return f"(MAddDest {g_str(m[1])})"
    if m[0] == "MSetName":
        return f"(MSetName {g_str(m[1])})"
    if m[0] == "MDelCol":
        return f"(MDelCol {g_str(m[1])})"
    return f"(MAddCol {g_str(m[1])} {g_str(m[2])})"


def g_action(a):
    k = a[0]
    pairs = lambda l: g_list([g_pair(g_str(x), g_str(y)) for x, y in l])
    if k == "ANew":
        return f"ANew {g_nat(a[1])} {g_str(a[2])} {g_list([g_str(d) for d in a[3]])} {pairs(a[4])} {g_nat(a[5])}"
    if k == "AFinalize":
        return (f"AFinalize {g_nat(a[1])} {g_list([g_nat(x) for x in a[2]])} {g_list([g_str(x) for x in a[3]])} "
                f"{g_str(a[4])} {g_bool(a[5])} {pairs(a[6])}")
    if k == "ARewrap":
        return (f"ARewrap {g_nat(a[1])} {g_nat(a[2])} {g_opt(None if a[3] is None else g_str(a[3]))} "
                f"{g_opt(None if a[4] is None else g_list([g_str(u) for u in a[4]]))}")
    if k == "AMutate":
        return f"AMutate {g_nat(a[1])} {g_mut(a[2])}"
    if k == "ADrop":
        return f"ADrop {g_nat(a[1])}"
    raise ValueError(k)


def g_view(v):
    anc = [x for x in v["anc"] if isinstance(x, int)]
    return g_pair(g_pair(g_pair(g_pair(g_str(v["name"]), g_list([g_str(d) for d in v["dests"]])),
                                g_list([g_pair(g_str(a), g_str(b)) for a, b in v["units"]])),
                         g_opt(None if v["op"] is None else g_str(v["op"]))), g_list([g_nat(x) for x in anc]))


class C05(Prop):
    id = "C05"
    coq_header = "From PdV.Corr Require Import C05."
    rule = ("1-3 source tables (float/int/text/bool columns, physical and special units, leaf origins) followed by 2-6 "
            "actions: a pandas operation from the documented safe list (copy, row / column selection, take, reindex, "
            "sort_index, astype, fillna, replace, assign, drop, concat, merge) or outside it (describe, T, dropna, concat "
            "with conflicting units), a re-wrap with overriding name / units, or a mutation (unit, destination, name, "
            "delete / add column) of any live frame; every __finalize__ call is replayed on the heap model and all live "
            "frames are compared after every action; the oracle checks propagation, refusal, object-identity "
            "separation and that a mutation through one frame leaves all other frames unchanged; non-trivial = at "
            "least one derived frame and one mutation")
    assumptions = ["H_pandas_result: which frames pandas hands to __finalize__, with which method, is observed",
                   "TableOrigin is immutable (frozen dataclass)"]

    def generate(self, rng, tier):
        n = 700 if tier == "quick" else 8000
        cases = []
        for i in range(n):
            tables = []
            for j in range(rng.randint(1, 3)):
                ncols = rng.randint(1, 3)
                names = rng.sample(["a", "b", "c", "d"], ncols)
                cols = []
                for nm in names:
                    k = rng.choice(KINDS)
                    u = {"text": "text", "bool": "onoff"}.get(k) or rng.choice(["m", "kg", "-", "s"])
                    cols.append({"name": nm, "kind": k, "unit": u})
                tables.append({"name": f"t{j}", "dests": rng.choice([["all"], ["d1", "d2"], ["x"]]), "cols": cols,
                               "nrows": rng.randint(1, 3)})
            ops = []
            for _ in range(rng.randint(2, 6)):
                r = rng.random()
                if r < 0.5:
                    ops.append({"t": "pandas", "op": rng.choice(SAFE_OPS), "a": rng.randint(0, 9), "b": rng.randint(0, 9),
                                "k": rng.randint(0, 9)})
                elif r < 0.65:
                    ops.append({"t": "rewrap", "a": rng.randint(0, 9), "k": rng.randint(0, 9)})
                else:
                    ops.append({"t": "mutate", "m": rng.choice(MUTS), "a": rng.randint(0, 9), "k": rng.randint(0, 9)})
            cases.append({"tables": tables, "ops": ops, "vseed": rng.randint(0, 10**6)})
        return cases

    def run_impl(self, case):
        p = Program(case).run()
        return {"prog": [[a, o] for a, o in p.prog], "oracle": p.oracle, "sep": p.sep}

    def oracle(self, case, obs):
        fails = []
        for x, y, n in obs["sep"]:
            fails.append(f"aliasing: frames {x} and {y} share {n} mutable metadata object(s)")
        for rec in obs["oracle"]:
            op = rec["op"]
            b, a = rec["before"], rec["after"]
            if op.startswith("mutate-") or op == "rewrap":
                if rec.get("exc"):
                    if rec["exc"] not in ("ColumnUnitException",):
                        fails.append(f"mutation-raised: {op} raised {rec['exc']}")
                    continue
                tgt = str(rec.get("target", rec.get("result")))
                for k, v in b.items():
                    if k != tgt and a.get(k) != v:
                        fails.append(f"interference: {op} on frame {tgt} changed frame {k}: {v} -> {a.get(k)}")
                if op == "rewrap":
                    rv = a[str(rec["result"])]
                    sv = b[str(rec["src_a"])]
                    if rec["newname"] and rv["name"] != rec["newname"]:
                        fails.append("rewrap: overriding name not applied")
                    if rv["dests"] != sv["dests"]:
                        fails.append("rewrap: destinations not carried over")
                    if rec["newunits"] and [u for _, u in rv["units"]] != rec["newunits"]:
                        fails.append("rewrap: overriding units not applied")
                continue
            # pandas operations
            for k, v in b.items():
                if a.get(k) != v:
                    fails.append(f"source-changed: pandas {op} changed frame {k}")
            if op == "concat_conflict":
                if rec["conflict_possible"] and rec["exc"] != "InvalidTableCombineError":
                    fails.append(f"refuse: concat of frames with conflicting units gave {rec['exc'] or 'a result'}")
                continue
            if op in KEYCONF:
                # refused, or a plain DataFrame with a warning: never a table that labels the key with one of the two units
                if rec["exc"] is None and rec["is_table"]:
                    fails.append(f"refuse-{op}: merge on a key column whose unit differs between the frames gave a table "
                                 f"(key labelled {dict(rec['result_view']['units'])})"[:160].split(" (key")[0])
                elif rec["exc"] is None and not rec["warned"]:
                    fails.append(f"refuse-{op}: merge on a key column whose unit differs gave a plain frame without a warning")
                continue
            if rec["exc"]:
                unrepresentable = (rec.get("plain") or "").startswith("raised:") or \
                    (rec["exc"] == "InvalidNamingError" and rec.get("plain") == "duplicate-labels")
                if rec["exc"] not in ("ColumnUnitException", "InvalidTableCombineError") and not unrepresentable:
                    fails.append(f"op-raised: pandas {op} raised {rec['exc']}")
                continue
            if not rec["is_table"]:
                if op in ("copy", "rows", "cols", "take", "reindex", "sort_index", "astype", "fillna", "replace", "assign",
                          "drop"):
                    fails.append(f"lost-metadata: safe operation {op} returned a plain DataFrame")
                elif op in ("concat", "merge") + ARITH and not rec["warned"]:
                    fails.append(f"silent-fallback: {op} returned a plain DataFrame without a warning")
                continue
            rv = rec["result_view"]
            sa, sb = b[str(rec["src_a"])], b[str(rec["src_b"])]
            if op in ARITH:
                fails.append(f"mislabelled: the result of {op} (arithmetic with a non-table operand) is still a table, units {rv['units']}")
                continue
            if op in ("describe", "T", "pivot"):
                continue   # outside the safe list: a table result is judged only for aliasing
            if rv["name"] != sa["name"] or rv["dests"] != sa["dests"]:
                fails.append(f"header: result of {op} has name/destinations {rv['name']}/{rv['dests']}, first source {sa['name']}/{sa['dests']}")
            if not (rv["op"] or "").startswith("Pandas "):
                fails.append(f"origin: result of {op} has origin operation {rv['op']!r}")
            want_anc = sa["anc"] + (sb["anc"] if op in ("concat", "merge") else [])
            if sorted(map(str, rv["anc"])) != sorted(map(str, want_anc)):
                fails.append(f"origin: input ancestors {rv['anc']} of {op}, sources have {want_anc}")
            su = dict(sa["units"])
            su2 = dict(sb["units"]) if op in ("concat", "merge") else {}
            ru = dict(rv["units"])
            for c, kind in rec["result_cols"]:
                have = ru.get(c)
                base = c[:-2] if (op == "merge" and c.endswith("_r")) else c
                if c in su:
                    want = su[c]
                elif c in su2:
                    want = su2[c]
                else:
                    want = DEFAULT.get(kind)
                if have != want:
                    fails.append(f"units: column {c!r} of the result of {op} has unit {have!r}, expected {want!r}")
        return fails

    def corpus(self):
        # the recorded finding, reproduced on every run: a merge on a key whose unit differs, with the row-origin indicator
        tab = {"name": "t0", "dests": ["all"], "nrows": 2,
               "cols": [{"name": "a", "kind": "float", "unit": "m"}, {"name": "b", "kind": "float", "unit": "kg"}]}
        return [{"tables": [tab], "vseed": 11, "ops": [{"t": "pandas", "op": "merge_key_conflict", "a": 0, "b": 0, "k": 0},
                                                       {"t": "pandas", "op": "merge_key_conflict_indicator", "a": 0, "b": 0, "k": 0},
                                                       {"t": "mutate", "m": "unit", "a": 0, "k": 0}]}]

    def finding_key(self, case, obs, failure):
        if failure.startswith("refuse-merge_key_conflict_indicator:"):
            return "C05:merge-indicator-key-unit-conflict"
        return None

    def to_coq(self, case, obs):
        if any(r.get("op") in KEYCONF for r in obs.get("oracle", [])):
            return None     # pandas drops the right frame's key column before pdtable is told of the merge: not in the model
        items = []
        for a, (refused, views) in obs["prog"]:
            vs = g_list([g_pair(g_pair(g_nat(int(k)), g_list([g_pair(g_str(x), g_str(y)) for x, y in v.get("cols", [])])), g_view(v))
                         for k, v in views.items()])
            items.append(g_pair("(" + g_action(a) + ")", g_pair(g_bool(refused), vs)))
        return g_list(items)

    def nontrivial(self, case, obs):
        ops = [r["op"] for r in obs["oracle"]]
        return any(o.startswith("mutate") for o in ops) and any(r.get("is_table") for r in obs["oracle"])

    def kind(self, case, obs):
        return f"frames={min(len(obs['prog']), 9)}"


PROP = C05()
