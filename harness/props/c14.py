"""C14 - Table.equals is true exactly for the same header and the same cells."""
from __future__ import annotations

import copy
import random

from .. import tables as T
from ..core import g_bool, g_list, g_pair, g_str
from ..driver import Prop


def g_pyval(v):
    """A python scalar as handed out by DataFrame.itertuples, as a term of PyEq.pyval."""
    import datetime
    import math
    import zlib

    import numpy as np
    import pandas as pd

    if v is None:
        return "PNone"
    if v is pd.NaT:
        return "PNaT"
    if v is pd.NA:
        return "PNA"
    if isinstance(v, (bool, np.bool_)):
        return f"(PBool {g_bool(bool(v))})"
    if isinstance(v, (int, np.integer)):
        return f"(PInt ({int(v)})%Z)"
    if isinstance(v, (float, np.floating)):
        return f"(PFloat {T.fbits(float(v))})"       # the bit pattern as it is (NaN payloads included)
    if isinstance(v, str):
        return f"(PStr {g_str(v)})"
    if isinstance(v, (pd.Timestamp, datetime.datetime, np.datetime64)):
        t = pd.Timestamp(v)
        if t.tzinfo is None:                  # a naive timestamp, whichever of the three types carries it
            from ..cells import dt_ns

            return f"(PDate ({dt_ns(t)})%Z)"
        # a time-zone-aware timestamp never equals a naive one: another kind of object for the model
    return f"(POther {zlib.crc32((type(v).__name__ + ':' + repr(v)).encode())})"


def g_obj(table, cls=0):
    """A pdtable.Table as a term of Equals.pyobj: class, origin, orientation, header and the cells of the frame."""
    import zlib

    df = table.df
    rows = [list(r) for r in df.itertuples(index=False, name=None)]
    origin = zlib.crc32(str(table.metadata.origin).encode())
    return (
        f"(OTable {cls} {origin} {g_bool(bool(table.metadata.transposed))} (mk {g_str(table.name)} "
        f"{g_list([g_str(d) for d in sorted(table.metadata.destinations)])} "
        f"{g_list([g_str(c if isinstance(c, str) else '#' + str(c)) for c in table.column_names])} "
        f"{g_list([g_str(str(u)) for u in table.units])} "
        f"{g_list([g_list([g_pyval(x) for x in r]) for r in rows])}))"
    )


def scalar_pool():
    import datetime

    import numpy as np
    import pandas as pd

    return [0, 1, -1, 10, 10.0, 0.0, -0.0, 1.5, float("nan"), np.nan, np.float64(1.5), np.int64(10), np.float64("nan"),
            float("inf"), -float("inf"), 2**53, float(2**53), 2**53 + 1, 2**64, float(2**64), -(2**63), 10**30, 1e30, 5e-324,
            2.2250738585072014e-308, 0.1, 1 / 3, np.float32(0.1), np.int8(-1), np.uint64(2**63), np.int64(2**53 + 1),
            True, False, np.bool_(True), "", "a", "1", "nan", "10", "True",
            None, pd.NaT, pd.NA, pd.Timestamp("2020-01-01"), pd.Timestamp("2020-01-01 00:00:00.000001"),
            pd.Timestamp("1999-01-01"), pd.Timestamp("2020-01-01").as_unit("s"), datetime.date(2020, 1, 1), (1, 2),
            datetime.datetime(2020, 1, 1), np.datetime64("2020-01-01T00:00:00.000001"), pd.Timestamp("2020-01-01", tz="UTC")]


MUTATIONS = ["identity", "retype", "origin", "orientation", "name", "dest_add", "dest_remove", "dest_replace",
             "unit", "colname", "colorder", "cell", "row_add", "row_remove", "col_add", "col_remove",
             "missing_flavour", "empty_vs_full", "unrelated", "nontable", "missing_respell", "strictness", "row_add_missing",
             "nullable", "nullable_na", "nullable_cell", "subclass"]


def mutate(rng, spec, mut):
    s = copy.deepcopy(spec)
    cols = s["cols"]
    nrows = len(cols[0]["values"]) if cols else 0
    if mut == "identity" or mut == "origin":
        return s
    if mut == "strictness":
        s["strict"] = False          # how the table was built, not what it holds
        return s
    if mut == "retype":
        for c in cols:
            if c["kind"] == "int":
                c["kind"] = "float"
                c["values"] = [{"f": float(v["i"]).hex()} for v in c["values"]]
        return s
    if mut == "orientation":
        s["transposed"] = not s.get("transposed", False)
        return s
    if mut == "name":
        s["name"] = s["name"] + "x"
        return s
    if mut == "dest_add":
        s["dests"] = s["dests"] + ["zz9"]
        return s
    if mut == "dest_remove":
        if len(s["dests"]) > 1:
            s["dests"] = s["dests"][1:]
        else:
            s["dests"] = ["other"]
        return s
    if mut == "dest_replace":
        s["dests"] = s["dests"][:-1] + [s["dests"][-1] + "q"]
        return s
    if mut == "unit" and cols:
        c = rng.choice([c for c in cols if c["kind"] in ("float", "int")] or cols)
        c["unit"] = c["unit"] + "2" if c["kind"] in ("float", "int") else c["unit"]
        if c["kind"] not in ("float", "int"):
            s["name"] += "u"
        return s
    if mut == "colname" and cols:
        rng.choice(cols)["name"] += "_r"
        return s
    if mut == "colorder" and len(cols) >= 2:
        s["cols"] = cols[1:] + cols[:1]
        return s
    if mut == "cell" and cols and nrows:
        c = rng.choice(cols)
        i = rng.randrange(nrows)
        v = c["values"][i]
        if c["kind"] == "text":
            c["values"][i] = v + "!"
        elif c["kind"] == "onoff":
            c["values"][i] = {"b": not v["b"]}
        elif c["kind"] == "datetime":
            c["values"][i] = {"ts": "1999-01-01T00:00:00"} if v != {"ts": "1999-01-01T00:00:00"} else {"nat": 1}
        elif c["kind"] == "int":
            c["values"][i] = {"i": v["i"] + 1}
        else:
            c["values"][i] = {"f": (12345.678).hex()} if v != {"f": (12345.678).hex()} else {"f": "nan"}
        return s
    if mut == "row_add" and cols:
        for c in cols:
            c["values"].append(c["values"][-1] if c["values"] else T.gen_col(rng, c["kind"], 1, ";", True)["values"][0])
        return s
    if mut == "row_remove" and cols and nrows:
        for c in cols:
            c["values"].pop()
        return s
    if mut == "col_add":
        s["cols"].append(T.gen_col(rng, "float", nrows, ";", name="added_col"))
        return s
    if mut == "col_remove" and len(cols) >= 2:
        s["cols"].pop()
        return s
    if mut == "empty_vs_full" and cols:
        for c in cols:
            c["values"] = []
        return s
    if mut == "missing_flavour":
        # a numeric NaN column against the same column holding NaT under the same unit
        for c in cols:
            if c["kind"] == "float" and c["values"] and all(v == {"f": "nan"} for v in c["values"]):
                c["kind"] = "datetime"
                c["values"] = [{"nat": 1} for _ in c["values"]]
        return s
    s["name"] += "_m"
    return s


class C14(Prop):
    id = "C14"
    coq_header = "From PdV.Corr Require Import C14."
    rule = ("pairs (t, mutate(t)) for 27 single-aspect mutations of random tables (all column kinds, 0..6 rows; numpy and "
            "pandas-nullable column types with pd.NA; Table and a subclass of Table), both argument orders, plus unrelated "
            "pairs and non-table operands: the model's method_equals on the cells the frames hand out (ints as integers, "
            "floats as bit patterns) against the four verdicts a.equals(b), b.equals(a), a.equals(a), b.equals(b); all "
            "pairs of a 52-value scalar pool, as one-cell tables through Table.equals, against the model's equal_or_same; expected verdict "
            "recomputed independently from the specifications; non-trivial = tables with at least one column; "
            "distinct = distinct pairs")
    assumptions = [
        "H_pyeq: python's == on int / bool / float compares exact values, on str and Timestamp contents (modelled in PyEq.py_eq; checked on all pairs of the scalar pool on every run)",
        "default row numbering (RangeIndex), every row holds one cell per column (pandas DataFrame invariant)",
    ]

    def corpus(self):
        base = {"name": "t", "dests": ["a"], "transposed": False,
                "cols": [{"name": "c", "unit": "-", "kind": "int", "values": [{"i": 1}, {"i": 2}]}]}
        longer = copy.deepcopy(base)
        longer["cols"][0]["values"].append({"i": 3})
        empty = copy.deepcopy(base)
        empty["cols"][0]["values"] = []
        out = [{"a": base, "b": longer, "mut": "row_add"}, {"a": empty, "b": base, "mut": "empty_vs_full"},
               {"a": base, "b": base, "mut": "identity"}]
        # integers beyond float precision next to a float column (a frame of only int64 and float64 columns becomes one
        # float block under to_numpy()): tables differing by one in such an integer
        for k, big in enumerate([2**53, 2**53 + 2, 2**60, -(2**53), 2**62, 2**53 + 4]):
            for other in (["float"], ["float", "float"], []):
                cols = [{"name": "n", "unit": "-", "kind": "int", "values": [{"i": 1}, {"i": big}]}]
                cols += [{"name": f"f{j}", "unit": "m", "kind": "float", "values": [{"f": (1.5).hex()}, {"f": (2.5).hex()}]}
                         for j, _ in enumerate(other)]
                a = {"name": "t", "dests": ["a"], "transposed": False, "cols": cols}
                b = copy.deepcopy(a)
                b["cols"][0]["values"][1] = {"i": big + 1}
                out.append({"a": a, "b": b, "mut": "cell"})
                out.append({"a": a, "b": copy.deepcopy(a), "mut": "identity"})
        # a nullable integer column (whose cells are numpy scalars) against a float column holding the nearest float
        for big in (2**53 + 1, 2**60 + 1, -(2**53) - 1):
            a = {"name": "t", "dests": ["a"], "transposed": False, "nullable": True,
                 "cols": [{"name": "n", "unit": "-", "kind": "int", "values": [{"i": 1}, {"i": big}]}]}
            b = {"name": "t", "dests": ["a"], "transposed": False,
                 "cols": [{"name": "n", "unit": "-", "kind": "float", "values": [{"f": (1.0).hex()}, {"f": float(big).hex()}]}]}
            out += [{"a": a, "b": b, "mut": "cell"}, {"a": b, "b": a, "mut": "cell"}, {"a": a, "b": copy.deepcopy(a), "mut": "identity"}]
        n = len(scalar_pool())
        out += [{"scalars": [i, j], "mut": "scalars", "a": {"cols": []}, "b": None} for i in range(n) for j in range(n)]
        return out

    def generate(self, rng, tier):
        n = 1200 if tier == "quick" else 15000
        cases = []
        for i in range(n):
            t = T.gen_table(rng, odd=True)
            # give NaN-only float columns a chance (missing flavours)
            if rng.random() < 0.1:
                for c in t["cols"]:
                    if c["kind"] == "float":
                        c["values"] = [{"f": "nan"} for _ in c["values"]]
            mut = MUTATIONS[i % len(MUTATIONS)]
            if mut == "row_add_missing":
                # the same table with one or two extra rows at the end in which every cell is missing
                t = T.gen_table(rng, odd=True, kinds=["float", "datetime", "float"], max_rows=3)
                b = copy.deepcopy(t)
                for c in b["cols"]:
                    c["values"] += [{"f": "nan"} if c["kind"] == "float" else {"nat": 1}] * (1 + i % 2)
                cases.append({"a": t, "b": b, "mut": mut})
                continue
            if mut in ("nullable", "nullable_na", "nullable_cell"):
                # pandas' nullable column types (Int64, Float64, string, boolean), whose missing cell is pd.NA
                t = T.gen_table(rng, odd=False, kinds=["int", "float", "text", "onoff"], max_rows=4, bigint=False)
                b = copy.deepcopy(t)
                b["nullable"] = True
                if mut != "nullable":
                    t["nullable"] = True
                    for c, cb in zip(t["cols"], b["cols"]):
                        for k in range(len(c["values"])):
                            if rng.random() < 0.4:
                                c["values"][k] = {"na": 1}
                                cb["values"][k] = {"na": 1}
                    if mut == "nullable_cell" and t["cols"] and t["cols"][0]["values"]:
                        cb = rng.choice(b["cols"])
                        k = rng.randrange(len(cb["values"]))
                        present = {"int": {"i": 7777}, "float": {"f": (7777.5).hex()}, "text": "seven", "onoff": {"b": True}}[cb["kind"]]
                        cb["values"][k] = present if cb["values"][k] == {"na": 1} else {"na": 1}
                cases.append({"a": t, "b": b, "mut": mut})
                continue
            if mut in ("colname", "colorder", "identity", "col_remove") and i % 3 == 0 and len(t["cols"]) >= 2:
                # tables built without explicit units (zero rows, or not strictly typed): the header comparison must
                # still see every column name, in order
                a = copy.deepcopy(t)
                for c in a["cols"]:
                    c["unit"] = {"text": "text", "onoff": "onoff", "datetime": "datetime"}.get(c["kind"], "-")
                    if i % 2 == 0:
                        c["values"] = []
                a["no_units"] = True
                if i % 2 == 1:
                    a["strict"] = False
                cases.append({"a": a, "b": mutate(rng, a, mut), "mut": mut})
                continue
            if mut == "subclass":
                cases.append({"a": t, "b": copy.deepcopy(t) if i % 2 else mutate(rng, t, "cell"), "mut": mut})
                continue
            if mut == "missing_respell":
                # the same empty cell spelled None in one table and NaN / NaT in the other (text columns are object arrays)
                tc = [c for c in t["cols"] if c["kind"] == "text" and len(c["values"]) >= 2]
                while not tc:
                    t = T.gen_table(rng, odd=True, kinds=["text", "float", "text"], max_rows=4)
                    tc = [c for c in t["cols"] if c["kind"] == "text" and len(c["values"]) >= 2]
                b = copy.deepcopy(t)
                for c, cb in zip(t["cols"], b["cols"]):
                    if c["kind"] == "text" and len(c["values"]) >= 2:     # a string stays: the column remains an object array
                        k = rng.randrange(len(c["values"]))
                        c["values"][k] = None
                        cb["values"][k] = rng.choice([{"f": "nan"}, {"nat": 1}, None])
                cases.append({"a": t, "b": b, "mut": mut})
            elif mut == "unrelated":
                cases.append({"a": t, "b": T.gen_table(rng), "mut": mut})
            elif mut == "nontable":
                cases.append({"a": t, "b": None, "mut": mut, "other": rng.choice(["dict", "df", "none", "str"])})
            else:
                cases.append({"a": t, "b": mutate(rng, t, mut), "mut": mut})
        return cases

    def run_impl(self, case):
        import pandas as pd
        from pdtable import Table, TableOrigin

        if "scalars" in case:
            # two one-cell tables (an object column keeps the scalar as it is): the cell comparison through the
            # public method, whatever the helpers behind it are called
            pool = scalar_pool()
            x, y = pool[case["scalars"][0]], pool[case["scalars"][1]]
            one = lambda v: Table(pd.DataFrame({"v": pd.Series([v], dtype=object)}), name="t", units=["text"])
            raised = None
            try:
                got = bool(one(x).equals(one(y)))
            except Exception as e:
                got, raised = False, type(e).__name__
            return {"scalar": got, "raised": raised, "x": g_pyval(x), "y": g_pyval(y), "tok_equal": T.tok(x, True) == T.tok(y, True),
                    "repr": [repr(x), repr(y)]}

        class Derived(Table):
            pass

        a = T.build_table(case["a"])
        if case["b"] is None:
            other = {"dict": case["a"], "df": pd.DataFrame(a.df), "none": None, "str": "t"}[case["other"]]
            return {"ab": bool(a.equals(other)), "nontable": True, "ga": g_obj(a)}
        kw = {"origin": "elsewhere"} if case["mut"] == "origin" else {}
        if case["mut"] == "subclass":
            kw["cls"] = Derived
        b = T.build_table(case["b"], **kw)
        return {"ab": bool(a.equals(b)), "ba": bool(b.equals(a)), "aa": bool(a.equals(a)), "bb": bool(b.equals(b)),
                "ga": g_obj(a), "gb": g_obj(b, cls=1 if case["mut"] == "subclass" else 0)}

    def expected(self, case):
        ta = T.spec_tokens(case["a"], bool_as_num=True)
        tb = T.spec_tokens(case["b"], bool_as_num=True)
        return T.same_table(ta, tb, flag=False)

    def oracle(self, case, obs):
        fails = []
        if "scalar" in obs:
            if obs["scalar"] != obs["tok_equal"]:
                fails.append(f"cells: one-cell tables holding {obs['repr'][0]} and {obs['repr'][1]} compare {obs['scalar']}, by value and "
                             f"missingness the two are {'equal' if obs['tok_equal'] else 'different'}")
            return fails
        if obs.get("nontable"):
            if obs["ab"]:
                fails.append("nontable: equals(non-table) returned True")
            return fails
        if "ab" not in obs:
            return fails
        exp = self.expected(case)
        if obs["ab"] != exp:
            fails.append(f"iff-{'missed-difference' if obs['ab'] else 'false-negative'}: equals={obs['ab']} but tables are "
                         f"{'equal' if exp else 'different'} (mutation {case['mut']})")
        if obs["ab"] != obs["ba"]:
            fails.append("symmetry: a.equals(b) != b.equals(a)")
        if not obs["aa"] or not obs["bb"]:
            fails.append("reflexivity: t.equals(t) is False")
        return fails

    def to_coq(self, case, obs):
        if "scalar" in obs:
            if not isinstance(obs["scalar"], bool):
                return None                    # an exception: reported by the oracle
            return f"(KScalars {obs['x']} {obs['y']} {g_bool(obs['scalar'])})"
        if obs.get("nontable"):
            return f"(KOther {obs['ga']} 1 {g_bool(obs['ab'])})"
        if "ab" not in obs:
            return None
        return f"(KTables {obs['ga']} {obs['gb']} {g_bool(obs['ab'])} {g_bool(obs['ba'])} {g_bool(obs['aa'])} {g_bool(obs['bb'])})"

    def nontrivial(self, case, obs):
        return bool(case["a"]["cols"])

    def kind(self, case, obs):
        return case["mut"]

    def shrink(self, case):
        a, b = case["a"], case["b"]
        if b is None or "scalars" in case:
            return
        na = len(a["cols"][0]["values"]) if a["cols"] else 0
        nb = len(b["cols"][0]["values"]) if b["cols"] else 0
        # drop a common leading row
        if na > 0 and nb > 0:
            a2, b2 = copy.deepcopy(a), copy.deepcopy(b)
            for c in a2["cols"]:
                c["values"].pop(0)
            for c in b2["cols"]:
                c["values"].pop(0)
            yield {**case, "a": a2, "b": b2}
        # drop a common column (same position)
        for j in range(min(len(a["cols"]), len(b["cols"]))):
            if len(a["cols"]) > 1 and len(b["cols"]) > 1:
                a2, b2 = copy.deepcopy(a), copy.deepcopy(b)
                a2["cols"].pop(j)
                b2["cols"].pop(j)
                yield {**case, "a": a2, "b": b2}


PROP = C14()
