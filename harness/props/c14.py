"""C14 - Table.equals is true exactly for the same header and the same cells."""
from __future__ import annotations

import copy
import random

from .. import tables as T
from ..core import g_bool, g_list, g_pair, g_str
from ..driver import Prop


def g_tok(t):
    k = t[0]
    if k == "m":
        return "TM"
    if k == "n":
        return f"TN {t[1]}"
    if k == "s":
        return f"TS {g_str(t[1])}"
    if k == "d":
        return f"TD ({t[1]})%Z"
    if k == "b":
        return f"TB {g_bool(t[1])}"
    return f"TO {g_str(str(t[1]))}"


def g_table(spec):
    tk = T.spec_tokens(spec, bool_as_num=True)
    nrows = tk["nrows"]
    rows = [[c["values"][i] for c in tk["cols"]] for i in range(nrows)]
    return (
        f"(mk {g_str(spec['name'])} {g_list([g_str(d) for d in spec['dests']])} "
        f"{g_list([g_str(c['name']) for c in spec['cols']])} {g_list([g_str(c['unit']) for c in spec['cols']])} "
        f"{g_list([g_list([g_tok(x) for x in r]) for r in rows])})"
    )


MUTATIONS = ["identity", "retype", "origin", "orientation", "name", "dest_add", "dest_remove", "dest_replace",
             "unit", "colname", "colorder", "cell", "row_add", "row_remove", "col_add", "col_remove",
             "missing_flavour", "empty_vs_full", "unrelated", "nontable", "missing_respell", "strictness", "row_add_missing"]


def mutate(rng, spec, mut):
    s = copy.deepcopy(spec)
    cols = s["cols"]
    nrows = len(cols[0]["values"]) if cols else 0
    if mut == "identity" or mut == "origin":
        return s
    if mut == "strictness":
        s["strict"] = False          # how the table was built, not what it holds
        return s
    if mut == "retype":
        for c in cols:
            if c["kind"] == "int":
                c["kind"] = "float"
                c["values"] = [{"f": float(v["i"]).hex()} for v in c["values"]]
        return s
    if mut == "orientation":
        s["transposed"] = not s.get("transposed", False)
        return s
    if mut == "name":
        s["name"] = s["name"] + "x"
        return s
    if mut == "dest_add":
        s["dests"] = s["dests"] + ["zz9"]
        return s
    if mut == "dest_remove":
        if len(s["dests"]) > 1:
            s["dests"] = s["dests"][1:]
        else:
            s["dests"] = ["other"]
        return s
    if mut == "dest_replace":
        s["dests"] = s["dests"][:-1] + [s["dests"][-1] + "q"]
        return s
    if mut == "unit" and cols:
        c = rng.choice([c for c in cols if c["kind"] in ("float", "int")] or cols)
        c["unit"] = c["unit"] + "2" if c["kind"] in ("float", "int") else c["unit"]
        if c["kind"] not in ("float", "int"):
            s["name"] += "u"
        return s
    if mut == "colname" and cols:
        rng.choice(cols)["name"] += "_r"
        return s
    if mut == "colorder" and len(cols) >= 2:
        s["cols"] = cols[1:] + cols[:1]
        return s
    if mut == "cell" and cols and nrows:
        c = rng.choice(cols)
        i = rng.randrange(nrows)
        v = c["values"][i]
        if c["kind"] == "text":
            c["values"][i] = v + "!"
        elif c["kind"] == "onoff":
            c["values"][i] = {"b": not v["b"]}
        elif c["kind"] == "datetime":
            c["values"][i] = {"ts": "1999-01-01T00:00:00"} if v != {"ts": "1999-01-01T00:00:00"} else {"nat": 1}
        elif c["kind"] == "int":
            c["values"][i] = {"i": v["i"] + 1}
        else:
            c["values"][i] = {"f": (12345.678).hex()} if v != {"f": (12345.678).hex()} else {"f": "nan"}
        return s
    if mut == "row_add" and cols:
        for c in cols:
            c["values"].append(c["values"][-1] if c["values"] else T.gen_col(rng, c["kind"], 1, ";", True)["values"][0])
        return s
    if mut == "row_remove" and cols and nrows:
        for c in cols:
            c["values"].pop()
        return s
    if mut == "col_add":
        s["cols"].append(T.gen_col(rng, "float", nrows, ";", name="added_col"))
        return s
    if mut == "col_remove" and len(cols) >= 2:
        s["cols"].pop()
        return s
    if mut == "empty_vs_full" and cols:
        for c in cols:
            c["values"] = []
        return s
    if mut == "missing_flavour":
        # a numeric NaN column against the same column holding NaT under the same unit
        for c in cols:
            if c["kind"] == "float" and c["values"] and all(v == {"f": "nan"} for v in c["values"]):
                c["kind"] = "datetime"
                c["values"] = [{"nat": 1} for _ in c["values"]]
        return s
    s["name"] += "_m"
    return s


class C14(Prop):
    id = "C14"
    coq_header = "From PdV.Corr Require Import C14."
    rule = ("pairs (t, mutate(t)) for 23 single-aspect mutations of random tables (all column kinds, 0..6 rows), "
            "both argument orders, plus unrelated pairs and non-table operands; expected verdict recomputed from "
            "the specifications; non-trivial = tables with at least one column; distinct = distinct pairs")
    assumptions = [
        "H_eqv: _equal_or_same(a, b) == (token(a) == token(b)) for scalars of the generated kinds (checked on all pairs of a value pool on every run)",
        "default row numbering (RangeIndex), every row holds one cell per column (pandas DataFrame invariant)",
    ]

    def corpus(self):
        base = {"name": "t", "dests": ["a"], "transposed": False,
                "cols": [{"name": "c", "unit": "-", "kind": "int", "values": [{"i": 1}, {"i": 2}]}]}
        longer = copy.deepcopy(base)
        longer["cols"][0]["values"].append({"i": 3})
        empty = copy.deepcopy(base)
        empty["cols"][0]["values"] = []
        out = [{"a": base, "b": longer, "mut": "row_add"}, {"a": empty, "b": base, "mut": "empty_vs_full"},
               {"a": base, "b": base, "mut": "identity"}]
        # integers beyond float precision next to a float column (a frame of only int64 and float64 columns becomes one
        # float block under to_numpy()): tables differing by one in such an integer
        for k, big in enumerate([2**53, 2**53 + 2, 2**60, -(2**53), 2**62, 2**53 + 4]):
            for other in (["float"], ["float", "float"], []):
                cols = [{"name": "n", "unit": "-", "kind": "int", "values": [{"i": 1}, {"i": big}]}]
                cols += [{"name": f"f{j}", "unit": "m", "kind": "float", "values": [{"f": (1.5).hex()}, {"f": (2.5).hex()}]}
                         for j, _ in enumerate(other)]
                a = {"name": "t", "dests": ["a"], "transposed": False, "cols": cols}
                b = copy.deepcopy(a)
                b["cols"][0]["values"][1] = {"i": big + 1}
                out.append({"a": a, "b": b, "mut": "cell"})
                out.append({"a": a, "b": copy.deepcopy(a), "mut": "identity"})
        return out

    def generate(self, rng, tier):
        n = 1200 if tier == "quick" else 15000
        cases = []
        for i in range(n):
            t = T.gen_table(rng, odd=True)
            # give NaN-only float columns a chance (missing flavours)
            if rng.random() < 0.1:
                for c in t["cols"]:
                    if c["kind"] == "float":
                        c["values"] = [{"f": "nan"} for _ in c["values"]]
            mut = MUTATIONS[i % len(MUTATIONS)]
            if mut == "row_add_missing":
                # the same table with one or two extra rows at the end in which every cell is missing
                t = T.gen_table(rng, odd=True, kinds=["float", "datetime", "float"], max_rows=3)
                b = copy.deepcopy(t)
                for c in b["cols"]:
                    c["values"] += [{"f": "nan"} if c["kind"] == "float" else {"nat": 1}] * (1 + i % 2)
                cases.append({"a": t, "b": b, "mut": mut})
                continue
            if mut == "missing_respell":
                # the same empty cell spelled None in one table and NaN / NaT in the other (text columns are object arrays)
                tc = [c for c in t["cols"] if c["kind"] == "text" and len(c["values"]) >= 2]
                while not tc:
                    t = T.gen_table(rng, odd=True, kinds=["text", "float", "text"], max_rows=4)
                    tc = [c for c in t["cols"] if c["kind"] == "text" and len(c["values"]) >= 2]
                b = copy.deepcopy(t)
                for c, cb in zip(t["cols"], b["cols"]):
                    if c["kind"] == "text" and len(c["values"]) >= 2:     # a string stays: the column remains an object array
                        k = rng.randrange(len(c["values"]))
                        c["values"][k] = None
                        cb["values"][k] = rng.choice([{"f": "nan"}, {"nat": 1}, None])
                cases.append({"a": t, "b": b, "mut": mut})
            elif mut == "unrelated":
                cases.append({"a": t, "b": T.gen_table(rng), "mut": mut})
            elif mut == "nontable":
                cases.append({"a": t, "b": None, "mut": mut, "other": rng.choice(["dict", "df", "none", "str"])})
            else:
                cases.append({"a": t, "b": mutate(rng, t, mut), "mut": mut})
        return cases

    def run_impl(self, case):
        import pandas as pd
        from pdtable import TableOrigin

        a = T.build_table(case["a"])
        if case["b"] is None:
            other = {"dict": case["a"], "df": pd.DataFrame(a.df), "none": None, "str": "t"}[case["other"]]
            return {"ab": bool(a.equals(other)), "nontable": True}
        kw = {"origin": "elsewhere"} if case["mut"] == "origin" else {}
        b = T.build_table(case["b"], **kw)
        return {"ab": bool(a.equals(b)), "ba": bool(b.equals(a)), "aa": bool(a.equals(a)), "bb": bool(b.equals(b))}

    def expected(self, case):
        ta = T.spec_tokens(case["a"], bool_as_num=True)
        tb = T.spec_tokens(case["b"], bool_as_num=True)
        return T.same_table(ta, tb, flag=False)

    def oracle(self, case, obs):
        fails = []
        if obs.get("nontable"):
            if obs["ab"]:
                fails.append("nontable: equals(non-table) returned True")
            return fails
        if "ab" not in obs:
            return fails
        exp = self.expected(case)
        if obs["ab"] != exp:
            fails.append(f"iff-{'missed-difference' if obs['ab'] else 'false-negative'}: equals={obs['ab']} but tables are "
                         f"{'equal' if exp else 'different'} (mutation {case['mut']})")
        if obs["ab"] != obs["ba"]:
            fails.append("symmetry: a.equals(b) != b.equals(a)")
        if not obs["aa"] or not obs["bb"]:
            fails.append("reflexivity: t.equals(t) is False")
        return fails

    def to_coq(self, case, obs):
        if case["b"] is None or "ab" not in obs:
            return None
        return g_pair(g_pair(g_pair(g_table(case["a"]), g_table(case["b"])), g_bool(obs["ab"])), g_bool(obs["ba"]))

    def nontrivial(self, case, obs):
        return bool(case["a"]["cols"])

    def kind(self, case, obs):
        return case["mut"]

    def shrink(self, case):
        a, b = case["a"], case["b"]
        if b is None:
            return
        na = len(a["cols"][0]["values"]) if a["cols"] else 0
        nb = len(b["cols"][0]["values"]) if b["cols"] else 0
        # drop a common leading row
        if na > 0 and nb > 0:
            a2, b2 = copy.deepcopy(a), copy.deepcopy(b)
            for c in a2["cols"]:
                c["values"].pop(0)
            for c in b2["cols"]:
                c["values"].pop(0)
            yield {**case, "a": a2, "b": b2}
        # drop a common column (same position)
        for j in range(min(len(a["cols"]), len(b["cols"]))):
            if len(a["cols"]) > 1 and len(b["cols"]) > 1:
                a2, b2 = copy.deepcopy(a), copy.deepcopy(b)
                a2["cols"].pop(j)
                b2["cols"].pop(j)
                yield {**case, "a": a2, "b": b2}

    def py_sweeps(self, tier):
        import numpy as np
        import pandas as pd
        from pdtable.proxy import _equal_or_same

        pool = [0, 1, -1, 10, 10.0, 0.0, -0.0, 1.5, float("nan"), np.nan, np.float64(1.5), np.int64(10), np.float64("nan"),
                float("inf"), -float("inf"), 2**53, float(2**53), True, False, np.bool_(True), "", "a", "1", "nan", "10",
                None, pd.NaT, pd.Timestamp("2020-01-01"), pd.Timestamp("2020-01-01 00:00:00.000001"), pd.Timestamp("1999-01-01")]
        bad = []
        for x in pool:
            for y in pool:
                try:
                    got = bool(_equal_or_same(x, y))
                except Exception as e:
                    got = f"{type(e).__name__}"
                if got != (T.tok(x, True) == T.tok(y, True)):
                    bad.append((repr(x), repr(y), got))
        fails = [f"H_eqv fails on {len(bad)} scalar pairs, e.g. {bad[0]}"] if bad else []
        return fails, {"h_eqv_pairs": len(pool) ** 2}


PROP = C14()
