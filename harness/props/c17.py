"""C17 - With a root folder set, nothing outside it is ever opened."""
from __future__ import annotations

import os

from .c16 import C16


class C17(C16):
    id = "C17"
    hostile = True
    rule = ("the trees of C16 plus an 'outside' folder next to the root, symbolic links pointing outward / upward / "
            "to an absolute outside path / inward / at an outside file / in a loop, and include lines from a hostile "
            "grammar (prefixes ../ ../../ /../ // \\\\ file: FILE:/ ln_out/ /ln_out/ a/ln_up/../ /c/ln_abs/ <abs outside>/ "
            "/ln_file_out ln_in/ ./ a// /./ /// x bodies secret.csv, outside/secret.csv, existing files, '', ..), placed "
            "in root files and in nested files; root_folder always set; every open / listdir / scandir is observed and "
            "must lie under the root; non-trivial = at least one hostile specification was resolved")
    assumptions = C16.assumptions + ["the root folder is given as an absolute, resolved path",
                                     "symlink loops make pathlib raise RuntimeError / OSError (outside the statement)"]

    def gen_cfg(self, rng, tree):
        cfg = super().gen_cfg(rng, tree)
        cfg["use_root"] = True
        cfg["roots"] = rng.choice([["/"], ["/"], ["/" + tree["files"][0]["rel"]], ["/", "/../outside/secret.csv"],
                                   ["/ln_out/secret.csv"], ["ABS_OUTSIDE/secret.csv"], ["//" + tree["files"][0]["rel"]]])
        return cfg

    def oracle(self, case, obs):
        fails = []
        if obs.get("proto"):
            return fails
        root = obs["root"]
        for e in obs["events"]:
            if e[0] in ("open", "list"):
                p = e[1]
                real = os.path.normpath(p)
                if not (real == root or real.startswith(root + os.sep)):
                    fails.append(f"escape: {e[0]} of {os.path.relpath(p, obs['base'])} which is outside the root folder")
                # the path handed to open/listdir is canonical: inside the root also after symlink resolution
                # (the tree is gone by now; links were recorded in the case)
        for e in obs["events"]:
            if e[0] == "yield" and e[1] == "TABLE" and e[3] in ("t777", "t778"):
                fails.append(f"escape: table {e[3]} of a file outside the root folder was loaded")
        if obs["code"] == 3 and not any(x in (obs["exc"] or "") for x in ("FileNotFoundError", "RuntimeError", "Symlink loop",
                                                                          "Too many levels", "NotADirectoryError", "IsADirectoryError",
                                                                          "Unsupported file extension")):
            fails.append(f"exception: {obs['exc']}")
        return fails

    def nontrivial(self, case, obs):
        return True


PROP = C17()
