"""C17 - With a root folder set, nothing outside it is ever opened."""
from __future__ import annotations

import os

from .c16 import C16


class C17(C16):
    id = "C17"
    hostile = True
    rule = ("the trees of C16 plus an 'outside' folder next to the root, symbolic links pointing outward / upward / "
            "to an absolute outside path / inward / at an outside file / in a loop, and include lines from a hostile "
            "grammar (prefixes ../ ../../ /../ // \\\\ file: FILE:/ ln_out/ /ln_out/ a/ln_up/../ /c/ln_abs/ <abs outside>/ "
            "/ln_file_out ln_in/ ./ a// /./ /// x bodies secret.csv, outside/secret.csv, existing files, '', ..), placed "
            "in root files and in nested files; root_folder always set; every open / listdir / scandir is observed and "
            "must lie under the root; plus the directed matrix of every escape route x placement; non-trivial = the tree holds a "
            "symbolic link or some specification contains '..', a link name, an absolute outside path, '//', a backslash or "
            "a file: prefix")
    assumptions = C16.assumptions + ["the root folder is given as an absolute, resolved path",
                                     "symlink loops make pathlib raise RuntimeError / OSError (outside the statement)"]

    def gen_cfg(self, rng, tree):
        cfg = super().gen_cfg(rng, tree)
        cfg["use_root"] = True
        cfg["roots"] = rng.choice([["/"], ["/"], ["/" + tree["files"][0]["rel"]], ["/", "/../outside/secret.csv"],
                                   ["/ln_out/secret.csv"], ["ABS_OUTSIDE/secret.csv"], ["//" + tree["files"][0]["rel"]]])
        return cfg

    def directed(self):
        """Every escape route x every placement (root item, include in a root file, include in a nested file, an
        entry met while listing a folder)."""
        out = []
        t = lambda n: {"k": "table", "n": n, "pad": 0}
        links = [["ln_out", "../outside"], ["alias.csv", "../outside/secret.csv"], ["a/alias2.csv", "../../outside/secret.csv"],
                 ["c/ln_abs", "ABS_OUTSIDE"], ["a/ln_sib", "../../root_x"]]
        # (specification as written from the root folder, from folder a)
        escapes = [("ln_out/secret.csv", "../ln_out/secret.csv"), ("alias.csv", "alias2.csv"), ("a/alias2.csv", "../alias.csv"),
                   ("c/ln_abs/s2.csv", "../c/ln_abs/s2.csv"), ("../root_x/secret.csv", "../../root_x/secret.csv"),
                   ("a/ln_sib/secret.csv", "ln_sib/secret.csv"), ("../outside/secret.csv", "../../outside/secret.csv"),
                   ("ln_out", "../ln_out"), ("a/ln_sib", "ln_sib"), ("ABS_OUTSIDE/s2.csv", "ABS_OUTSIDE/s2.csv"),
                   ("a/../../root_x/secret.csv", "./../../root_x/secret.csv"),
                   ("../ROOT/secret.csv", "../../ROOT/secret.csv"), ("../ROOT", "../../ROOT"),
                   # a root-anchored specification whose remainder is itself an absolute path
                   ("/ABS_OUTSIDE/s2.csv", "/ABS_OUTSIDE/s2.csv"), ("file:/ABS_OUTSIDE/s2.csv", "FILE:\\ABS_OUTSIDE/s2.csv"),
                   ("\\ABS_OUTSIDE/s2.csv", "/ABS_OUTSIDE"), ("..", "../.."), ("a/../..", "../../"),]
        for from_root, from_a in escapes:
            for place in ("root-item", "root-item-abs", "root-file", "nested-file"):
                files = [{"rel": "f1.csv", "blocks": [t(1)]}, {"rel": "a/f2.csv", "blocks": [t(2)]}]
                roots = ["/f1.csv"]
                if place == "root-item-abs":
                    # the root item written as the root folder's own absolute path followed by the escape
                    if from_root.startswith(("ABS", "/", "file:", "\\")):
                        continue
                    roots = ["ROOT/" + from_root]
                elif place == "root-item":
                    roots = [from_root if from_root.startswith(("ABS", "/", "file:", "\\")) else "/" + from_root]
                elif place == "root-file":
                    files[0]["blocks"].append({"k": "include", "lines": [from_root]})
                else:
                    files[0]["blocks"].append({"k": "include", "lines": ["a/f2.csv"]})
                    files[1]["blocks"].append({"k": "include", "lines": [from_a]})
                for raising in (False, True):
                    out.append({"tree": {"folders": ["", "a", "c"], "links": links, "files": files},
                                "cfg": {"use_root": True, "roots": roots, "raising": raising, "allow_include": True,
                                        "start_pattern": None}})
        # a root folder whose name has a dot in it (it is a folder all the same): the ordinary and the escaping routes
        for roots, inc in ((["/"], None), (["/f1.csv"], "../outside/secret.csv"), (["/../outside/secret.csv"], None), (["/f1.csv"], "a/f2.csv")):
            files = [{"rel": "f1.csv", "blocks": [t(1)] + ([{"k": "include", "lines": [inc]}] if inc else [])},
                     {"rel": "a/f2.csv", "blocks": [t(2)]}]
            out.append({"tree": {"folders": ["", "a"], "links": [], "files": files, "root_name": "inputs.v2"},
                        "cfg": {"use_root": True, "roots": roots, "raising": False, "allow_include": True, "start_pattern": None}})
        # folders whose listing meets an outward link
        for spec in ("/", "/a"):
            out.append({"tree": {"folders": ["", "a", "c"], "links": links, "files": [{"rel": "f1.csv", "blocks": [t(1)]}]},
                        "cfg": {"use_root": True, "roots": [spec], "raising": False, "allow_include": True, "start_pattern": None}})
        return out

    def oracle(self, case, obs):
        fails = []
        if obs.get("proto"):
            return fails
        root = obs["root"]
        for e in obs["events"]:
            if e[0] in ("open", "list"):
                p = e[1]
                real = obs.get("real", {}).get(p) or os.path.normpath(p)     # symbolic links followed
                if not (real == root or real.startswith(root + os.sep)):
                    fails.append(f"escape: {e[0]} of {os.path.relpath(p, obs['base'])} which is outside the root folder")
                # the path handed to open/listdir is canonical: inside the root also after symlink resolution
                # (the tree is gone by now; links were recorded in the case)
        for e in obs["events"]:
            if e[0] == "yield" and e[1] == "TABLE" and e[3] in ("t777", "t778", "t779", "t780"):
                fails.append(f"escape: table {e[3]} of a file outside the root folder was loaded")
        if obs["code"] == 3 and not any(x in (obs["exc"] or "") for x in ("FileNotFoundError", "RuntimeError", "Symlink loop",
                                                                          "Too many levels", "NotADirectoryError", "IsADirectoryError",
                                                                          "Unsupported file extension")):
            fails.append(f"exception: {obs['exc']}")
        return fails

    HOSTILE = ("..", "ln_", "alias", "ABS_OUTSIDE", "//", "\\", "file:", "FILE:", "root_x", "ROOT")

    def nontrivial(self, case, obs):
        specs = list(case["cfg"]["roots"]) if case.get("cfg") else []
        for f in case["tree"]["files"]:
            for b in f["blocks"]:
                if b["k"] == "include":
                    specs += b["lines"]
        return any(m in sp for sp in specs for m in self.HOSTILE) or bool(case["tree"]["links"])


PROP = C17()
