"""C07 - The three output forms of a reader describe the same blocks."""
from __future__ import annotations

import random

from .. import readsys as R
from .. import sheets as S
from ..driver import Prop


class CountingRows:
    def __init__(self, rows):
        self.rows, self.consumed = rows, 0

    def __iter__(self):
        for r in self.rows:
            self.consumed += 1
            yield r


class C07(Prop):
    id = "C07"
    coq_header = "From PdV.Corr Require Import C07."
    coq_check = "check7"
    coq_case_type = "case7"
    rule = ("well-formed multi-block sheets (tables of every column kind and both orientations interleaved with "
            "metadata, directives, template rows and comments; text and native cells) read in the three output forms "
            "through parse_blocks (and read_csv for text sheets); jsondata compared with table_to_json_data of the "
            "pdtable table including exact leaf types; unknown form with a consumption-counting row iterator; "
            "non-trivial = at least one table with data rows; distinct = distinct sheets")
    assumptions = ["H_tolist: numpy tolist() and list(Series) render the same python scalars for the column kinds generated"]

    def generate(self, rng, tier):
        n = 500 if tier == "quick" else 6000
        cases = []
        for i in range(n):
            native = rng.random() < 0.4
            rows, blocks = S.gen_sheet(rng, native=native, max_tables=3)
            cases.append({"rows": rows, "native": native, "unknown": rng.choice(["json", "Pdtable", "", "table", None])
                          if i % 10 == 0 else None})
        return cases

    def corpus(self):
        mk = lambda vals: {"rows": [["**t"], ["all"], ["a", "b"], ["datetime", "-"]] + [[v, "1"] for v in vals],
                           "native": False, "unknown": None}
        return [{"rows": [["**t"], ["all"], ["a", "b", "c", "d"], ["datetime", "onoff", "-", "text"],
                          ["2020-01-02 03:04:05.123456", "1", "nan", "x"], ["-", "0", "1.5", ""]], "native": False, "unknown": None},
                # timestamps with a UTC offset, in UTC, with nanoseconds: whatever the table keeps of them, both forms agree
                mk(["2021-06-01 12:00:00+02:00", "2021-06-02 08:30:00+02:00"]), mk(["2021-06-01T12:00:00Z", "-"]),
                mk(["2021-03-04 05:06:07.123456789", "2021-03-04 05:06:07"]), mk(["2021-06-01 12:00:00-05:30"]),
                {"rows": [["**t*"], ["all"], ["a", "datetime", "2021-06-01 12:00:00+02:00", "2021-06-02 08:30:00.5+02:00"],
                          ["b", "text", "x", "y"]], "native": False, "unknown": None}]

    def _rcase(self, case, form):
        return {"rows": case["rows"], "form": form, "raising": True, "fixer": "strict", "filter": None,
                "want_tjson": form == "pdtable"}

    def run_impl(self, case):
        import json
        import warnings

        from pdtable.io.parsers.blocks import parse_blocks
        from pdtable.io.json import table_to_json_data
        from .. import cells as C

        obs = {f: R.run_reader(self._rcase(case, f)) for f in ("pdtable", "jsondata", "cellgrid")}
        # jsondata of the reader vs table_to_json_data(pdtable table), deep equality incl. exact types
        rows_py = C.rows_to_py(case["rows"])
        with warnings.catch_warnings():
            warnings.simplefilter("ignore")
            try:
                pd_blocks = list(parse_blocks(rows_py, to="pdtable"))
                js_blocks = list(parse_blocks(rows_py, to="jsondata"))
                cmp_ = []
                for (bt, b), (bt2, j) in zip(pd_blocks, js_blocks):
                    if bt.name == "TABLE":
                        tj = table_to_json_data(b)

                        def typed(x):
                            if isinstance(x, dict):
                                return {k: typed(v) for k, v in x.items()}
                            if isinstance(x, list):
                                return [typed(v) for v in x]
                            return [type(x).__name__, None if x != x else x]

                        cmp_.append(typed(tj) == typed(j))
                    else:
                        cmp_.append(None)
                obs["json_equal"] = cmp_
            except Exception as e:
                obs["json_equal"] = f"{type(e).__name__}: {e}"[:200]
            # the same three reads with the form given positionally, and with the three readers alive at the same time
            # (consumed in lockstep): each must deliver what it delivers on its own
            def shape(blocks):
                return [[bt.name, "table" if hasattr(b, "df") else ("json" if isinstance(b, dict) and "columns" in b else
                                                                  ("grid" if isinstance(b, list) else type(b).__name__))]
                        for bt, b in blocks]
            try:
                alone = {f: shape(parse_blocks(rows_py, to=f)) for f in ("pdtable", "jsondata", "cellgrid")}
                obs["positional_ok"] = all(shape(parse_blocks(rows_py, None, f)) == alone[f] for f in alone)
                readers = [parse_blocks(rows_py, to=f) for f in ("pdtable", "jsondata", "cellgrid")]
                triples = list(zip(*readers))
                obs["lockstep_ok"] = all([list(x) for x in zip(*[shape([b]) for b in tr])] is not None and
                                         [shape([tr[i]])[0] for i in range(3)] == [alone[f][k] for i, f in enumerate(("pdtable", "jsondata", "cellgrid"))]
                                         for k, tr in enumerate(triples)) and len(triples) == len(alone["pdtable"])
            except Exception as e:
                obs["routes_exc"] = f"{type(e).__name__}: {e}"[:200]
            if case.get("unknown", None) is not None or case.get("unknown") == "":
                it = CountingRows(rows_py)
                flt = [None, (lambda bt, name: True), (lambda bt, name: False), (lambda bt, name: bt.name != "TABLE")][len(rows_py) % 4]
                try:
                    list(parse_blocks(it, to=case["unknown"], filter=flt))
                    obs["unknown"] = ["accepted", it.consumed]
                except ValueError:
                    obs["unknown"] = ["ValueError", it.consumed]
                except Exception as e:
                    obs["unknown"] = [type(e).__name__, it.consumed]
        return obs

    def oracle(self, case, obs):
        fails = []
        pdo, jso, gro = obs["pdtable"], obs["jsondata"], obs["cellgrid"]
        if pdo["final"][0] != 0:
            return []  # the statement is about inputs that read successfully as pdtable
        for name, o in (("jsondata", jso), ("cellgrid", gro)):
            if o["final"][0] != 0:
                fails.append(f"{name}-fails: reads as pdtable but {name} gives {o['final'][2][:100] if len(o['final']) > 2 else o['final']}")
                return fails
            if [e["t"] for e in o["events"]] != [e["t"] for e in pdo["events"]]:
                fails.append(f"types-{name}: block type sequence differs from pdtable")
                return fails
        rows = case["rows"]
        for ep, ej, eg in zip(pdo["events"], jso["events"], gro["events"]):
            if ep["t"] == "TABLE":
                # cellgrid: exactly the raw rows of the block (contiguous from the origin row)
                idx = eg["idx"]
                if idx != list(range(ep["origin"], ep["origin"] + len(idx))):
                    fails.append("cellgrid-rows: cell grid is not the contiguous rows of the block")
                else:
                    nxt = ep["origin"] + len(idx)
                    from .c03 import ref_kind
                    from .. import cells as C

                    if nxt < len(rows) and ref_kind(C.rows_to_py([rows[nxt]])[0]) == "plain":
                        fails.append("cellgrid-rows: cell grid stops before the end of the block")
                if ej.get("k") != "json":
                    fails.append("jsondata-kind: not a JSON table")
                elif any(l[0] in ("impure", "nanfloat") for _, _, vals in ej["cols"] for l in vals):
                    fails.append("jsondata-pure: non-JSON leaf in jsondata")
            else:
                a, b, c = dict(ep), dict(ej), dict(eg)
                if not (a == b == c):
                    fails.append(f"nontable: {ep['t']} block differs between forms")
        for ep in pdo["events"]:
            if ep.get("k") == "table" and (ep.get("tjson") or {}).get("k") == "raised":
                fails.append(f"table_to_json_data: raised {ep['tjson']['exc']} on a table the reader delivered")
        if obs.get("positional_ok") is False:
            fails.append("positional: parse_blocks(rows, None, form) delivers other blocks than parse_blocks(rows, to=form)")
        if obs.get("lockstep_ok") is False:
            fails.append("lockstep: three readers of different forms consumed side by side deliver other blocks than each on its own")
        if "routes_exc" in obs and pdo["final"][0] == 0:
            fails.append(f"routes: positional / side-by-side reading raised {obs['routes_exc']}")
        je = obs.get("json_equal")
        if isinstance(je, str):
            fails.append(f"json-equal: comparison raised {je}")
        elif je is not None and any(x is False for x in je):
            fails.append("json-equal: jsondata table differs from table_to_json_data(pdtable table)")
        if "unknown" in obs:
            if obs["unknown"][0] != "ValueError":
                fails.append(f"unknown-form: {obs['unknown'][0]} instead of ValueError")
            elif obs["unknown"][1] != 0:
                fails.append(f"unknown-form: {obs['unknown'][1]} rows were consumed before the rejection")
        return fails

    def to_coq(self, case, obs):
        return None

    def multi_coq(self, case, obs):
        out = []
        for f in ("pdtable", "jsondata", "cellgrid"):
            base = R.case_to_coq(self._rcase(case, f), obs[f])
            if base is None:
                out.append(None)
                continue
            tj = []
            if f == "pdtable":
                for e in obs[f]["events"]:
                    if e.get("k") == "table":
                        j = e.get("tjson") or {"k": "raised"}
                        # a refused conversion is encoded as a table no model output equals
                        tj.append(R.g_event(dict(j, t="TABLE", origin=None), None).split(" ", 3)[3] if j.get("k") == "json"
                                  else "(OGrid [999%nat])")
            out.append(f"(mk7 {base} {R.g_list(tj)})")
        return out

    def nontrivial(self, case, obs):
        return any(e.get("k") == "table" and e["nrows"] > 0 for e in obs["pdtable"]["events"])

    def kind(self, case, obs):
        return "native" if case["native"] else "text"


PROP = C07()
