"""C03 - Rows are split into blocks by first-cell markers: in order, none lost."""
from __future__ import annotations

import itertools
import random

from .. import core
from ..cells import rows_to_py, rows_to_coq
from ..core import g_list, g_nat, g_pair
from ..driver import Prop

TCODE = {"DIRECTIVE": 1, "TABLE": 2, "TEMPLATE_ROW": 3, "METADATA": 4, "BLANK": 5}
MOD = 2305843009213693951


def digest(codes):
    h = 0
    for x in codes:
        h = (h * 1000003 + x + 1) % MOD
    return h


# ---- independent reference reading of the statement (no regex) ------------------------------
def ref_mark(s: str) -> str:
    n = len(s) - len(s.lstrip("*"))
    if n == 2:
        return "table"
    if n == 3:
        return "directive"
    k = len(s) - len(s.lstrip(":"))
    if 1 <= k <= 3 and ":" not in s[k:]:
        return "template"
    j = s.find(":")
    if j >= 1 and s[j + 1 :].strip() == "":
        return "key"
    return "plain"


def ref_kind(row) -> str:
    if row is None or len(row) == 0:
        return "blank0"
    c = row[0]
    if c is None or (isinstance(c, str) and not c.strip()):
        return "blank0" if len(row) == 1 else "blankP"
    if isinstance(c, str):
        return ref_mark(c)
    return "plain"


SPELL = {
    "blank0": [[], [""], [" "], [None], ["\u2003"], ["\t"], ["\u00a0 "]],
    "blankP": [["", "x"], [None, "y", ""], [" ", ""], ["", None], ["\t", "**t"], ["", "a:"]],
    "table": [["**t"], ["**t*", ""], ["**"], ["** x"], ["**t:"], ["**a", "b", "c"], ["**\u00e6"]],
    "directive": [["***d"], ["***"], ["***d:", "x"], ["*** include"], ["***d", "", ""]],
    "template": [[":c"], ["::t"], [":::f x"], [":"], [":a\n"], ["::"], [":::", "u"]],
    "key": [["a:"], ["a: "], ["key:\t", "v"], ["a:\u00a0"], ["****:"], [" a:"], ["a b:", "v", "w"], ["*:"]],
    "plain": [["x"], ["a:b"], [":a:"], ["::::x"], ["****"], ["a: b"], ["*x"], ["* *"], ["1"], ["-"],
              ["a::"], [":a: "], ["x", "", ""], ["*****"], ["a:\n:"]],
    "native": [[{"i": 1}], [{"f": "0x1.8p+0"}, "x"], [{"b": True}], [{"d": "2020-01-02T03:04:05"}],
               [{"o": "date"}], [{"i": 0}, None], [{"b": False}, ""],
               # native missing values are values, not blank cells: such a row continues its block
               [{"f": "nan"}, "x"], [{"nat": 1}], [{"f": "nan"}]],
}
KINDS = list(SPELL)
ALPHA = "*:a \n"


def gen_row(rng: random.Random):
    r = rng.random()
    if r < 0.8:
        k = rng.choice(KINDS)
        row = list(rng.choice(SPELL[k]))
    else:
        n = rng.randint(0, 6)
        row = ["".join(rng.choice(ALPHA + "\tb1-") for _ in range(n))]
    if rng.random() < 0.3:
        row = row + [rng.choice(["", "v", None, {"i": 3}, " "]) for _ in range(rng.randint(1, 3))]
    return row


class C03(Prop):
    id = "C03"
    coq_header = "From PdV.Corr Require Import C03."
    rule = (
        "rows drawn from 8 first-cell kinds with varied spellings (markers, near-misses, unicode blanks, "
        "native cells) plus random strings over '*:a \\n\\tb1-'; non-trivial = at least 2 blocks emitted; "
        "distinct = distinct row sequences"
    )
    assumptions = [
        "H_regex: classify = _re_block_marker dispatch (exhaustive over strings of length <= 7 (quick) / 9 (thorough) over {* : a space LF}, observed through parse_blocks_stable)",
        "H_isspace: the 29-entry whitespace table equals str.isspace on all 0x110000 code points",
    ]

    def corpus(self):
        return [
            {"rows": [["a:", "x"], [], ["**t"], ["x"], ["***d"], [":c"], ["", "c"], ["b:"]]},
            {"rows": [["**t"], ["all"], ["b:"], ["x"], [""], ["y"], ["", "z"], ["w"]]},
            {"rows": [[""], ["x"], ["a:"], ["b:"]]},
            {"rows": [["x"], ["a:"], ["**t*"], ["a:"], ["a:"]]},
            {"rows": []},
            {"rows": [[], [], [None, "p"], ["q"]]},
        ]

    def generate(self, rng, tier):
        n = self.n_quick if tier == "quick" else self.n_thorough
        cases = []
        for _ in range(n):
            ln = rng.choice([1, 2, 3, 4, 5, 8, 12, 20, 40, 60]) if rng.random() < 0.9 else rng.randint(0, 80)
            cases.append({"rows": [gen_row(rng) for _ in range(ln)]})
        if tier == "thorough":
            # exhaustive over kind sequences of length <= 5 with the first spelling of each kind
            for ln in range(0, 6):
                for ks in itertools.product(KINDS, repeat=ln):
                    cases.append({"rows": [list(SPELL[k][0]) for k in ks]})
        return cases

    # ---- implementation ----
    def _blocks(self, rows_py, only=None):
        from pdtable import BlockType
        from pdtable.io.parsers.blocks import parse_blocks_stable

        def mk(bt):
            return lambda grid, origin=None, fixer=None: (list(grid), origin.input_location.row)

        handlers = {bt: mk(bt) for bt in BlockType if only is None or bt.name in only}
        ids = {id(r): i for i, r in enumerate(rows_py)}
        out = []
        for bt, (grid, orow) in parse_blocks_stable(rows_py, block_handlers=handlers):
            out.append([bt.name, orow, [ids[id(r)] for r in grid]])
        return out

    def run_impl(self, case):
        rows_py = rows_to_py(case["rows"])
        obs = {}
        try:
            obs["blocks"] = self._blocks(rows_py)
        except Exception as e:
            obs["exception"] = f"{type(e).__name__}: {e}"
            return obs
        # the splitting does not depend on which block types the caller handles: with handlers for some types only,
        # exactly the blocks of those types come out, unchanged
        for only in (("TABLE", "DIRECTIVE", "METADATA"), ("TABLE",), ("TABLE", "BLANK")):
            try:
                obs.setdefault("partial", {})[",".join(only)] = self._blocks(rows_py, only=only)
            except Exception as e:
                obs.setdefault("partial", {})[",".join(only)] = f"{type(e).__name__}"
        # prefix runs for the prefix-stability clause
        n = len(rows_py)
        ks = sorted({0, n // 3, n // 2, max(n - 1, 0)})
        obs["prefix"] = {}
        for k in ks:
            try:
                obs["prefix"][str(k)] = self._blocks(rows_py[:k])
            except Exception as e:
                obs["prefix"][str(k)] = f"{type(e).__name__}"
        # dependence on first cells only: same first cells, payloads replaced
        alt = [([r[0]] + (["P"] if len(r) > 1 else [])) if len(r) > 0 else [] for r in rows_py]
        try:
            b2 = self._blocks([list(a) for a in alt])
            obs["alt_shape"] = [[t, o, idx] for t, o, idx in b2]
        except Exception as e:
            obs["alt_shape"] = f"{type(e).__name__}"
        return obs

    def oracle(self, case, obs):
        if "exception" in obs:
            return [f"exception: {obs['exception']}"]
        rows = rows_to_py(case["rows"])
        kinds = [ref_kind(r) for r in rows]
        blocks = obs["blocks"]
        fails = []
        for only, got in (obs.get("partial") or {}).items():
            want = [b for b in obs.get("blocks", []) if b[0] in only.split(",")]
            if got != want:
                fails.append(f"handlers: with handlers for {only} only, the delivered blocks differ from those of a full handler table")
        flat = [i for _, _, idx in blocks for i in idx]
        if any(b <= a for a, b in zip(flat, flat[1:])):
            fails.append("order: rows not in input order / repeated")
        nonblank = [i for i, k in enumerate(kinds) if k not in ("blank0", "blankP")]
        if [i for i in flat if i in set(nonblank)] != nonblank:
            fails.append("lost-row: a row with non-blank first cell is not in exactly one block")
        origins = [o for _, o, _ in blocks]
        if any(b < a for a, b in zip(origins, origins[1:])):
            fails.append("block-order: origins decrease")
        for t, o, idx in blocks:
            if not idx:
                fails.append("empty-block: emitted block without rows")
                continue
            if not (0 <= o < len(rows)):
                fails.append("origin: out of range")
                continue
            k0 = kinds[o]
            want = {"TABLE": {"table"}, "DIRECTIVE": {"directive"}, "TEMPLATE_ROW": {"template"},
                    "METADATA": {"key", "plain"}, "BLANK": {"blank0", "blankP", "key"}}[t]
            if k0 not in want:
                fails.append(f"type: block {t} at row {o} whose first cell is of kind {k0}")
            if t == "METADATA" and o != 0:
                fails.append("type: METADATA block not at the top")
            if idx[0] != o and not (t == "BLANK" and k0 == "blank0" and idx[0] > o):
                fails.append(f"origin: block {t} origin {o} but first row {idx[0]}")
            for a, b in zip(idx, idx[1:]):
                if b != a + 1 and not (t == "BLANK" and all(kinds[j] in ("blank0", "blankP") for j in range(a + 1, b))):
                    fails.append("contiguity: block skips rows")
            for j in idx[1:] if idx[0] == o else idx:
                if not (kinds[j] == "plain" or (kinds[j] == "key" and t == "METADATA")):
                    fails.append(f"continuation: row {j} of kind {kinds[j]} continues a {t} block")
        for k, pb in obs.get("prefix", {}).items():
            if isinstance(pb, str):
                fails.append(f"prefix: exception {pb} on prefix {k}")
            elif pb[:-1] != blocks[: max(len(pb) - 1, 0)]:
                fails.append(f"prefix: blocks of the first {k} rows minus the last are not a prefix")
        if obs.get("alt_shape") != [[t, o, idx] for t, o, idx in blocks]:
            fails.append("first-cells-only: segmentation changed when only payload cells changed")
        return fails

    def to_coq(self, case, obs):
        if "blocks" not in obs:
            return None
        bl = g_list(
            [g_pair(g_pair(str(TCODE[t]), g_nat(o)), g_list([g_nat(i) for i in idx])) for t, o, idx in obs["blocks"]]
        )
        return g_pair(rows_to_coq(case["rows"]), bl)

    def nontrivial(self, case, obs):
        return len(obs.get("blocks", [])) >= 2

    def kind(self, case, obs):
        return f"blocks={min(len(obs.get('blocks', [])), 6)}"

    def shrink(self, case):
        rows = case["rows"]
        for i in range(len(rows)):
            yield {"rows": rows[:i] + rows[i + 1 :]}
        for i, r in enumerate(rows):
            if len(r) > 1:
                yield {"rows": rows[:i] + [r[:1]] + rows[i + 1 :]}

    # ---- sweeps ----
    def _impl_kind_codes(self, strings):
        """Kind of the row [s] as parse_blocks_stable treats it, observed through block types."""
        from pdtable import BlockType
        from pdtable.io.parsers.blocks import parse_blocks_stable

        rows = []
        for s in strings:
            rows.append(["**t"])
            rows.append([s])
        handlers = {bt: (lambda grid, origin=None, fixer=None: (len(grid), origin.input_location.row)) for bt in BlockType}
        at = {}
        for bt, (ln, orow) in parse_blocks_stable(rows, block_handlers=handlers):
            at[orow] = (bt.name, ln)
        codes = []
        for j, s in enumerate(strings):
            b = at.get(2 * j + 1)
            if b is None:
                # either appended to the table block (plain) or dropped (blank without payload)
                codes.append(0 if at[2 * j][1] == 2 else 5)
            else:
                codes.append({"TABLE": 1, "DIRECTIVE": 2, "TEMPLATE_ROW": 3, "BLANK": 4}[b[0]])
        return codes

    def sweeps(self, tier, ev):
        alpha = "*:a \n"
        maxlen = 7 if tier == "quick" else 9
        handlers = []
        self._sweep_n = 0
        # per (prefix of length min(2, n)), one digest
        body = ["Definition alpha : list N := " + core.g_str(alpha) + "."]
        expected = []
        for n in range(0, maxlen + 1):
            pl = min(2, n)
            for pre in itertools.product(alpha, repeat=pl):
                strings = ["".join(pre) + "".join(t) for t in itertools.product(alpha, repeat=n - pl)]
                self._sweep_n += len(strings)
                expected.append((n, "".join(pre), digest(self._impl_kind_codes(strings))))
                body.append(
                    f"Eval vm_compute in (digest (map (fun s => row_kind_code [CStr ({core.g_str(''.join(pre))} ++ s)]) "
                    f"(strings_of_len alpha {n - pl}%nat)))."
                )
        ev.add("classify_sweep", self.coq_header, "\n".join(body))

        def h1(vals):
            fails = []
            if len(vals) != len(expected):
                return [f"classify sweep printed {len(vals)} values, expected {len(expected)}"]
            for v, (n, pre, d) in zip(vals, expected):
                if int(v.replace("%N", "")) != d:
                    fails.append(f"classify differs from the implementation on strings of length {n} with prefix {pre!r}")
            return fails[:3]

        handlers.append(("classify_sweep", h1))
        spaces = [c for c in range(0x110000) if chr(c).isspace()]
        ev.add(
            "isspace_sweep",
            self.coq_header,
            "Eval vm_compute in (list_eqb N.eqb (spaces_below 1114112) " + g_list([str(c) for c in spaces]) + ").",
        )
        handlers.append(("isspace_sweep", lambda vals: [] if vals == ["true"] else ["is_space table differs from str.isspace"]))
        return handlers

    def py_sweeps(self, tier):
        import re

        fails = []
        # \s of re on str patterns and strip() agree with isspace on every code point
        ws = re.compile(r"\s")
        bad = [c for c in range(0x110000) if bool(ws.fullmatch(chr(c))) != chr(c).isspace()]
        if bad:
            fails.append(f"re \\s differs from str.isspace on {len(bad)} code points")
        bad2 = [c for c in range(0x110000) if (chr(c).strip() == "") != chr(c).isspace()]
        if bad2:
            fails.append(f"str.strip differs from str.isspace on {len(bad2)} code points")
        return fails, {"classify_sweep_strings": getattr(self, "_sweep_n", 0), "isspace_sweep_codepoints": 0x110000}


PROP = C03()
