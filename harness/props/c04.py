"""C04 - Every column keeps exactly its own unit, whatever is done to the frame."""
from __future__ import annotations

import random

from .. import framesys as F
from ..driver import Prop


class C04(Prop):
    id = "C04"
    coq_header = "From PdV.Corr Require Import FrameC."
    rule = ("random tables (1-4 columns of float/int/text/bool/datetime, 0-4 rows, units given / defaulted / one wrong, "
            "strict and non-strict) followed by 1-8 operations from an alphabet of 25: facade add_column / setitem / unit "
            "setter / consult, direct dataframe set / insert / del / pop / rename-all / loc-append / restore, pandas copy / "
            "select+reorder / iloc / take / reindex / sort_index / astype / fillna / replace / assign / drop / reset_index / "
            "rename, and Table re-wrap; after every operation the register, the snapshot and the raised flag are compared "
            "with the model; after every successful consultation units are compared positionally and by name and through "
            "the CSV and JSON writers; non-trivial = at least one operation changed the column set or order")
    assumptions = [
        "H_pandas_result: the columns/dtypes a pandas operation produces are inputs of the model (observed, not predicted)",
        "the metadata of a pandas result is combined from a single source frame (multi-source results are C05)",
    ]
    type_changing = False
    n_quick, n_thorough = 1500, 20000

    def generate(self, rng, tier):
        n = self.n_quick if tier == "quick" else self.n_thorough
        return [F.gen_case(rng, max_ops=8 if tier == "quick" else 10, type_changing=self.type_changing) for _ in range(n)]

    def corpus(self):
        # a column looked up by name, deleted from the data frame, and created afresh under the same name: what
        # is said about the new column must not come from the old one (per-column lookup = positional list)
        reborn = [{"names": ["a", "b"], "kinds": ["float", k2], "nrows": 2, "units": ["m", u2], "strict": True, "vseed": 60 + i,
                   "ops": [{"op": "consult"}, {"op": "df_del", "pick": 0}, {"op": "consult"},
                           {"op": how, "col": "a", "kind": "float"}, {"op": "consult"},
                           {"op": "relabel", "pick": 1, "unit": "s"}, {"op": "consult"}]}
                  for i, (k2, u2, how) in enumerate([("float", "kg", "df_set"), ("text", "text", "df_set"), ("float", "kg", "setitem"),
                                                     ("bool", "onoff", "df_set")])]
        # a column labelled by a number next to the column labelled by the text that looks like it: every place that
        # pairs names with units (the register, the per-column lookup, the three writers) must keep the two apart
        lookalike = [{"names": ["1", "b"], "kinds": ["float", "text"], "nrows": 2, "units": ["s", "text"], "strict": True, "vseed": 70 + i,
                      "ops": [{"op": how, "col": 1, "kind": k, **({"unit": u} if how == "add_column" else {}),
                               **({"pos": pos} if how == "df_insert" else {})}, {"op": "consult"},
                              {"op": "relabel", "pick": pick, "unit": "kg"}, {"op": "consult"}]}
                     for i, (how, k, u, pos, pick) in enumerate([("add_column", "float", "m", 0, 0), ("df_insert", "float", None, 0, 1),
                                                                ("df_set", "bool", None, 0, 2), ("add_column", "text", "text", 0, 0),
                                                                ("df_insert", "int", None, 1, 0)])]
        return reborn + lookalike + [
            {"names": ["a", "b", "c"], "kinds": ["float", "text", "bool"], "nrows": 2, "units": ["m", "text", "onoff"],
             "strict": True, "vseed": 1, "ops": [{"op": "p_select", "perm": 5, "keep": 3}, {"op": "consult"}]},
            {"names": ["a", "b"], "kinds": ["float", "text"], "nrows": 2, "units": ["m", "text"], "strict": True, "vseed": 2,
             "ops": [{"op": "df_insert", "col": "new", "kind": "int", "pos": 0}, {"op": "consult"}, {"op": "p_reset_index"},
                     {"op": "consult"}]},
            {"names": ["a", "b"], "kinds": ["float", "text"], "nrows": 2, "units": ["m", "text"], "strict": True, "vseed": 3,
             "ops": [{"op": "df_del", "pick": 1}, {"op": "df_set", "col": "a", "kind": "text"}, {"op": "consult"},
                     {"op": "df_restore", "pick": 0}, {"op": "df_restore", "pick": 1}, {"op": "consult"}]},
            {"names": ["a"], "kinds": ["float"], "nrows": 0, "units": ["text"], "strict": True, "vseed": 4,
             "ops": [{"op": "consult"}, {"op": "df_loc_append", "foreign": False}, {"op": "consult"}]},
            {"names": ["a", "b"], "kinds": ["float", "float"], "nrows": 2, "units": ["m", "kg"], "strict": True, "vseed": 5,
             "ops": [{"op": "add_column", "col": "a", "kind": "float", "unit": "text"}, {"op": "consult"}]},
        ]

    def run_impl(self, case):
        h = F.History(case).build().run()
        self._last = h
        return {"init": h.init_obs, "init_state": h.init_state, "log": [[m, o] for m, o in h.log], "checks": h.checks}

    def oracle(self, case, obs):
        fails = []
        for rec in obs["checks"]:
            names, units = rec["names"], rec["units"]
            if len(units) != len(names):
                fails.append(f"one-unit-per-column: {len(units)} units for columns {names}")
                continue
            if "lenient_names" in rec and rec["lenient_names"] != rec["frame_names"]:
                fails.append(f"register-order: get_table_info(fail_if_missing=False) lists {rec['lenient_names']} for columns {rec['frame_names']}")
            if isinstance(rec["by_name"], str):
                fails.append(f"lookup: per-column lookup raised {rec['by_name']}")
            elif rec["by_name"] != units:
                fails.append(f"positional-vs-by-name: units {units} but per-column lookup {rec['by_name']} for {names}")
            if rec.get("format_fail"):
                fails.append("display-format: " + rec["format_fail"])
            if "writer_exc" in rec:
                fails.append(f"writer: {rec['writer_exc']}")
            else:
                if rec.get("csv") and (rec["csv"][0] != names or rec["csv"][1] != rec["by_name"]):
                    fails.append(f"csv-writer: wrote names {rec['csv'][0]} units {rec['csv'][1]}, per-column units {rec['by_name']}")
                if rec.get("json") and [u for _, u in rec["json"]] != rec["by_name"]:
                    fails.append("json-writer: units not paired with their columns")
            if self.id == "C15":
                for nme, u, k in zip(names, rec["by_name"] if not isinstance(rec["by_name"], str) else units, rec["dtypes"]):
                    if (u == "text") != (k in "OSU") or (u == "onoff") != (k == "b"):
                        fails.append(f"special-unit: column {nme!r} unit {u!r} over dtype kind {k!r}")
        for m, o in obs["log"]:
            if m[0] == "OFail":
                continue  # pandas itself refused the operation (also on a plain DataFrame)
            if o[0] and len(o) > 3 and o[3] not in ("ColumnUnitException", "ValueError", "InvalidNamingError",
                                                      "InvalidTableCombineError", "TypeError", "KeyError"):
                fails.append(f"exception-class: {m[0]} raised {o[3]}")
        return fails

    def to_coq(self, case, obs):
        h = getattr(self, "_last", None)
        if h is None or h.case is not case:
            h = F.History(case).build().run()
        return F.history_to_coq(case, h)

    def nontrivial(self, case, obs):
        return any(m[0] in ("OData", "OPandas", "OAdd") for m, _ in obs["log"])

    def kind(self, case, obs):
        return ("strict" if case["strict"] else "nonstrict") + ("-empty" if case["nrows"] == 0 else "")


PROP = C04()
