"""C09 - Excel write-then-read preserves tables across sheets, styles and spacing."""
from __future__ import annotations

import io
import os
import re
import tempfile
import warnings

from .. import cells as C
from .. import readsys as R
from .. import tables as T
from ..core import g_list, g_nat, g_opt, g_pair, g_str
from ..driver import Prop
from .c01 import g_wtable

SHEETS = ["Sheet1", "data", "in put", "Æ1", "x-2", "second", "Sheet"]      # "Sheet" is the title of openpyxl's own default sheet
CUSTOM_STYLE = {"table_name": {"font": {"bold": True}, "fill": {"color": "D9D9D9"}},
                "values": {"alignment": {"horizontal": "center"}}, "units": {"font": {"italic": True}}}


def excel_ok(spec):
    """Excel-representable (DESIGN section 3): non-blank XML-legal text not starting with '=', ..."""
    for j, c in enumerate(spec["cols"]):
        for v in c["values"]:
            if isinstance(v, str):
                if not v.strip() or v.startswith("=") or any(ord(ch) < 32 for ch in v) or v != v.strip():
                    return False
            if isinstance(v, dict) and "f" in v and v["f"] not in ("nan", "inf", "-inf"):
                x = float.fromhex(v["f"])
                if float(f"{x:.15g}") != x:
                    return False
            if isinstance(v, dict) and v.get("f") in ("inf", "-inf"):
                return False
    return True


class C09(Prop):
    id = "C09"
    coq_header = "From PdV.Corr Require Import C09."
    coq_case_type = "C09.case"
    coq_check = "C09.check"
    rule = ("mappings of 1-3 sheet names to 1-3 Excel-representable well-formed tables (all column kinds, NaN / NaT, "
            "whole-second datetimes, numbers to 15 significant digits, both orientations, zero rows) x styles in "
            "{False, True, custom} x sep_lines 1..3 x path / BytesIO x sheet-name pattern; the loaded cell grid of every "
            "sheet is compared with the worksheet model and the reader model is run on it; openpyxl backend; "
            "non-trivial = a table with data rows")
    assumptions = [
        "H_openpyxl_store: writing then loading a workbook returns representable cell values unchanged up to int/float "
        "identity of whole numbers, empty strings as empty cells, rows padded with None",
        "xlsxwriter backend is not installed and not covered",
    ]

    def generate(self, rng, tier):
        n = 220 if tier == "quick" else 2500
        out = []
        while len(out) < n:
            nsheets = rng.choice([1, 1, 2, 3])
            names = rng.sample(SHEETS, nsheets)
            sheets = []
            ok = True
            for s in names:
                tabs = [T.gen_table(rng, sep="\x00", bigint=False, odd=False, excel=True, empty_rate=0.05) for _ in range(rng.choice([1, 1, 2, 3]))]
                ok = ok and all(excel_ok(t) for t in tabs)
                for t in tabs:
                    if rng.random() < 0.2:
                        t["index"] = rng.choice(T.INDEX_KINDS)
                sheets.append([s, tabs])
            if not ok:
                continue
            out.append({"sheets": sheets, "styles": rng.choice(["none", "none", "default", "custom"]),
                        "sep_lines": rng.choice([1, 1, 2, 3]), "path": rng.random() < 0.3,
                        # [text, flags]: a compiled pattern keeps its flags ("^s" with IGNORECASE selects Sheet1, second, Sheet)
                        "pattern": rng.choice([None, None, ["^S", 0], ["^(data|second)$", 0], ["nomatch", 0], ["^s", re.IGNORECASE],
                                               ["^ s [a-z]+ $", re.IGNORECASE | re.VERBOSE]]),
                        # hand read_excel the very stream the workbook was written to, wherever its position is
                        "reuse_stream": rng.random() < 0.3,
                        "single": nsheets == 1 and rng.random() < 0.3})
        return out

    def run_impl(self, case):
        import openpyxl
        from pdtable import read_excel, write_excel

        sheets = case["sheets"]
        built = {s: [T.build_table(t) for t in tabs] for s, tabs in sheets}
        before = {s: [T.extract(t) for t in ts] for s, ts in built.items()}
        dests_order = {s: [list(t.metadata.destinations) for t in ts] for s, ts in built.items()}
        styles = {"none": False, "default": True, "custom": CUSTOM_STYLE}[case["styles"]]
        if case["single"]:
            arg = built[sheets[0][0]]
        else:
            # a sheet with a single table may be given as the bare Table instead of a list
            arg = {s: (ts[0] if len(ts) == 1 and len(s) % 2 == 1 else ts) for s, ts in built.items()}
        obs = {"dests_order": dests_order}
        tmp = None
        try:
            with warnings.catch_warnings():
                warnings.simplefilter("ignore")
                if case["path"]:
                    fd, tmp = tempfile.mkstemp(suffix=".xlsx", prefix="pdv_c09_")
                    os.close(fd)
                    write_excel(arg, tmp, styles=styles, sep_lines=case["sep_lines"])
                    src = lambda: tmp
                else:
                    buf = io.BytesIO()
                    write_excel(arg, buf, styles=styles, sep_lines=case["sep_lines"])
                    obs["stream_open"] = not buf.closed
                    data = buf.getvalue()
                    src = lambda: io.BytesIO(data)
                # the loaded grid per sheet
                wb = openpyxl.load_workbook(src(), read_only=True, data_only=True)
                grids = {}
                for ws in wb.worksheets:
                    grids[ws.title] = [[C.from_py(v) for v in row] for row in ws.iter_rows(values_only=True)]
                wb.close()
                obs["grids"] = grids
                pat = re.compile(*case["pattern"]) if case["pattern"] else None
                blocks = list(read_excel(buf if (case.get("reuse_stream") and not case["path"]) else src(), sheet_name_pattern=pat))
            evs = []
            for bt, b in blocks:
                o = R.observe_block(bt, b, {}, None)
                o["t"] = bt.name
                if hasattr(b, "metadata"):
                    loc = b.metadata.origin.input_location
                    o["origin"] = loc.row
                    o["sheet"] = loc.sheet_name
                evs.append(o)
            obs["events"] = evs
        except Exception as e:
            obs["exc"] = f"{type(e).__name__}: {e}"[:300]
        finally:
            if tmp and os.path.exists(tmp):
                os.unlink(tmp)
        obs["unmodified"] = {s: [T.extract(t) for t in ts] for s, ts in built.items()} == before
        return obs

    def _expected(self, case):
        sheets = case["sheets"]
        names = [s for s, _ in sheets] if not case["single"] else ["Sheet1"]
        tabs = [t for _, t in sheets] if not case["single"] else [sheets[0][1]]
        pat = re.compile(*case["pattern"]) if case["pattern"] else None
        out = []
        for s, ts in zip(names, tabs):
            if pat is not None and pat.match(s) is None:
                continue
            out += [(s, t) for t in ts]
        return out

    def oracle(self, case, obs):
        if "exc" in obs:
            return [f"roundtrip-raised: {obs['exc']}"]
        fails = []
        if not obs["unmodified"]:
            fails.append("writer-mutates: write_excel modified a written table")
        want = self._expected(case)
        got = [e for e in obs["events"] if e.get("k") == "table"]
        if len(got) != len(want):
            return fails + [f"count: wrote {len(want)} tables (after pattern), read {len(got)} in {len(obs['events'])} blocks"]
        if any(e.get("t") not in ("TABLE", "BLANK") for e in obs["events"]):
            fails.append("blocks: a written workbook read back with non-table, non-blank blocks")
        for i, (g, (s, spec)) in enumerate(zip(got, want)):
            w = T.spec_tokens(spec)
            # an empty string is an empty cell in a workbook: text '' reads back as 'None' only if written so
            if not T.same_table(g, w, flag=True):
                fails.append(f"roundtrip-differs: table {i} {spec['name']!r} on sheet {s!r} (styles={case['styles']}, "
                             f"sep_lines={case['sep_lines']}, {'T' if spec['transposed'] else 'R'})")
            if g.get("sheet") != s:
                fails.append(f"origin-sheet: table {i} origin names sheet {g.get('sheet')!r}, written to {s!r}")
        return fails

    def multi_coq(self, case, obs):
        if "exc" in obs or "grids" not in obs:
            return []
        sheets = case["sheets"]
        names = [s for s, _ in sheets] if not case["single"] else ["Sheet1"]
        tabs = [t for _, t in sheets] if not case["single"] else [sheets[0][1]]
        pat = re.compile(*case["pattern"]) if case["pattern"] else None
        out = []
        for (s0, _), s, ts in zip(sheets, names, tabs):
            if pat is not None and pat.match(s) is None:
                continue
            grid = obs["grids"].get(s, [])
            ftab, dtab, _ = R.tables_for(grid)
            evs = [e for e in obs["events"] if e.get("sheet") == s and e.get("k") == "table"]
            wt = g_list([g_wtable(t, d) for t, d in zip(ts, obs["dests_order"][s0])])
            out.append("(mkcase9 " + g_nat(case["sep_lines"]) + " " + wt + "\n " + C.rows_to_coq(grid) + "\n "
                       + g_list([g_pair(g_str(k), g_opt(None if v is None else str(v))) for k, v in ftab.items()]) + "\n "
                       + g_list([g_pair(g_str(k), v) for k, v in dtab.items()]) + "\n "
                       + g_list([R.g_event(e, None) for e in evs]) + ")")
        return out

    def to_coq(self, case, obs):
        return None

    def nontrivial(self, case, obs):
        return any(t["cols"] and t["cols"][0]["values"] for _, ts in case["sheets"] for t in ts)

    def kind(self, case, obs):
        return case["styles"] + f"-sep{case['sep_lines']}" + ("-path" if case["path"] else "-bytes")


PROP = C09()
