"""C06 - Unit conversion changes values and unit labels together, or neither."""
from __future__ import annotations

import math
import random

import numpy as np
import pandas as pd

from ..cells import canon_fbits
from ..core import g_list, g_opt, g_pair, g_str
from ..driver import Prop

FAMILIES = {"m": ("m", 1.0), "mm": ("m", 1e-3), "km": ("m", 1e3), "kg": ("kg", 1.0), "g": ("kg", 1e-3), "s": ("s", 1.0),
            "min": ("s", 60.0)}


class ConverterFailure(Exception):
    pass


FAIL_CLASSES = {"ConverterFailure": ConverterFailure, "KeyError": KeyError, "RuntimeError": RuntimeError,
                "AttributeError": AttributeError}


def make_converter(fail_unit=None, shift=0.0, fail_exc="ConverterFailure", ret="array"):
    """Affine test converter with a known result: (values, from, to=None) -> (values', unit string)."""
    exc = FAIL_CLASSES[fail_exc]

    def conv(values, from_unit, to_unit=None):
        if from_unit == fail_unit or from_unit not in FAMILIES:
            raise exc(from_unit)
        base, f = FAMILIES[from_unit]
        if to_unit is None:
            to_unit, g = base, 1.0
        else:
            if to_unit not in FAMILIES or FAMILIES[to_unit][0] != base:
                raise exc(f"{from_unit}->{to_unit}")
            g = FAMILIES[to_unit][1]
        arr = np.asarray(values, dtype=float)
        out = arr * f / g + shift
        if ret == "series":
            out = pd.Series(out)          # carries its own 0..n-1 index: must be taken by position, not aligned
        elif ret == "list":
            out = out.tolist()
        return out, to_unit

    return conv


def tok(v):
    if v is None or v is pd.NaT:
        return 1
    if isinstance(v, (bool, np.bool_)):
        return 3 if v else 2
    if isinstance(v, str):
        return 1000 + sum(map(ord, v)) % 1000
    if isinstance(v, pd.Timestamp):
        return 5000 + int(v.day)
    return canon_fbits(float(v))


def snapshot(t):
    df = t.df
    return {"name": t.name, "dests": sorted(t.destinations), "names": [str(c) for c in df.columns], "units": list(t.units),
            "cols": [[tok(v) for v in df.iloc[:, j].tolist()] for j in range(df.shape[1])],
            "index": [str(i) for i in df.index], "dtypes": [str(d) for d in df.dtypes]}


ERR = {"UnitConversionNotDefinedError": 1, "NotImplementedError": 2, "ConverterFailure": 3, "ValueError": 4, "TypeError": 5}


class C06(Prop):
    id = "C06"
    coq_header = "From PdV.Corr Require Import C06."
    coq_case_type = "C06.case2"
    coq_check = "C06.check2"
    rule = ("tables with int / float (with NaN) numeric columns in units of three families plus text / onoff / datetime "
            "columns, row index default / permuted / non-default integers / strings, x dispatcher forms 'base', list, "
            "dict, callable, 'origin' x an affine test converter with known result (optionally failing for one unit), "
            "and the pint converter in every 8th case; each case also sends the table through normalized_table_generator "
            "(pdtable/utils.py) in a four-block stream, dispatched by table name through a dict or a callable; non-trivial = at least one column actually converted or refused")
    assumptions = ["converters are pure functions of (values, from_unit, to_unit)",
                   "H_copy: Table(self.df.copy()) yields a frame whose data and metadata are independent of the original (C05)"]

    def generate(self, rng, tier):
        n = 1200 if tier == "quick" else 12000
        cases = []
        for i in range(n):
            ncols = rng.randint(1, 4)
            nrows = rng.choice([1, 2, 3, 4])
            cols = []
            for j in range(ncols):
                k = rng.choice(["float", "float", "int", "text", "onoff", "datetime"])
                unit = {"text": "text", "onoff": "onoff", "datetime": "datetime"}.get(k) or rng.choice(list(FAMILIES) + ["-"])
                if k == "float":
                    vals = [rng.choice([1.5, -2.0, 0.0, 1e6, float("nan"), 3.25]) for _ in range(nrows)]
                elif k == "int":
                    vals = [rng.choice([rng.randint(-9, 9), 1500000, 10**6 + 1, -123456]) for _ in range(nrows)]
                elif k == "text":
                    vals = [rng.choice(["x", "y", ""]) for _ in range(nrows)]
                elif k == "onoff":
                    vals = [rng.random() < 0.5 for _ in range(nrows)]
                else:
                    vals = [f"2020-01-0{rng.randint(1, 9)}" for _ in range(nrows)]
                cols.append({"name": "abcdef"[j], "kind": k, "unit": unit, "vals": vals})
            idx = rng.choice(["default", "permuted", "offset", "str"])
            form = rng.choice(["base", "list", "dict", "callable", "dict", "list", "origin" if rng.random() < 0.2 else "base"])
            def tgt(c):
                r = rng.random()
                if r < 0.25:
                    return None
                if c["kind"] in ("text", "onoff", "datetime"):
                    return rng.choice([None, c["unit"], "m", "__base__"])
                if r < 0.35:
                    return "__base__"
                if r < 0.4:
                    return c["unit"]
                fam = [u for u in FAMILIES if c["unit"] in FAMILIES and FAMILIES[u][0] == FAMILIES[c["unit"]][0]]
                return rng.choice(fam or ["m"]) if rng.random() < 0.9 else "kg"
            targets = [tgt(c) for c in cols]
            if form == "list" and rng.random() < 0.08:
                targets = targets + ["m"]
            cases.append({"cols": cols, "index": idx, "form": form, "targets": targets,
                          "fail_unit": rng.choice([None, None, None, "mm", "g"]), "pint": i % 8 == 7,
                          "default": rng.choice(["none", "none", "other", "only"]),
                          # an offset makes results of whole-number inputs fractional; the converter's failure class varies
                          "shift": rng.choice([0.0, 0.0, 0.15, 273.15]),
                          "ret": rng.choice(["array", "array", "series", "list"]),
                          "fail_exc": rng.choice(["ConverterFailure", "ConverterFailure", "KeyError", "RuntimeError", "AttributeError"]),
                          "extra_dict": rng.random() < 0.3})
        return cases

    def corpus(self):
        return [{"cols": [{"name": "a", "kind": "float", "unit": "m", "vals": [1.0, float("nan"), 3.0]},
                          {"name": "b", "kind": "int", "unit": "g", "vals": [1, 2, 3]},
                          {"name": "c", "kind": "text", "unit": "text", "vals": ["x", "y", "z"]}],
                 "index": "permuted", "form": "base", "targets": [None, None, None], "fail_unit": None, "pint": False,
                 "extra_dict": False}]

    def _build(self, case):
        from pdtable import Table

        n = len(case["cols"][0]["vals"])
        data = {}
        for c in case["cols"]:
            v = c["vals"]
            data[c["name"]] = pd.to_datetime(v) if c["kind"] == "datetime" else v
        index = {"default": None, "permuted": list(range(n))[::-1] if n > 1 else None,
                 "offset": [10 * (i + 1) for i in range(n)], "str": [f"r{i}" for i in range(n)]}[case["index"]]
        df = pd.DataFrame(data, index=index)
        if case["index"] == "permuted" and n > 2:
            df = pd.DataFrame(data, index=[1, 0] + list(range(2, n)))
        return Table(df, name="t", destinations={"d1", "d2"}, units=[c["unit"] for c in case["cols"]])

    def _to(self, case):
        names = [c["name"] for c in case["cols"]]
        f = case["form"]
        if f in ("base", "origin"):
            return f
        if f == "list":
            return list(case["targets"])
        d = {n: t for n, t in zip(names, case["targets"])}
        if case.get("extra_dict"):
            d["not_a_column"] = "m"
        if f == "dict":
            return d
        return lambda name: d.get(name)

    def run_impl(self, case):
        import warnings

        t = self._build(case)
        before = snapshot(t)
        if case["pint"]:
            from pdtable.units.pint import pint_converter as conv
        else:
            conv = make_converter(case["fail_unit"], case.get("shift", 0.0), case.get("fail_exc", "ConverterFailure"),
                                  case.get("ret", "array"))
        obs = {"before": before}
        import pdtable.units

        mode = case.get("default", "none") if not case["pint"] else "none"
        old_default = pdtable.units.default_converter
        try:
            if mode == "other":
                pdtable.units.default_converter = make_converter(None, shift=1000.0)   # must never be used
            elif mode == "only":
                pdtable.units.default_converter = conv
            with warnings.catch_warnings():
                warnings.simplefilter("ignore")
                r = t.convert_units(self._to(case), None if mode == "only" else conv)
            obs["result"] = snapshot(r)
            obs["same_object"] = r is t or r.df is t.df
        except Exception as e:
            obs["error"] = type(e).__name__
            obs["error_text"] = str(e)[:150]
        finally:
            pdtable.units.default_converter = old_default
        obs["after"] = snapshot(t)
        if not case["pint"] and mode == "none" and case["form"] != "origin":
            obs["stream"] = self._run_stream(case, conv)
        # what the converter itself gives for each column and target (ground truth for the oracle and
        # the lookup table of the model)
        calls = []
        eff = self._effective_targets(case)
        for c, to in zip(case["cols"], eff):
            if to is None or c["kind"] in ("text", "onoff", "datetime"):
                continue
            vals = before["cols"][[x["name"] for x in case["cols"]].index(c["name"])]
            arr = t.df[c["name"]].array
            try:
                out, u = conv(arr, c["unit"]) if to == "__base__" else conv(arr, c["unit"], to)
                calls.append([c["unit"], None if to == "__base__" else to, vals, [[tok(v) for v in np.asarray(out).tolist()], str(u)], None, c["name"]])
            except Exception as e:
                calls.append([c["unit"], None if to == "__base__" else to, vals, None, type(e).__name__, c["name"]])
        obs["calls"] = calls
        return obs

    def _run_stream(self, case, conv):
        """normalized_table_generator over: a directive, the table, a blank slot, the same table under another
        name (not dispatched); the table-level dispatcher is a dict or a callable by table name."""
        import warnings

        from pdtable import BlockType
        from pdtable.utils import normalized_table_generator

        t = self._build(case)
        t2 = self._build(case)
        t2.metadata.name = "other"
        marker = object()
        blocks = [(BlockType.DIRECTIVE, marker), (BlockType.TABLE, t), (BlockType.BLANK, None), (BlockType.TABLE, t2)]
        to = self._to(case)
        td = {"t": to} if len(case["cols"]) % 2 else (lambda name: to if name == "t" else None)
        out = {"n": 0, "kinds": [], "tables": []}
        try:
            with warnings.catch_warnings():
                warnings.simplefilter("ignore")
                for bt, b in normalized_table_generator(iter(blocks), td, conv):
                    out["n"] += 1
                    out["kinds"].append(bt.name)
                    if bt == BlockType.TABLE:
                        out["tables"].append(snapshot(b))
                    elif b is not marker and b is not None:
                        out["foreign"] = True
        except Exception as e:
            out["error"] = type(e).__name__
        out["sources_after"] = [snapshot(t), snapshot(t2)]
        return out

    def _effective_targets(self, case):
        cols = case["cols"]
        f = case["form"]
        if f == "base":
            return [None if c["kind"] in ("text", "onoff", "datetime") else "__base__" for c in cols]
        if f == "origin":
            return [None if c["kind"] in ("text", "onoff", "datetime") else "__origin__" for c in cols]
        return list(case["targets"])[: len(cols)] + [None] * max(0, len(cols) - len(case["targets"]))

    def oracle(self, case, obs):
        fails = self.stream_oracle(case, obs)
        if obs["after"] != obs["before"]:
            fails.append("original-modified: the original table changed")
        cols = case["cols"]
        eff = self._effective_targets(case)
        # expected outcome from the statement
        expect_err = None
        if case["form"] == "list" and len(case["targets"]) != len(cols):
            expect_err = "ValueError"
        else:
            for c, to in zip(cols, eff):
                if to is None or to == c["unit"]:
                    continue
                if c["kind"] in ("text", "onoff", "datetime"):
                    expect_err = "UnitConversionNotDefinedError"
                    break
                if to == "__origin__":
                    expect_err = "NotImplementedError"
                    break
                call = next((k for k in obs["calls"] if k[5] == c["name"]), None)
                if call is not None and call[3] is None:
                    expect_err = call[4]
                    break
        if "error" in obs:
            if expect_err is None:
                fails.append(f"unexpected-error: {obs['error']}: {obs.get('error_text')}")
            elif not case["pint"] and obs["error"] != expect_err:
                fails.append(f"error-class: {obs['error']} instead of {expect_err}")
            return fails
        if expect_err is not None:
            fails.append(f"partial: a conversion that must fail ({expect_err}) returned a table")
            return fails
        r, b = obs["result"], obs["before"]
        if obs.get("same_object"):
            fails.append("not-new: convert_units returned the original object")
        for k in ("name", "dests", "names", "index"):
            if r[k] != b[k]:
                fails.append(f"unchanged-{k}: {r[k]} != {b[k]}")
        for j, (c, to) in enumerate(zip(cols, eff)):
            if to is None or to == c["unit"] or c["kind"] in ("text", "onoff", "datetime"):
                if r["cols"][j] != b["cols"][j] or r["units"][j] != b["units"][j]:
                    fails.append(f"untargeted-changed: column {c['name']!r}")
                continue
            call = next(k for k in obs["calls"] if k[5] == c["name"])
            want_vals, reported = call[3]
            want_unit = reported if to == "__base__" else to
            if r["cols"][j] != want_vals:
                fails.append(f"values: column {c['name']!r} ({c['unit']}->{to}, index {case['index']}) holds {r['cols'][j][:3]}, "
                             f"converter gave {want_vals[:3]}, original {b['cols'][j][:3]}")
            if r["units"][j] != want_unit:
                fails.append(f"label: column {c['name']!r} carries {r['units'][j]!r}, expected {want_unit!r}")
        return fails

    def stream_oracle(self, case, obs):
        st = obs.get("stream")
        if st is None:
            return []
        fails = []
        b = obs["before"]
        if st["kinds"] != ["DIRECTIVE", "TABLE", "BLANK", "TABLE"][: st["n"]] or st.get("foreign"):
            fails.append(f"stream-shape: normalized stream yields {st['kinds']}")
        if "error" in obs:
            if "error" not in st or st["n"] != 1:
                fails.append(f"stream-error: convert_units fails ({obs['error']}) but the stream delivered {st['n']} blocks, error {st.get('error')}")
            return fails
        if "error" in st:
            fails.append(f"stream-error: stream raised {st['error']} where convert_units succeeds")
            return fails
        if st["n"] != 4:
            fails.append(f"stream-shape: {st['n']} blocks of 4 delivered")
            return fails
        r = obs["result"]
        for k in ("names", "units", "cols", "index", "dests"):
            if st["tables"][0][k] != r[k]:
                fails.append(f"stream-table: dispatched table differs from convert_units in {k}")
            if st["tables"][1][k] != b[k]:
                fails.append(f"stream-untouched: table without a dispatcher changed in {k}")
        if st["sources_after"][0] != dict(b) or st["sources_after"][1]["cols"] != b["cols"]:
            fails.append("stream-original: a source table of the stream was modified")
        return fails

    def multi_coq(self, case, obs):
        a = self.to_coq1(case, obs)
        out = [] if a is None else ["(inl " + a + ")"]
        st = obs.get("stream")
        if a is not None and st is not None and not st.get("foreign"):
            b = obs["before"]
            cols = g_list([f"(mkcol {g_str(n)} {g_str(u)} {g_list([str(x) for x in v])})" for n, u, v in zip(b["names"], b["units"], b["cols"])])
            gt = lambda t: g_opt(None if t is None else g_str(t))
            names = [c["name"] for c in case["cols"]]
            d = [(n, t) for n, t in zip(names, case["targets"])]
            if case.get("extra_dict"):
                d.append(("not_a_column", "m"))
            dd = g_list([g_pair(g_str(n), gt(t)) for n, t in d])
            p = {"base": "PBase", "list": "(PList " + g_list([gt(t) for t in case["targets"]]) + ")",
                 "dict": f"(PDict {dd})", "callable": f"(PFun {dd})"}[case["form"]]
            tab = g_list([g_pair(g_pair(g_pair(g_str(k[0]), gt(k[1])), g_list([str(x) for x in k[2]])),
                                 g_opt(None if k[3] is None else g_pair(g_list([str(x) for x in k[3][0]]), g_str(k[3][1]))))
                          for k in obs["calls"]])
            if "error" in st:
                err = "ConverterFailure" if st["error"] == case.get("fail_exc", "ConverterFailure") else st["error"]
                code = ERR.get(err, 9)
            else:
                code = 0
            gc = lambda snap: g_list([f"(mkcol {g_str(n)} {g_str(u)} {g_list([str(x) for x in v])})"
                                      for n, u, v in zip(snap["names"], snap["units"], snap["cols"])])
            tabs = st["tables"] + [None, None]
            r1 = gc(tabs[0]) if tabs[0] else "[]"
            r2 = gc(tabs[1]) if tabs[1] else "[]"
            out.append("(inr (" + ", ".join([g_str("t"), cols, p, tab, str(code) + "%N", f"{st['n']}%nat", r1, r2]) + "))")
        return out

    def to_coq(self, case, obs):
        return None

    def to_coq1(self, case, obs):
        if case["pint"]:
            return None
        b = obs["before"]
        cols = g_list([f"(mkcol {g_str(n)} {g_str(u)} {g_list([str(x) for x in v])})" for n, u, v in zip(b["names"], b["units"], b["cols"])])
        f = case["form"]
        names = [c["name"] for c in case["cols"]]
        gt = lambda t: g_opt(None if t is None else g_str(t))
        d = [(n, t) for n, t in zip(names, case["targets"])]
        if case.get("extra_dict"):
            d.append(("not_a_column", "m"))
        dd = g_list([g_pair(g_str(n), gt(t)) for n, t in d])
        p = {"base": "PBase", "origin": "POrigin", "list": "(PList " + g_list([gt(t) for t in case["targets"]]) + ")",
             "dict": f"(PDict {dd})", "callable": f"(PFun {dd})"}[f]
        tab = g_list([g_pair(g_pair(g_pair(g_str(k[0]), gt(k[1])), g_list([str(x) for x in k[2]])),
                             g_opt(None if k[3] is None else g_pair(g_list([str(x) for x in k[3][0]]), g_str(k[3][1]))))
                      for k in obs["calls"]])
        if "error" in obs:
            err = "ConverterFailure" if obs["error"] == case.get("fail_exc", "ConverterFailure") else obs["error"]
            code, res = ERR.get(err, 9), "[]"
        else:
            r = obs["result"]
            code = 0
            res = g_list([f"(mkcol {g_str(n)} {g_str(u)} {g_list([str(x) for x in v])})" for n, u, v in zip(r["names"], r["units"], r["cols"])])
        a = obs.get("after") or b
        after = g_list([f"(mkcol {g_str(n)} {g_str(u)} {g_list([str(x) for x in v])})" for n, u, v in zip(a["names"], a["units"], a["cols"])])
        return g_pair(g_pair(g_pair(g_pair(g_pair(cols, p), tab), str(code)), res), after)

    def nontrivial(self, case, obs):
        return bool(obs.get("calls")) or "error" in obs

    def kind(self, case, obs):
        return case["form"] + ("-pint" if case["pint"] else "") + ("-err" if "error" in obs else "")


PROP = C06()
