"""C13 - Every repaired defect is counted and reported; nothing else is altered."""
from __future__ import annotations

import re

import copy
import random

from .. import cells as C
from .. import readsys as R
from .. import sheets as S
from ..driver import Prop

STOCK = {"onoff": ["b", False], "datetime": ["m"], "float": ["m"]}


def custom_tok(which="custom"):
    import pandas as pd

    cu = R.CUSTOM if which == "custom" else R.CUSTOM0
    return {"onoff": ["b", cu["onoff"]], "datetime": ["d", C.dt_ns(pd.Timestamp(cu["datetime"]))],
            "float": ["n", C.canon_fbits(cu["float"])]}


def inject_structure(rng, rows, exp):
    """duplicate column names (both layouts) and rows cut short (row-wise tables only)."""
    dups, shorts = [], []
    if not exp["cols"]:
        return rows, dups, shorts
    rows = copy.deepcopy(rows)
    ncols = len(exp["cols"])
    if exp["transposed"]:
        # one line per column: [name, unit, values...]; a duplicated name is repaired exactly as in the row-wise layout
        if ncols >= 2 and rng.random() < 0.4 and all(len(rows[2 + k]) >= 1 for k in range(ncols)):
            j = rng.randrange(1, ncols)
            i = rng.randrange(0, j)
            rows[2 + j][0] = rows[2 + i][0]
            dups.append([j, exp["cols"][i]["name"]])
            if j + 1 < ncols and rng.random() < 0.5:
                rows[2 + j + 1][0] = exp["cols"][i]["name"] + "_fixed_000"
                dups.append([j + 1, exp["cols"][i]["name"] + "_fixed_000"])
        return rows, dups, shorts
    if ncols >= 2 and rng.random() < 0.4:
        j = rng.randrange(1, ncols)
        i = rng.randrange(0, j)
        rows[2][j] = rows[2][i]
        dups.append([j, exp["cols"][i]["name"]])
        # a later column literally named like the stock replacement of the duplicate
        if j + 1 < ncols and rng.random() < 0.5:
            rows[2][j + 1] = exp["cols"][i]["name"] + "_fixed_000"
            dups.append([j + 1, exp["cols"][i]["name"] + "_fixed_000"])
    for r in range(exp["nrows"]):
        if ncols >= 2 and rng.random() < 0.25:
            keep = rng.randint(1, ncols - 1)
            rows[4 + r] = rows[4 + r][:keep]
            shorts.append([r, keep])
    return rows, dups, shorts


class C13(Prop):
    id = "C13"
    coq_header = "From PdV.Corr Require Import Read."
    rule = ("table blocks with injected defects: illegal numeric / onoff / datetime cells (text and native), duplicated "
            "column names, rows cut short; fixer configurations strict instance, lenient stock, lenient custom subclass, a second custom subclass with falsy replacements that returns a new list for short rows, "
            "class instead of instance; every 3rd case is a two-table stream sharing one fixer; expectation computed "
            "from the injected defect set; the caller's cell grid (rows as lists) must be unchanged after the read; non-trivial = at least one defect; distinct = distinct (grid, configuration)")
    assumptions = [
        "a custom fixer returns a value of the column's own type",
        "the filler for cut-off cells is the text 'NaN' (read as missing in numeric/datetime columns, as illegal in onoff columns, as text in text columns)",
    ]

    def generate(self, rng, tier):
        n = 1200 if tier == "quick" else 15000
        cases = []
        for i in range(n):
            native = rng.random() < 0.3
            rows, exp = S.gen_table_grid(rng, native=native, bad_rate=rng.choice([0.0, 0.15, 0.3]), header_noise=False)
            rows, dups, shorts = inject_structure(rng, rows, exp)
            case = {"rows": rows, "exp": exp, "dups": dups, "shorts": shorts,
                    "fixer": ["strict", "lenient", "custom", "lenient", "strict_class", "lenient_class", "custom0"][i % 7], "native": native}
            if i % 12 == 9 and not exp["transposed"] and len(exp["cols"]) >= 2:
                # counted defects followed by a direct ValueError (non-text unit cell): nothing of it may
                # leak into the verdict on the next table
                rows = [list(r) for r in rows]
                rows[2][1] = rows[2][0]
                rows[3][0] = {"i": 7}
                case = {"rows": rows, "exp": dict(exp, bad=exp["bad"] + [[0, 0, "abort"]] if exp["nrows"] else exp["bad"]),
                        "dups": [[1, exp["cols"][0]["name"]]], "shorts": [], "fixer": case["fixer"], "native": True,
                        "force_abort": True}
            if i % 3 == 0:
                rows2, exp2 = S.gen_table_grid(rng, native=native, bad_rate=rng.choice([0.0, 0.2]), header_noise=False,
                                               table_name="second")
                case["rows2"], case["exp2"] = rows2, exp2
            cases.append(case)
        return cases

    def corpus(self):
        return []

    def _rcase(self, case, rows=None, fixer=None):
        return {"rows": rows if rows is not None else case["rows"], "form": "pdtable", "raising": False,
                "fixer": fixer or case["fixer"], "filter": None}

    def run_impl(self, case):
        rows = case["rows"]
        if "rows2" in case:
            rows = rows + [[]] + case["rows2"]
        obs = R.run_reader(self._rcase(case, rows=rows))
        obs["rows_all"] = rows
        if "rows2" in case:
            obs["second_alone"] = R.run_reader(self._rcase(case, rows=case["rows2"]))
        return obs

    _marker = False

    def _illegal_marker(self):
        """How the implementation words one illegal cell, learned from a strict read of a one-cell table (so that a
        rewording of the message is not mistaken for an omission): the text in front of the quoted value."""
        if self._marker is False:
            obs = R.run_reader({"rows": [["**r"], ["all"], ["c"], ["m"], ["qzx"]], "form": "pdtable", "raising": False,
                                "fixer": "strict", "filter": None})
            text = next((e["text"] for e in obs["events"] if e["k"] == "issue"), "")
            line = next((ln for ln in text.splitlines() if "qzx" in ln), None)
            C13._marker = None if line is None else (line[: line.index("qzx")].rstrip("'\"` ").strip() or None)
        return self._marker

    # expectation from the injected defects
    def _expect(self, exp, dups, shorts, fixer):
        kinds = exp["kinds"]
        ncols = len(kinds)
        illegal = [(j, i) for j, i, bk in exp["bad"] if bk == "fix"]
        abort = [(j, i) for j, i, bk in exp["bad"] if bk == "abort"]
        short_rows = {r: keep for r, keep in shorts}
        # cells cut off are no longer defects of their own; fillers in onoff columns are
        illegal = [(j, i) for j, i in illegal if not (i in short_rows and j >= short_rows[i])]
        abort = [(j, i) for j, i in abort if not (i in short_rows and j >= short_rows[i])]
        filler_illegal = sum(1 for r, keep in shorts for j in range(keep, ncols) if kinds[j] == "onoff")
        fixes = len(illegal) + filler_illegal + len(dups) + len(shorts)
        return illegal, abort, fixes, short_rows

    def _check_table(self, tag, exp, dups, shorts, fixer, events, fin_issue, msg_text, force_abort=False):
        fails = []
        illegal, abort, fixes, short_rows = self._expect(exp, dups, shorts, fixer)
        strict = fixer.startswith("strict")
        tabs = [e for e in events if e.get("k") == "table" and e["name"] == exp["name"]]
        if abort or force_abort or (strict and fixes > 0):
            if tabs:
                fails.append(f"{tag}strict-accepted: a table with {fixes} defects ({len(abort)} unfixable) was delivered")
            if fin_issue is None:
                fails.append(f"{tag}strict-silent: no issue reported for a table with defects")
            elif strict and not abort and not force_abort:
                # message names every defect: one "Illegal value ..." line per illegal cell (the first table's
                # message holds nothing else; a later one repeats the earlier log, hence "at least")
                marker = self._illegal_marker()
                if marker is None:
                    fails.append(f"{tag}message: the strict error for a single illegal cell 'qzx' does not mention it")
                    return fails
                n_ill = msg_text.count(marker)
                want_ill = len(illegal) + sum(1 for r, keep in shorts for j in range(keep, len(exp["kinds"]))
                                              if exp["kinds"][j] == "onoff")
                if n_ill < want_ill or (tag == "" and n_ill != want_ill):
                    fails.append(f"{tag}message: the strict error names {n_ill} illegal cells, the table has {want_ill} "
                                 f"(with {len(dups)} duplicate names, {len(shorts)} short rows)")
                for j, name in dups:
                    if f"'{name}'" not in msg_text:
                        fails.append(f"{tag}message: duplicate column {name!r} not named in the strict error")
                for r, keep in shorts:
                    if not re.search(rf"(?<![0-9]){r}(?![0-9])", msg_text):      # the row number, however it is worded
                        fails.append(f"{tag}message: short row {r} not named in the strict error")
            return fails
        if len(tabs) != 1:
            return [f"{tag}lenient-missing: table not delivered ({len(tabs)})"]
        t = tabs[0]
        if t["nrows"] != exp["nrows"] or len(t["cols"]) != len(exp["cols"]):
            fails.append(f"{tag}shape: {t['nrows']}x{len(t['cols'])} instead of {exp['nrows']}x{len(exp['cols'])}")
            return fails
        names = [c["name"] for c in t["cols"]]
        if len(set(names)) != len(names):
            fails.append(f"{tag}names: column names not unique {names}")
        repl = custom_tok(fixer) if fixer in ("custom", "custom0") else STOCK
        bad = set(illegal)
        for j, (cg, ce) in enumerate(zip(t["cols"], exp["cols"])):
            k = exp["kinds"][j]
            for i, (a, b) in enumerate(zip(cg["values"], ce["values"])):
                if i in short_rows and j >= short_rows[i]:
                    want = {"float": ["m"], "datetime": ["m"], "onoff": repl["onoff"], "text": ["s", "NaN"]}[k]
                    if a != want:
                        fails.append(f"{tag}filler: cut-off cell [{j},{i}] of kind {k} holds {a}, expected {want}")
                elif (j, i) in bad:
                    if a != repl[k]:
                        fails.append(f"{tag}replacement: illegal cell [{j},{i}] of kind {k} holds {a}, expected {repl[k]}")
                elif a != b:
                    fails.append(f"{tag}untouched: cell [{j},{i}] holds {a}, expected {b}")
        if "err" in t and t["err"] + t["warn"] != fixes:
            fails.append(f"{tag}count: fixer counted {t['err']}+{t['warn']}, expected {fixes} "
                         f"(illegal {len(illegal)}, duplicates {len(dups)}, short rows {len(shorts)})")
        return fails[:4]

    def oracle(self, case, obs):
        if obs["final"][0] == 2:
            return [f"crash-{obs['final'][2].split(':')[0]}: {obs['final'][2][:150]}"]
        evs = obs["events"]
        issues = [e for e in evs if e["k"] == "issue"]
        if obs.get("input_altered"):
            # "nothing else is altered" includes the cell grid handed in: a repair pads the parser's own copy of a row
            return [f"input-altered: the read changed rows {obs['input_altered'][:5]} of the caller's cell grid"]
        first_issue = next((e for e in issues if e["origin"] == 0), None)
        fails = self._check_table("", case["exp"], case["dups"], case["shorts"], case["fixer"], evs, first_issue,
                                  first_issue["text"] if first_issue else "", case.get("force_abort", False))
        if "rows2" in case:
            o2 = len(case["rows"]) + 1
            second_issue = next((e for e in issues if e["origin"] == o2), None)
            fails += self._check_table("second-", case["exp2"], [], [], case["fixer"], evs, second_issue,
                                       second_issue["text"] if second_issue else "")
            # isolation: verdict and counters of the second table equal those of reading it alone
            alone = obs["second_alone"]
            t2 = [e for e in evs if e.get("k") == "table" and e["name"] == "second"]
            a2 = [e for e in alone["events"] if e.get("k") == "table"]
            if bool(t2) != bool(a2):
                fails.append("isolated-verdict: second table accepted/rejected differently after a first table")
            elif t2 and a2:
                x, y = dict(t2[0]), dict(a2[0])
                x.pop("origin"), y.pop("origin")
                if x != y:
                    fails.append("isolated-content: second table differs (cells or counters) from reading it alone")
        return fails

    def to_coq(self, case, obs):
        return R.case_to_coq(self._rcase(case, rows=obs.get("rows_all", case["rows"])), obs)

    def nontrivial(self, case, obs):
        return bool(case["exp"]["bad"] or case["dups"] or case["shorts"])

    def kind(self, case, obs):
        return case["fixer"] + ("+2" if "rows2" in case else "")


PROP = C13()
