"""C16 - Loading reads exactly the reachable files, once each, and always terminates."""
from __future__ import annotations

import os
import re
import shutil

from .. import loadsys as L
from ..core import g_bool, g_list, g_nat, g_opt, g_pair, g_str
from ..driver import Prop


def pattern_names(tree_nodes, start_pattern, name_pattern=None):
    # a caller-supplied compiled pattern is applied with match(): it need not describe the whole name
    pat = re.compile(name_pattern) if name_pattern else re.compile((start_pattern or r"(?!~\$)") + r".*\.(csv|xlsx)$", re.IGNORECASE)
    names = set()
    for p, kind, payload in tree_nodes:
        if kind == "dir":
            for e in payload:
                if pat.match(e):
                    names.add(e)
    return sorted(names)


class C16(Prop):
    id = "C16"
    coq_header = "From PdV.Corr Require Import C16."
    coq_case_type = "C16.case"
    coq_check = "C16.check"
    hostile = False
    rule = ("real directory trees (1-4 folders, 1-6 csv files with tables at random row offsets, include directives "
            "with relative / root-anchored / file:-prefixed / folder / self / missing specifications, other directives, "
            "metadata) x root_folder set (roots ['/'] or root-anchored items) or unset (absolute roots) x default or "
            "in_ file-name start pattern x raising / collecting tracker x allow_include on / off; every open() and "
            "directory listing is observed through an audit hook; directory order is read from the OS; thorough adds the "
            "exhaustive include digraphs over 3 files; non-trivial = at least two files read")
    assumptions = ["H_path: Model/Path.v is pathlib's join / resolve / relative_to on POSIX (tied by this correspondence)",
                   "directory listing order is an input of the model (read from the OS)",
                   "files end in .csv (other extensions make FileReader raise ValueError: outside the statement)"]

    def gen_cfg(self, rng, tree):
        use_root = rng.random() < 0.7
        if use_root:
            roots = rng.choice([["/"], ["/"], ["/" + tree["files"][0]["rel"]], ["/", "/" + tree["files"][-1]["rel"]]])
        else:
            roots = rng.choice([["ROOT"], ["ROOT/" + tree["files"][0]["rel"]], ["ROOT", "ROOT/" + tree["files"][-1]["rel"]]])
        cfg = {"use_root": use_root, "roots": roots, "raising": rng.random() < 0.4, "allow_include": rng.random() < 0.85,
               "start_pattern": rng.choice([None, None, "in_"])}
        if cfg["start_pattern"] is None and rng.random() < 0.25:
            # a compiled file-name pattern that describes the start of the name only (csv files all the same)
            cfg["name_pattern"] = rng.choice([r"(in_|f\d)", r"[fg]", r"in_\d\.(csv|CSV)"])
        return cfg

    def generate(self, rng, tier):
        n = 250 if tier == "quick" else 3000
        cases = []
        for k in range(n):
            tree = L.gen_tree(rng, hostile=self.hostile)
            cases.append({"tree": tree, "cfg": self.gen_cfg(rng, tree)})
            if k % 10 == 0 and not self.hostile:
                cases.append({"tree": tree, "cfg": None, "proto": True})
        cases += self.directed()
        if tier == "thorough" and not self.hostile:
            import itertools

            files = ["f1.csv", "f2.csv", "g.csv"]
            for edges in itertools.product([0, 1], repeat=9):
                tree = {"folders": [""], "links": [], "files": []}
                for i, f in enumerate(files):
                    inc = [files[j] for j in range(3) if edges[3 * i + j]]
                    blocks = [{"k": "table", "n": i + 1, "pad": i}] + ([{"k": "include", "lines": inc}] if inc else [])
                    tree["files"].append({"rel": f, "blocks": blocks})
                cases.append({"tree": tree, "cfg": {"use_root": True, "roots": ["/f1.csv"], "raising": False,
                                                    "allow_include": True, "start_pattern": None}})
        return cases

    def directed(self):
        """Include graphs that cross folders through '..' (a cycle and a diamond), with and without a root folder:
        the same file is reached under different spellings."""
        out = []
        t = lambda n: {"k": "table", "n": n, "pad": 0}
        cyc = {"folders": ["", "a", "c"], "links": [], "files": [
            {"rel": "a/f1.csv", "blocks": [t(1), {"k": "include", "lines": ["../c/g.csv"]}]},
            {"rel": "c/g.csv", "blocks": [t(2), {"k": "include", "lines": ["../a/f1.csv", "../a/../c/./g.csv"]}]}]}
        dia = {"folders": ["", "a", "c"], "links": [], "files": [
            {"rel": "f1.csv", "blocks": [t(1), {"k": "include", "lines": ["a/f2.csv", "c/g.csv", "a/../c/g.csv"]}]},
            {"rel": "a/f2.csv", "blocks": [t(2), {"k": "include", "lines": ["../c/g.csv"]}]},
            {"rel": "c/g.csv", "blocks": [t(3)]}]}
        # the same specification twice in one include directive
        rep = {"folders": ["", "a", "c"], "links": [], "files": [
            {"rel": "f1.csv", "blocks": [t(1), {"k": "include", "lines": ["c/g.csv", "a/f2.csv", "c/g.csv"]}]},
            {"rel": "a/f2.csv", "blocks": [t(2)]}, {"rel": "c/g.csv", "blocks": [t(3)]}]}
        for tree, first in ((cyc, "a/f1.csv"), (dia, "f1.csv"), (rep, "f1.csv")):
            for use_root in (False, True):
                for raising in (False, True):
                    out.append({"tree": tree, "cfg": {"use_root": use_root, "roots": [("/" if use_root else "ROOT/") + first],
                                                      "raising": raising, "allow_include": True, "start_pattern": None}})
        return out

    def run_proto(self, case):
        """An in-memory 'mem:' protocol loader next to the file system: dispatch by prefix."""
        import io
        import warnings

        from pdtable import BlockType, read_csv
        from pdtable.io.load import load_files
        from pdtable.io.load._protocol import LoadProxy
        from pdtable.table_origin import LoadItem, NullLocationFile

        base, root = L.build_tree(case["tree"])
        calls = []
        mem = {"m1": "**m1t;\nall\nc;\n-;\n1;\n\n***include;\n/" + case["tree"]["files"][0]["rel"] + "\nmem:m2\n\n",
               "m2": "**m2t;\nall\nc;\n-;\n2;\n\n"}

        class MemLocation(NullLocationFile):
            def __init__(self, key, item):
                super().__init__(description="mem:" + key, id="mem:" + key)
                self._spec = item

        class MemReader:
            def read(self, location, orchestrator):
                key = location.load_identifier[4:]
                yield from read_csv(io.StringIO(mem[key]), sep=";", location_sheet=location.make_location_sheet(),
                                    issue_tracker=orchestrator.issue_tracker)

        class MemLoader:
            def resolve(self, load_item, orchestrator):
                calls.append(load_item.specification)
                return LoadProxy(load_location=MemLocation(load_item.specification[4:], load_item), reader=MemReader())

        out = {"proto": True, "calls": calls}
        try:
            # a file-system file that includes a mem: item
            with open(os.path.join(root, "entry.csv"), "w") as f:
                f.write("***include;\nMEM:m1\n\n**e;\nall\nc;\n-;\n0;\n\n")
            with warnings.catch_warnings():
                warnings.simplefilter("ignore")
                got = [b.name for bt, b in load_files(["/entry.csv"], root_folder=root, csv_sep=";",
                                                      additional_protocol_loaders={"mem": MemLoader()}) if bt == BlockType.TABLE]
            out["tables"] = got
        except Exception as e:
            out["exc"] = f"{type(e).__name__}: {e}"[:200]
        finally:
            shutil.rmtree(base, ignore_errors=True)
        want_first = [f"t{b['n']}" for b in case["tree"]["files"][0]["blocks"] if b["k"] == "table"]
        out["first_file_tables"] = want_first
        return out

    def run_impl(self, case):
        if case.get("proto"):
            return self.run_proto(case)
        base, root = L.build_tree(case["tree"])
        try:
            obs = L.run_load(case["tree"], base, root, case["cfg"])
            obs["base"], obs["root"] = base, root
            # canonical form of everything that was opened or listed, taken while the tree still exists
            obs["real"] = {e[1]: os.path.realpath(e[1]) for e in obs["events"] if e[0] in ("open", "list")}
            obs["nodes"] = [[p, k, pl] for p, k, pl in L.scan_fs(base, case["tree"], root)]
            return obs
        finally:
            shutil.rmtree(base, ignore_errors=True)

    def expected_reads(self, case, obs):
        """Reference reachability for link-free trees and error-free loads: the set of files and folders
        a complete load must read (None when the reference meets anything it does not decide)."""
        root, cfg, tree = obs["root"], case["cfg"], case["tree"]
        if tree["links"]:
            return None
        files = {os.path.normpath(os.path.join(root, f["rel"])): f for f in tree["files"]}
        listing = {os.path.normpath(p): pl for p, k, pl in obs["nodes"] if k == "dir"}
        pat = re.compile(cfg["name_pattern"]) if cfg.get("name_pattern") else \
            re.compile((cfg.get("start_pattern") or r"(?!~\$)") + r".*\.(csv|xlsx)$", re.IGNORECASE)
        stack = [(sp, None) for sp in obs["roots"]]
        visited = set()
        self._expected_repeats = 0
        while stack:
            spec, src = stack.pop()
            s = spec[5:] if spec.lower().startswith("file:") else spec
            if cfg["use_root"] and s[:1] in ("/", "\\"):
                p = os.path.join(root, s[1:])
            elif os.path.isabs(s):
                p = s
            elif src is None:
                return None
            else:
                p = os.path.join(src, s)
            p = os.path.normpath(p)
            if cfg["use_root"] and not (p == root or p.startswith(root + os.sep)):
                return None
            if p in visited:
                self._expected_repeats += 1
                continue
            if p in files:
                visited.add(p)
                if cfg["allow_include"]:
                    for b in files[p]["blocks"]:
                        if b["k"] == "include":
                            stack += [(ln, os.path.dirname(p)) for ln in b["lines"]]
            elif p in listing:
                visited.add(p)
                stack += [(e, p) for e in listing[p] if pat.match(e)]
            else:
                return None
        return visited

    @staticmethod
    def _dup_issues(evs):
        """Issues reporting a repeated location: recognised by what they are about - a location that has already been
        read - not by the wording of the message."""
        seen, out = set(), []
        for e in evs:
            if e[0] in ("open", "list"):
                seen.add(os.path.normpath(e[1]))
            elif e[0] == "issue" and e[2] and os.path.normpath(e[2]) in seen:
                out.append(e)
        return out

    # ---- oracle: the statement, on the implementation's behaviour ----
    def oracle(self, case, obs):
        fails = []
        if obs.get("proto"):
            if "exc" in obs:
                # includes inside the first file may legitimately fail (missing targets); a TypeError etc. is a defect
                if not obs["exc"].startswith(("InputError", "LoadError", "FileNotFoundError")):
                    fails.append(f"protocol: {obs['exc']}")
                return fails
            if sorted(c.lower() for c in obs["calls"]) != ["mem:m1", "mem:m2"]:
                fails.append(f"protocol-dispatch: mem loader was asked for {obs['calls']}")
            got = obs["tables"]
            for t in ["e", "m1t", "m2t"] + obs["first_file_tables"]:
                if t not in got:
                    fails.append(f"protocol-reach: table {t} not loaded through the protocol chain (got {got})")
            return fails
        cfg = case["cfg"]
        evs = obs["events"]
        if obs["code"] == 3 and not self.hostile:
            if "FileNotFoundError" not in obs["exc"]:
                fails.append(f"exception: {obs['exc']}")
        opened = [os.path.normpath(e[1]) for e in evs if e[0] in ("open", "list")]
        if len(set(opened)) != len(opened):
            dup = next(p for p in opened if opened.count(p) > 1)
            fails.append(f"read-twice: {os.path.relpath(dup, obs['base'])} was opened / listed more than once")
        # every request for a location that has already been read is reported (collecting tracker), or ends the
        # load with an InputError (default tracker)
        if not self.hostile and obs["code"] in (0, 1):
            want = self.expected_reads(case, obs)
            if want is not None:
                rep = self._expected_repeats
                n_rep = len(self._dup_issues(evs))
                other_issues = len(obs["issues"]) - n_rep
                if not cfg["raising"] and obs["code"] == 0 and other_issues == 0 and n_rep != rep:
                    fails.append(f"repeat-count: {rep} repeated request(s) for a location already read, {n_rep} reported")
                if cfg["raising"] and rep > 0 and obs["code"] == 0:
                    fails.append(f"repeat-silent: {rep} repeated request(s) but the load completed without an error")
        # a complete, error-free load reads exactly what is reachable
        if obs["code"] == 0 and not obs["issues"] and not self.hostile:
            want = self.expected_reads(case, obs)
            if want is not None:
                got = set(opened)
                for p in sorted(want - got)[:2]:
                    fails.append(f"reach-missed: {os.path.relpath(p, obs['base'])} is reachable from the roots but was never read")
                for p in sorted(got - want)[:2]:
                    fails.append(f"reach-extra: {os.path.relpath(p, obs['base'])} was read but is not reachable from the roots")
        # blocks of a file come together and in file order
        cur, seen_files = None, []
        per_file = {}
        for e in evs:
            if e[0] == "yield" and e[2] is not None:
                f = e[2]
                if f != cur:
                    if f in seen_files:
                        fails.append(f"interleaved: blocks of {os.path.relpath(f, obs['base'])} are not contiguous")
                    seen_files.append(f)
                    cur = f
                per_file.setdefault(f, []).append(e)
            elif e[0] in ("open", "list"):
                cur = None if e[1] != cur else cur
        blocks_of = {os.path.join(obs["root"], f["rel"]): f["blocks"] for f in case["tree"]["files"]}
        for f, ys in per_file.items():
            want = []
            for b in blocks_of.get(f, []):
                if b["k"] == "table":
                    want.append(("TABLE", f"t{b['n']}"))
                elif b["k"] == "meta":
                    want.append(("METADATA", None))
                elif b["k"] == "directive":
                    want.append(("DIRECTIVE", "other"))
                elif not cfg["allow_include"]:
                    want.append(("DIRECTIVE", "include"))
            got = [(y[1], y[3] if y[1] in ("TABLE", "DIRECTIVE") else None) for y in ys]
            if f in blocks_of and obs["code"] == 0 and got != want:
                fails.append(f"file-blocks: {os.path.relpath(f, obs['base'])} yielded {got}, holds {want}")
            if cfg["allow_include"] and any(y[1] == "DIRECTIVE" and y[3] == "include" for y in ys):
                fails.append("include-yielded: an include directive was yielded although includes are honoured")
        # repeated locations are reported
        dups = self._dup_issues(evs)
        for d in dups:
            if d[2] is None:
                fails.append("dup-location: repeated-location issue without a location")
        if obs["code"] == 1 and cfg["raising"] is False:
            fails.append("collecting-raised: InputError with a collecting tracker")
        return fails

    def to_coq(self, case, obs):
        if obs.get("proto"):
            return None
        base, root = obs["base"], obs["root"]
        outside = os.path.join(base, "outside")
        nodes = [(p, k, pl) for p, k, pl in obs["nodes"]]
        cfg = case["cfg"]
        evs = []
        dup_issues = self._dup_issues(obs["events"])
        for e in obs["events"]:
            if e[0] in ("open", "list"):
                if not (e[1].startswith(os.path.dirname(base)) or e[1] == "/"):
                    continue
                evs.append("OVisit " + L.g_path(e[1]))
            elif e[0] == "yield":
                if e[2] is None:
                    return None
                if e[1] == "TABLE":
                    code = int(e[3][1:])
                elif e[1] == "METADATA":
                    code = 900
                elif e[1] == "DIRECTIVE":
                    code = 0 if e[3] == "include" else 902
                else:
                    code = 901
                evs.append(f"OYield {L.g_path(e[2])} {g_nat(code)}")
            elif e[0] == "issue" and e[2] and any(e is d for d in dup_issues):
                evs.append("ODup " + L.g_path(e[2]))
        if obs["code"] == 3 and "FileNotFoundError" not in (obs["exc"] or ""):
            return None
        return ("(mkcase16 " + L.g_xfs(nodes, outside) + "\n " + g_opt(L.g_path(root) if cfg["use_root"] else None) + " "
                + g_list([g_str(r) for r in obs["roots"]]) + " " + g_bool(cfg["allow_include"]) + " " + g_bool(cfg["raising"]) + " "
                + g_list([g_str(n) for n in pattern_names(nodes, cfg.get("start_pattern"), cfg.get("name_pattern"))]) + " " + str(obs["code"]) + "\n "
                + g_list(evs) + ")")

    def nontrivial(self, case, obs):
        if obs.get("proto"):
            return True
        return len({e[1] for e in obs["events"] if e[0] == "open"}) >= 2

    def kind(self, case, obs):
        if obs.get("proto"):
            return "protocol"
        return ("root" if case["cfg"]["use_root"] else "abs") + {0: "-ok", 1: "-inputerror", 2: "-loaderror", 3: "-exc"}[obs["code"]]


PROP = C16()
