"""C02 - Cells are typed by their column's unit exactly as the StarTable rules say."""
from __future__ import annotations

import random

from .. import readsys as R
from .. import sheets as S
from ..driver import Prop


def table_matches(exp, got):
    """expected (sheets.gen_table_grid) vs observed (tables.extract) -> list of differences"""
    d = []
    if got.get("k") != "table":
        return [f"block is {got.get('k')}, not a table"]
    if got["name"] != exp["name"]:
        d.append(f"name {got['name']!r} != {exp['name']!r}")
    if got["transposed"] != exp["transposed"]:
        d.append("orientation")
    if got["dests"] != exp["dests"]:
        d.append(f"destinations {got['dests']} != {exp['dests']}")
    if [c["name"] for c in got["cols"]] != [c["name"] for c in exp["cols"]]:
        d.append(f"column names {[c['name'] for c in got['cols']]} != {[c['name'] for c in exp['cols']]}")
    if [c["unit"] for c in got["cols"]] != [c["unit"] for c in exp["cols"]]:
        d.append("units")
    if got["nrows"] != exp["nrows"]:
        d.append(f"rows {got['nrows']} != {exp['nrows']}")
    for cg, ce in zip(got["cols"], exp["cols"]):
        for i, (a, b) in enumerate(zip(cg["values"], ce["values"])):
            if a != b:
                d.append(f"cell[{ce['name']!r},{i}] unit {ce['unit']!r}: got {a} expected {b}")
                break
    return d


class C02(Prop):
    id = "C02"
    coq_header = "From PdV.Corr Require Import Read."
    rule = ("single table blocks spelled cell by cell from per-kind spelling tables (numerals, markers in all case/blank "
            "variants, booleans, ISO datetime forms, native int/float/bool/datetime/None), header shapes (padding, "
            "comments, trailing cells), both orientations, text and native grids; 25% of the cases carry one or more "
            "illegal cells; expectation = literal reading of the rules, independent of pdtable and of the model; "
            "non-trivial = at least one data row; distinct = distinct grids")
    assumptions = [
        "H_float: float(s) on the normalised cell text is given to the model as a lookup table computed by the interpreter for the strings of each case",
        "H_datetime: pd.to_datetime(s) likewise; H_native: str(x)/float(x) of native cells are fields of the cell",
        "H_lower: generated cells are over an alphabet on which str.lower is ASCII-only (no non-ASCII digits or case-mapped letters)",
    ]

    def corpus(self):
        return [
            {"rows": [["**t"], ["all"], ["a", "b"], ["datetime", "-"], ["NaN", "1"], ["NAN", "nan"]], "native": False,
             "exp": {"name": "t", "transposed": False, "dests": ["all"], "nrows": 2, "bad": [], "kinds": ["datetime", "float"],
                     "cols": [{"name": "a", "unit": "datetime", "values": [["m"], ["m"]]},
                              {"name": "b", "unit": "-", "values": [S.n(1), ["m"]]}]}},
        ]

    def generate(self, rng, tier):
        n = 1500 if tier == "quick" else 20000
        cases = []
        for i in range(n):
            native = rng.random() < 0.4
            bad_rate = 0.0 if rng.random() < 0.65 else rng.choice([0.1, 0.3, 0.5])
            if i % 20 == 7:
                rows, exp = S.gen_staggered_grid(rng, native=native)    # transposed, a gap in every column
            else:
                rows, exp = S.gen_table_grid(rng, native=native, bad_rate=bad_rate)
            lead = rng.choice([0, 0, 1, 3])
            rows = [[] for _ in range(lead)] + rows
            cases.append({"rows": rows, "native": native, "exp": exp, "lead": lead, "tuples": native and rng.random() < 0.5})
        return cases

    def _rcase(self, case):
        return {"rows": case["rows"], "form": "pdtable", "raising": True, "fixer": "strict", "filter": None,
                "tuples": case.get("tuples", False)}

    def run_impl(self, case):
        return R.run_reader(self._rcase(case))

    def oracle(self, case, obs):
        exp = case["exp"]
        fails = []
        fin = obs["final"]
        tables = [e for e in obs["events"] if e.get("t") == "TABLE"]
        if exp["bad"]:
            if fin[0] != 1:
                fails.append(f"illegal-accepted: grid with illegal cells {exp['bad'][:2]} gave final {fin[:1]} "
                             f"{fin[2] if len(fin) > 2 and fin[0] == 2 else ''}")
            elif fin[1] != case.get("lead", 0):
                fails.append(f"error-location: InputError at row {fin[1]}, table starts at row {case.get('lead', 0)}")
            return fails
        if fin[0] != 0:
            fails.append(f"rejected: well-formed grid gave {'InputError' if fin[0] == 1 else 'crash'}: {fin[2] if len(fin) > 2 else ''}"[:300])
            return fails
        if len(tables) != 1:
            return [f"count: {len(tables)} tables"]
        for d in table_matches(exp, tables[0])[:3]:
            fails.append("typed: " + d)
        if tables[0].get("origin") != case.get("lead", 0):
            fails.append("origin: table origin row")
        return fails

    def to_coq(self, case, obs):
        return R.case_to_coq(self._rcase(case), obs)

    def nontrivial(self, case, obs):
        return case["exp"]["nrows"] > 0

    def kind(self, case, obs):
        e = case["exp"]
        return ("native" if case["native"] else "text") + ("-T" if e["transposed"] else "-R") + ("-bad" if e["bad"] else "")

    def shrink(self, case):
        return []


    def py_sweeps(self, tier):
        import datetime
        import math

        import pandas as pd
        from pdtable.io.parsers.columns import parse_column

        from .. import tables as T

        nan = float("nan")
        good = [("text", ["a", "", 5, None, " x "], ["a", "", "5", "None", " x "]),
                ("onoff", ["1", "0", True, 0, " TRUE ", "false"], [True, False, True, False, True, False]),
                ("-", ["1.5", "-", None, 3, "NaN", " 2e3 ", True], [1.5, nan, nan, 3.0, nan, 2000.0, 1.0]),
                ("kg", ["nan", 2.5], [nan, 2.5]),
                ("datetime", ["2020-01-02", "-", datetime.datetime(2020, 1, 2, 3), " 2020-01-02 03:04:05 ", "nan"],
                 [pd.Timestamp("2020-01-02"), pd.NaT, pd.Timestamp("2020-01-02 03:00"), pd.Timestamp("2020-01-02 03:04:05"), pd.NaT])]
        bad = [("onoff", ["maybe"]), ("onoff", [2]), ("onoff", [None]), ("-", ["abc"]), ("m", [""]), ("m", [datetime.date(2020, 1, 1)]),
               ("datetime", ["abc"]), ("datetime", [5]), ("datetime", [""]), ("datetime", [None]), ("datetime", ["2020-13-45"])]
        fails = []
        for unit, vals, want in good:
            try:
                got = list(parse_column(unit, vals))
                if [T.tok(x) for x in got] != [T.tok(x) for x in want]:
                    fails.append(f"parse_column({unit!r}, {vals!r}) without a fixer gave {got!r}")
            except Exception as e:
                fails.append(f"parse_column({unit!r}, {vals!r}) without a fixer raised {type(e).__name__}")
        for unit, vals, want in good:
            for how, seq in (("tuple", tuple(vals)), ("generator", (v for v in vals)),
                             ("series with permuted labels", pd.Series(list(vals), index=list(range(len(vals)))[::-1], dtype=object))):
                try:
                    got = list(parse_column(unit, seq))
                    if [T.tok(x) for x in got] != [T.tok(x) for x in want]:
                        fails.append(f"parse_column({unit!r}, <{how}> {vals!r}) gave {got!r}")
                except Exception as e:
                    fails.append(f"parse_column({unit!r}, <{how}> {vals!r}) raised {type(e).__name__}")
        for unit, vals in bad:
            try:
                got = list(parse_column(unit, vals))
                fails.append(f"parse_column({unit!r}, {vals!r}) without a fixer accepted the illegal cell: {got!r}")
            except ValueError:
                pass
            except Exception as e:
                fails.append(f"parse_column({unit!r}, {vals!r}) without a fixer raised {type(e).__name__}, not a ValueError")
        return fails, {"direct_parse_column_calls": len(good) + len(bad)}


PROP = C02()
