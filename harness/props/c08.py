"""C08 - JsonData is plain JSON and converts back to the same table."""
from __future__ import annotations

import json
import math
import warnings

from .. import cells as C
from .. import readsys as R
from .. import tables as T
from ..core import g_list, g_opt, g_pair, g_str
from ..driver import Prop


def leaf_types(x, path=""):
    """Exact python types of all leaves / containers; returns list of offending (path, type)."""
    bad = []
    t = type(x)
    if t is dict:
        for k, v in x.items():
            if type(k) is not str:
                bad.append((path + "/<key>", type(k).__name__))
            bad += leaf_types(v, path + "/" + str(k))
    elif t is list:
        for i, v in enumerate(x):
            bad += leaf_types(v, f"{path}[{i}]")
    elif t is float:
        if math.isnan(x):
            bad.append((path, "NaN"))
    elif t in (str, int, bool, type(None)):
        pass
    else:
        bad.append((path, t.__module__ + "." + t.__name__))
    return bad


def g_jtable(jd):
    cols = g_list([g_pair(g_pair(g_str(cn), g_str(col["unit"])), g_list([R.g_jleaf(R.jleaf(v)) for v in col["values"]]))
                   for cn, col in jd["columns"].items()])
    return f"(mkj {g_str(jd['name'])} {g_list([g_str(d) for d in jd['destinations']])} {cols})"


JSON_KEYS = ["unit", "values", "columns", "name", "destinations", "units", "origin"]


class C08(Prop):
    id = "C08"
    coq_header = "From PdV.Corr Require Import C08."
    coq_case_type = "C08.case"
    coq_check = "C08.check"
    rule = ("well-formed tables (all column kinds, NaN, +-inf, integer-valued and fractional numbers, integers, "
            "microsecond and nanosecond datetimes (non-zero sub-microsecond part) with and without NaT, zero rows, unicode text and names, both orientation flags): "
            "table_to_json_data -> exact-type purity check -> json.dumps(allow_nan=False) when no infinities -> json.loads -> "
            "json_data_to_table -> comparison with the original; the JsonData of the readers is covered by C07; "
            "non-trivial = at least one data row")
    assumptions = ["H_json_codec: json.dumps / json.loads round-trip dict, list, str, int, float, bool, None exactly",
                   "H_float_roundtrip / H_dt_roundtrip as in C01 (datetimes travel as str(timestamp))"]

    def generate(self, rng, tier):
        n = 700 if tier == "quick" else 8000
        out = []
        for i in range(n):
            spec = T.gen_table(rng, sep="\x00", bigint=False, odd=True)
            if i % 3 == 0:
                # no missing datetimes: the round-trip half of the statement applies
                for c in spec["cols"]:
                    if c["kind"] == "datetime":
                        c["values"] = [v if "ts" in v else {"ts": "2001-02-03T04:05:06"} for v in c["values"]]
            if i % 4 == 1:
                # nanosecond resolution with a non-zero sub-microsecond part (str(timestamp) carries nine digits)
                import pandas as pd
                for c in spec["cols"]:
                    if c["kind"] == "datetime":
                        c["res"] = "ns"
                        c["values"] = [v if "ts" not in v else
                                       {"ts": (pd.Timestamp(v["ts"]) + pd.Timedelta(rng.choice([1, 999, rng.randint(1, 999)]), "ns")).isoformat()}
                                       for v in c["values"]]
            if i % 5 == 1:
                # a row in which every value is missing / empty (numbers and text only)
                spec = T.gen_table(rng, sep="\x00", bigint=False, odd=True, kinds=["float", "text", "float"], min_cols=1)
                n = len(spec["cols"][0]["values"]) if spec["cols"] else 0
                if n >= 2:
                    r = rng.randrange(n)
                    for c in spec["cols"]:
                        c["values"][r] = {"f": "nan"} if c["kind"] == "float" else ""
            if i % 7 == 3:
                # a text column of pandas' own choosing (str) with an empty cell below the first row: the cell is NaN in the frame
                for c in spec["cols"]:
                    if c["kind"] == "text" and len(c["values"]) >= 2:
                        c["infer"] = True
                        c["values"][rng.randrange(1, len(c["values"]))] = None
            if i % 6 == 2 and spec["cols"]:
                # columns named like the keys of the JSON layout itself
                k = min(len(spec["cols"]), rng.randint(1, 3))
                if k >= 2 and rng.random() < 0.5:
                    kw = ["unit", "values"] + rng.sample(JSON_KEYS[2:], k - 2)
                    rng.shuffle(kw)
                else:
                    kw = rng.sample(JSON_KEYS, k)
                for c, nme in zip(spec["cols"], kw):
                    c["name"] = nme
            out.append({"table": spec})
        return out

    def run_impl(self, case):
        from pdtable.io.json import json_data_to_table, table_to_json_data

        spec = case["table"]
        t = T.build_table(spec)
        before = T.extract(t)
        obs = {}
        # what the function sees: list(df[col]) python scalars
        obs["scalars"] = [[c["name"], t.units[j], [C.from_py(v) for v in list(t.df[c["name"]])]] for j, c in enumerate(spec["cols"])]
        obs["dests_order"] = list(t.metadata.destinations)
        try:
            with warnings.catch_warnings():
                warnings.simplefilter("ignore")
                jd = table_to_json_data(t)
            obs["json"] = jd
            obs["impure"] = leaf_types(jd)
        except Exception as e:
            obs["json_exc"] = f"{type(e).__name__}: {e}"[:200]
            return obs
        obs["unmodified"] = T.extract(t) == before
        has_inf = any(isinstance(v, float) and math.isinf(v) for col in jd["columns"].values() for v in col["values"])
        try:
            text = json.dumps(jd, allow_nan=False)
            obs["dumps"] = "ok"
        except Exception as e:
            obs["dumps"] = f"{type(e).__name__}"
            text = json.dumps(jd)
        obs["has_inf"] = has_inf
        back = json.loads(text)
        try:
            with warnings.catch_warnings():
                warnings.simplefilter("ignore")
                t2 = json_data_to_table(back)
            obs["back"] = T.extract(t2)
        except Exception as e:
            obs["back_exc"] = f"{type(e).__name__}: {e}"[:200]
        return obs

    def oracle(self, case, obs):
        spec = case["table"]
        fails = []
        if "json_exc" in obs:
            return [f"to-json-raised: {obs['json_exc']}"]
        for path, tname in obs["impure"][:2]:
            fails.append(f"impure: {tname} at {path}")
        jd = obs["json"]
        if list(jd["columns"].keys()) != [c["name"] for c in spec["cols"]]:
            fails.append("order: columns not in table order")
        if [c["unit"] for c in jd["columns"].values()] != [c["unit"] for c in spec["cols"]]:
            fails.append("units: units not paired with their columns")
        if not obs.get("unmodified", True):
            fails.append("mutates: table_to_json_data modified the table")
        if not obs["has_inf"] and obs["dumps"] != "ok":
            fails.append(f"strict-json: json.dumps(allow_nan=False) raised {obs['dumps']}")
        missing_dt = any(c["kind"] == "datetime" and any("nat" in v for v in c["values"]) for c in spec["cols"])
        missing_text = any(c["kind"] == "text" and any(v is None for v in c["values"]) for c in spec["cols"])
        if not missing_dt and not missing_text:      # a missing text travels as null and comes back as the text 'None' (R2)
            if "back_exc" in obs:
                fails.append(f"roundtrip-raised: {obs['back_exc']}")
            elif "back" in obs:
                want = T.spec_tokens(spec)
                if not T.same_table(obs["back"], want, flag=False):
                    fails.append("roundtrip-differs: json_data_to_table(decode(encode(table_to_json_data(t)))) != t")
        return fails

    def to_coq(self, case, obs):
        if "json" not in obs:
            return None
        spec = case["table"]
        if any(c.get("infer") for c in spec["cols"]):
            return None      # the frame's own spelling of an empty text cell: judged by the oracle (purity) only
        cols = g_list([g_pair(g_pair(g_str(n), g_str(u)), g_list([C.to_coq(v) for v in vals])) for n, u, vals in obs["scalars"]])
        jd = obs["json"]
        if obs["impure"]:
            return None
        # lookup tables for reading back: every string leaf may be parsed as number / datetime
        rows = [[v for col in jd["columns"].values() for v in col["values"] if isinstance(v, str)]]
        ftab, dtab, _ = R.tables_for(rows)
        frepr, ifl = {}, {}
        for col in jd["columns"].values():
            for v in col["values"]:
                if type(v) is float:
                    frepr[C.canon_fbits(v)] = str(v)
                elif type(v) is int:
                    ifl[v] = C.canon_fbits(float(v))
        if "back" in obs:
            e = dict(obs["back"], k="table")
            # fixer counters are not observable here
            back = ("(Some (OTable " + f"{g_str(e['name'])} {str(e['transposed']).lower()} {g_list([g_str(d) for d in e['dests']])} "
                    f"{g_list([g_str(c['name']) for c in e['cols']])} {g_list([g_str(c['unit']) for c in e['cols']])} "
                    f"{g_list([R.g_col_values(c) for c in e['cols']])} 0%nat 0%nat))")
        else:
            back = "None"
        return ("(mkcase8 " + g_str(spec["name"]) + " " + g_list([g_str(d) for d in obs["dests_order"]]) + " " + cols + "\n (Some "
                + g_jtable(jd) + ")\n "
                + g_list([g_pair(g_str(k), g_opt(None if v is None else str(v))) for k, v in ftab.items()]) + "\n "
                + g_list([g_pair(g_str(k), v) for k, v in dtab.items()]) + "\n "
                + g_list([g_pair(str(k), g_str(v)) for k, v in frepr.items()]) + "\n "
                + g_list([g_pair(f"({k})%Z", str(v)) for k, v in ifl.items()]) + "\n " + back + ")")

    def nontrivial(self, case, obs):
        s = case["table"]
        return bool(s["cols"] and s["cols"][0]["values"])

    def kind(self, case, obs):
        return "back-ok" if "back" in obs else ("back-raised" if "back_exc" in obs else "no-json")


PROP = C08()
