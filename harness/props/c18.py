"""C18 - Each table's origin pinpoints where it was read and how it got included."""
from __future__ import annotations

import os
import shutil
import warnings

from .. import loadsys as L
from .c16 import C16


def leaves(node, path=()):
    out = []
    if node["table"] is not None:
        out.append((node["table"], path + (node["id"],)))
    for c in node["children"]:
        out += leaves(c, path + (node["id"],))
    return out


def all_nodes(node):
    yield node
    for c in node["children"]:
        yield from all_nodes(c)


class C18(C16):
    id = "C18"
    rule = ("the input sets of C16 (csv trees with nested includes, tables at random row offsets) plus, every 8th case, "
            "a multi-sheet workbook in the root folder; for every loaded table the origin's file, sheet and 0-based row "
            "are compared with the generator's ground truth, the load-specification chain is checked link by link "
            "against the directives present in the files, and the location trees built over the loaded tables are "
            "checked to be a forest with every table exactly once beneath its file; non-trivial = at least one table "
            "loaded through an include")
    assumptions = C16.assumptions + ["origin rows rest on C03_origin (the segmentation theorem) for the row of the '**' cell"]

    def generate(self, rng, tier):
        cases = super().generate(rng, tier)
        cases = [c for c in cases if not c.get("proto")]
        # protocol-prefixed roots and include lines, with and without the protocol dispatcher in the loader stack
        t = lambda n: {"k": "table", "n": n, "pad": 1}
        ptree = {"folders": ["", "a", "c"], "links": [], "files": [
            {"rel": "f1.csv", "blocks": [t(1), {"k": "include", "lines": ["file:a/f2.csv"]}, t(4), {"k": "include", "lines": ["FILE:/c/g.csv"]}]},
            {"rel": "a/f2.csv", "blocks": [t(2), {"k": "include", "lines": ["file:../c/h.csv"]}]},
            {"rel": "c/g.csv", "blocks": [t(3)]}, {"rel": "c/h.csv", "blocks": [t(5)]}]}
        for stack in (False, True):
            for root_spec in ("/f1.csv", "file:/f1.csv"):
                cases.append({"tree": ptree, "cfg": {"use_root": True, "roots": [root_spec], "raising": True, "allow_include": True,
                                                     "start_pattern": None, "proto_stack": stack}})
        for i, c in enumerate(cases):
            if i % 3 == 1 and c.get("cfg"):
                c["cfg"] = dict(c["cfg"], proto_stack=True)
            if i % 8 == 0:
                c["xlsx"] = {"sheets": [["S1", [rng.randint(0, 3), rng.randint(1, 4)]], ["data 2", [rng.randint(0, 2)]]]}
        return cases

    def run_impl(self, case):
        base, root = L.build_tree(case["tree"])
        try:
            if case.get("xlsx"):
                import openpyxl

                wb = openpyxl.Workbook()
                wb.remove(wb.active)
                truth = []
                k = 500
                for sname, pads in case["xlsx"]["sheets"]:
                    ws = wb.create_sheet(sname)
                    row = 0
                    for pad in pads:
                        for _ in range(pad):
                            ws.append([])
                            row += 1
                        k += 1
                        truth.append([f"t{k}", sname, row])
                        for r in ([f"**t{k}"], ["all"], ["c"], ["-"], [k], []):
                            ws.append(r)
                            row += 1
                wb.save(os.path.join(root, "book.xlsx"))
                case["_xl_truth"] = truth
            obs = L.run_load(case["tree"], base, root, case["cfg"])
            obs["base"], obs["root"] = base, root
            # one forest over the tables of two loads of the same tree under two root folders (same relative names)
            if case["cfg"].get("use_root") and obs["code"] == 0 and not case.get("xlsx"):
                from pdtable.io.load import make_location_trees

                keep1, keep2 = [], []
                base2, root2 = L.build_tree(case["tree"])
                try:
                    L.run_load(case["tree"], base, root, case["cfg"], keep_tables=keep1)
                    L.run_load(case["tree"], base2, root2, case["cfg"], keep_tables=keep2)
                    if keep1 and keep2:
                        try:
                            obs["two_loads"] = [L.tree_dump(n) for n in make_location_trees(iter(keep1 + keep2))]
                            obs["two_loads_n"] = len(keep1) + len(keep2)
                        except Exception as e:
                            obs["two_loads"] = f"{type(e).__name__}: {e}"[:200]
                finally:
                    shutil.rmtree(base2, ignore_errors=True)
            # the same kind of text read from a stream, with the origin given by the caller
            import io

            from pdtable import read_csv

            tb = [b for bt, b in read_csv(io.StringIO("\n" + L.table_text(1, 0)), sep=";", origin="my source") if bt.name == "TABLE"]
            if tb:
                loc = tb[0].metadata.origin.input_location
                obs["stream_origin"] = [loc.file.load_specification.specification, loc.row, loc.sheet_name]
            # ... and with a location given as well: the location is what the tables report (the text origin is shadowed)
            from pdtable.table_origin import NullLocationFile

            ls = NullLocationFile("given file").make_location_sheet()
            with warnings.catch_warnings():
                warnings.simplefilter("ignore")
                tb2 = [b for bt, b in read_csv(io.StringIO("\n\n" + L.table_text(2, 0)), sep=";", origin="my source", location_sheet=ls)
                       if bt.name == "TABLE"]
            if tb2:
                loc2 = tb2[0].metadata.origin.input_location
                obs["stream_location"] = [loc2.file.load_specification.specification, loc2.row, loc2.sheet is ls]
            obs["nodes"] = [[p, k, pl] for p, k, pl in L.scan_fs(base, case["tree"], root)]
            obs["xl_truth"] = case.pop("_xl_truth", None)
            # ground truth rows of the csv tables
            rows = {}
            inc_rows = {}       # (file, row of the ***include cell) -> its lines
            for f in case["tree"]["files"]:
                r = 0
                for b in f["blocks"]:
                    if b["k"] == "include":
                        inc_rows[os.path.join(root, f["rel"]) + "#" + str(r)] = list(b["lines"])
                    if b["k"] == "meta":
                        r += 2
                    elif b["k"] == "table":
                        r += b["pad"]
                        rows[f"t{b['n']}"] = [os.path.join(root, f["rel"]), r]
                        r += 6
                    elif b["k"] == "include":
                        r += 2 + len(b["lines"])
                    else:
                        r += 3
            obs["truth"] = rows
            obs["inc_rows"] = inc_rows
            return obs
        finally:
            shutil.rmtree(base, ignore_errors=True)

    def oracle(self, case, obs):
        fails = []
        truth = obs["truth"]
        xl = {t[0]: t for t in (obs.get("xl_truth") or [])}
        root = obs["root"]
        tree_files = {os.path.join(root, f["rel"]): f for f in case["tree"]["files"]}
        for e in obs["events"]:
            if e[0] != "yield" or e[1] != "TABLE":
                continue
            _, _, fpath, name, row, sheet, hist = e
            if name in truth:
                wf, wr = truth[name]
                if fpath != wf:
                    fails.append(f"origin-file: table {name} reports file {os.path.basename(fpath)}, lives in {os.path.basename(wf)}")
                if row != wr:
                    fails.append(f"origin-row: table {name} reports row {row}, its '**' cell is on row {wr}")
                if sheet is not None:
                    fails.append(f"origin-sheet: csv table {name} reports sheet {sheet!r}")
            elif name in xl:
                if sheet != xl[name][1]:
                    fails.append(f"origin-sheet: table {name} reports sheet {sheet!r}, written to {xl[name][1]!r}")
                if row != xl[name][2]:
                    fails.append(f"origin-row: workbook table {name} reports row {row}, its '**' cell is on row {xl[name][2]}")
                if not fpath.endswith("book.xlsx"):
                    fails.append(f"origin-file: workbook table {name} reports file {fpath}")
            # the chain: from the file back to a root item
            if not hist or hist[-1][1] is not None:
                fails.append(f"history-root: chain of {name} does not end in a root item: {hist}")
            for (spec, src, src_row, src_file), nxt in zip(hist, hist[1:] + [None]):
                if src_row is not None and src_file in tree_files:
                    lines = obs["inc_rows"].get(f"{src_file}#{src_row}")
                    outside = os.path.join(obs["base"], "outside")
                    if lines is None:
                        fails.append(f"history-directive: item {spec!r} of {name} is said to come from row {src_row} of "
                                     f"{os.path.basename(src_file)}, where no include directive starts")
                    elif spec not in [x.replace("ABS_OUTSIDE", outside) for x in lines]:
                        fails.append(f"history-directive: item {spec!r} of {name} is not a line of the include directive at row "
                                     f"{src_row} of {os.path.basename(src_file)}")
                if src is None:
                    if spec not in obs["roots"]:
                        fails.append(f"history-root: root item {spec!r} of {name} is not one of the roots")
                    continue
                # src is the folder of the location that enqueued this item: a folder listing or an include line
                holders = [f for p, f in tree_files.items() if os.path.dirname(p) == src]
                in_include = any(spec in b["lines"] for f in holders for b in f["blocks"] if b["k"] == "include")
                in_listing = os.path.exists  # tree removed: accept names of files that lived in that folder
                is_entry = any(os.path.basename(p) == spec and os.path.dirname(p) == src for p in list(tree_files) + [os.path.join(root, "book.xlsx")])
                # ... or of a folder that lived there
                is_entry = is_entry or any(fo and os.path.join(root, fo) == os.path.join(src, spec) for fo in case["tree"]["folders"])
                if not (in_include or is_entry):
                    fails.append(f"history-link: item {spec!r} from {os.path.relpath(src, obs['base'])} matches no directive or entry there")
        # the location forest, for the tables in load order and in three other orders
        for tag, trees in [("", obs.get("trees"))] + [(k + ": ", v) for k, v in (obs.get("trees_other") or {}).items()]:
            fails += [tag + f for f in self._forest(case, obs, trees, truth, xl, root)]
        # a forest over two loads: every table still hangs beneath its own file
        tl = obs.get("two_loads")
        if isinstance(tl, str):
            fails.append(f"forest-two-loads: make_location_trees raised {tl}")
        elif tl:
            def walk(node, parent):
                if node["table"] is not None:
                    yield node, parent
                for c in node["children"]:
                    yield from walk(c, node)
            lv = [x for t in tl for x in walk(t, None)]
            if len(lv) != obs["two_loads_n"]:
                fails.append(f"forest-two-loads: {len(lv)} leaves for {obs['two_loads_n']} tables of two loads")
            for node, parent in lv:
                if parent is None or parent["id"] != node["table_file"]:
                    fails.append(f"forest-two-loads: table {node['table']} of {node['table_file']} hangs under "
                                 f"{None if parent is None else parent['id']}")
                    break
        # a stream read with an explicit origin names that origin
        so = obs.get("stream_origin")
        if so is not None and so != ["my source", 1, None]:
            fails.append(f"stream-origin: read_csv(stream, origin='my source') reports {so}")
        sl = obs.get("stream_location")
        if sl is not None and sl != ["given file", 2, True]:
            fails.append(f"stream-location: read_csv(stream, origin=..., location_sheet=given) reports {sl}, not the given location")
        return fails

    def _forest(self, case, obs, trees, truth, xl, root):
        fails = []
        if isinstance(trees, str):
            fails.append(f"trees: make_location_trees raised {trees}")
        elif trees:
            names = [e[3] for e in obs["events"] if e[0] == "yield" and e[1] == "TABLE"]
            lv = [l for t in trees for l in leaves(t)]
            if sorted(n for n, _ in lv) != sorted(names):
                fails.append(f"forest-leaves: leaves {sorted(n for n, _ in lv)} vs loaded tables {sorted(names)}")
            for n, path in lv:
                want_file = truth.get(n, [None])[0] or (os.path.join(root, "book.xlsx") if n in xl else None)
                if want_file and (len(path) < 2 or path[-2] != want_file):
                    fails.append(f"forest-file: table {n} hangs under {path[-2] if len(path) > 1 else None}, not under its file")
            for t in trees:
                for node in all_nodes(t):
                    if not node["parent_ok"]:
                        fails.append("forest-parent: a child's parent pointer does not point at the node holding it")
            ids = [node["id"] for t in trees for node in all_nodes(t) if node["table"] is None]
            if len(ids) != len(set(ids)):
                fails.append("forest-unique: a location occurs in more than one node")
        return fails

    def to_coq(self, case, obs):
        if case.get("xlsx"):
            return None
        return super().to_coq(case, obs)

    def nontrivial(self, case, obs):
        return any(e[0] == "yield" and e[1] == "TABLE" and len(e[6]) >= 2 and e[6][0][1] is not None for e in obs["events"])

    def kind(self, case, obs):
        return ("xlsx-" if case.get("xlsx") else "") + super().kind(case, obs)


PROP = C18()
