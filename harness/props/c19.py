"""C19 - Readers and writers close what they opened, and only that, on every exit path."""
from __future__ import annotations

import gc
import logging
logging.disable(logging.CRITICAL)
import io
import os
import shutil
import tempfile
import warnings

from ..core import g_bool, g_list, g_nat, g_opt, g_pair
from ..driver import Prop


BASELINE = set()


def all_fds():
    out = {}
    for fd in os.listdir("/proc/self/fd"):
        try:
            out[fd] = os.readlink(f"/proc/self/fd/{fd}")
        except OSError:
            continue
    return out


def mark_baseline():
    """Remember what is open before a case starts (interpreter, harness)."""
    BASELINE.clear()
    BASELINE.update(all_fds().items())


def open_fds(prefix):
    """Regular files this process has opened since the baseline: files under prefix, and any other file
    (e.g. a temporary file a library keeps for the workbook being written)."""
    out = []
    for fd, p in all_fds().items():
        if (fd, p) in BASELINE:
            continue
        if p.startswith(prefix) or (p.startswith("/") and not p.startswith(("/dev/", "/proc/", "/sys/"))
                                    and "/proc/self/fd" not in p and not p.endswith((".py", ".pyc", ".so"))):
            out.append(p)
    return sorted(out)


def table_csv(k, bad=False):
    v = "x" if bad else str(k)
    return f"**t{k};\nall\nc;\n-;\n{v};\n\n"


class C19(Prop):
    id = "C19"
    coq_header = "From PdV.Corr Require Import C19."
    coq_case_type = "C19.case"
    coq_check = "C19.check"
    rule = ("multi-block files (1-5 table blocks) read through read_csv (path / stream), read_excel (path / BytesIO) "
            "and load_files, consumed for every prefix length k and then exhausted / close()d / dropped, or ended by a "
            "malformed table at position k (default tracker): open descriptors on the source are read from "
            "/proc/self/fd after every event - also inside the except clause while the exception is alive - and "
            "compared with the ledger of the protocol model; write_csv / write_excel with a table that fails to "
            "serialise at each position, to a path and to a caller stream; non-trivial = a reader suspended at least once")
    assumptions = ["H_gen_finalise: CPython finalises a generator as soon as its last reference is dropped",
                   "closing(workbook) releases openpyxl's archive handle",
                   "descriptor observation through /proc/self/fd (Linux)"]

    def generate(self, rng, tier):
        cases = []
        readers = ["csv_path", "csv_stream", "xlsx_path", "xlsx_bytes", "load_files", "load_root_only"]
        # a workbook loaded through load_files whose include directive holds a number instead of a text: the
        # error comes out of the include handling, not out of a table
        for n in (1, 2, 4):
            cases.append({"reader": "load_xlsx_badinclude", "n": n + 1, "k": n + 2, "mode": "exhaust", "fault": n})
        # a workbook of several sheets read through a sheet-name pattern: only some sheets match, or none at all
        for n in (0, 1, 3):
            for k in range(0, n + 2):
                for mode in ("exhaust", "close", "drop"):
                    cases.append({"reader": "xlsx_sheets", "n": n, "k": k, "mode": mode, "fault": None})
            for f in range(n):
                # a malformed table on the selected sheet: the exception is held while descriptors are counted
                cases.append({"reader": "xlsx_sheets", "n": n, "k": n + 1, "mode": "exhaust", "fault": f})
        # load_files over a folder of m files with n tables each: one reader at a time, whatever the consumption
        for m in (2, 3):
            for n in (1, 2):
                for k in range(0, m * n + 2):
                    for mode in ("exhaust", "close", "drop"):
                        cases.append({"reader": "load_multi", "m": m, "n": n, "k": k, "mode": mode, "fault": None})
                for f in range(n):
                    cases.append({"reader": "load_multi", "m": m, "n": n, "k": m * n + 1, "mode": "exhaust", "fault": f})
        # load_files over an explicit list of files with different numbers of tables, one of them faulty in one block:
        # the files are read one at a time in the loader's own order (the work queue is popped from its end)
        for counts, (ff, fb) in [([1, 3, 2], (1, 1)), ([2, 1], (0, 0)), ([1, 2, 2], (2, 1)), ([3, 1], (1, 0)), ([2, 2, 1], (None, None))]:
            total = sum(counts)
            ks = range(0, total + 2) if ff is None else [total + 1]
            for k in ks:
                for mode in (("exhaust", "close", "drop") if ff is None else ("exhaust",)):
                    cases.append({"reader": "load_roots", "counts": counts, "n": 0, "k": k, "mode": mode,
                                  "fault": None if ff is None else fb, "fault_file": ff})
        # the path handed over as pathlib.Path or as another os.PathLike object instead of str
        for rd in ("csv_path", "xlsx_path"):
            for spell in ("Path", "PathLike"):
                for k, mode in ((0, "close"), (1, "close"), (1, "drop"), (3, "exhaust")):
                    cases.append({"reader": rd, "n": 2, "k": k, "mode": mode, "fault": None, "spell": spell})
                cases.append({"reader": rd, "n": 2, "k": 3, "mode": "exhaust", "fault": 1, "spell": spell})
        for rd in readers:
            for n in (1, 2, 3, 5) if tier == "quick" else (1, 2, 3, 4, 5, 7):
                for k in range(0, n + 1):
                    for mode in ("exhaust", "close", "drop"):
                        cases.append({"reader": rd, "n": n, "k": k, "mode": mode, "fault": None})
                for f in range(0, n):
                    cases.append({"reader": rd, "n": n, "k": n + 1, "mode": "exhaust", "fault": f})
        for target in ("path", "stream"):
            for writer in ("csv", "xlsx"):
                for n in (1, 2, 4):
                    for f in [None] + list(range(n)):
                        cases.append({"writer": writer, "target": target, "n": n, "fault": f})
                        if writer == "xlsx" and f is not None:
                            cases.append({"writer": writer, "target": target, "n": n, "fault": f, "bad": "ctrl"})
        return cases

    # ---- readers ----
    def _make_source(self, case, d):
        n, fault = case["n"], case["fault"]
        rd = case["reader"]
        if rd == "load_xlsx_badinclude":
            import openpyxl

            wb = openpyxl.Workbook()
            ws = wb.active
            for i in range(n - 1):
                for r in ([f"**t{i}"], ["all"], ["c"], ["-"], [i], []):
                    ws.append(r)
            for r in (["***include"], [12345], []):
                ws.append(r)
            path = os.path.join(d, "data.xlsx")
            wb.save(path)
            wb.close()
            return path
        if rd == "load_roots":
            sub = os.path.join(d, "roots")
            os.mkdir(sub)
            paths = []
            for j, cnt in enumerate(case["counts"]):
                pj = os.path.join(sub, f"r{j}.csv")
                with open(pj, "w") as f:
                    f.write("".join(table_csv(100 * j + i, bad=(case.get("fault_file") == j and fault == i)) for i in range(cnt)))
                paths.append(pj)
            case["_paths"] = paths
            return sub
        if rd == "load_multi":
            # every file holds the same blocks (the order in which the folder is listed does not matter)
            sub = os.path.join(d, "many")
            os.mkdir(sub)
            for j in range(case["m"]):
                with open(os.path.join(sub, f"in_{j}.csv"), "w") as f:
                    f.write("".join(table_csv(100 * j + i, bad=(fault == i)) for i in range(n)))
            return sub
        if rd.startswith("csv") or rd in ("load_files", "load_root_only"):
            path = os.path.join(d, "data.csv")
            with open(path, "w") as f:
                f.write("".join(table_csv(i, bad=(fault == i)) for i in range(n)))
            return path
        import openpyxl

        wb = openpyxl.Workbook()
        ws = wb.active
        if rd == "xlsx_sheets":
            # the tables of the case on sheet 'Sel' (none if n = 0: then no sheet matches), others on two more sheets
            for title in ("other", "more"):
                w2 = wb.create_sheet(title)
                for r in (["**u"], ["all"], ["c"], ["-"], [1], []):
                    w2.append(r)
            ws.title = "Sel" if n else "unselected"
        for i in range(n):
            for r in ([f"**t{i}"], ["all"], ["c"], ["-"], ["x" if fault == i else i], []):
                ws.append(r)
        path = os.path.join(d, "data.xlsx")
        wb.save(path)
        wb.close()
        return path

    def _run_reader(self, case):
        from pdtable import read_csv, read_excel
        from pdtable.io.load import load_files

        d = os.path.realpath(tempfile.mkdtemp(prefix="pdv_c19_"))
        obs = {"events": []}
        stream = None
        gc.collect()
        gc.disable()       # "as soon as": nothing may have to wait for the cycle collector
        try:
            path = self._make_source(case, d)
            if case.get("spell") == "Path":
                import pathlib

                path = pathlib.Path(path)
            elif case.get("spell") == "PathLike":
                class FsPath:
                    def __init__(self, p):
                        self.p = p

                    def __fspath__(self):
                        return self.p

                path = FsPath(path)
            mark_baseline()
            rd = case["reader"]
            with warnings.catch_warnings():
                warnings.simplefilter("ignore")
                if rd == "csv_path":
                    gen = read_csv(path, sep=";")
                elif rd == "csv_stream":
                    stream = open(path)
                    gen = read_csv(stream, sep=";")
                elif rd == "xlsx_path":
                    gen = read_excel(path)
                elif rd == "xlsx_sheets":
                    import re

                    gen = read_excel(path, sheet_name_pattern=re.compile("^Sel$"))
                elif rd == "xlsx_bytes":
                    stream = open(path, "rb")
                    gen = read_excel(stream)
                elif rd == "load_xlsx_badinclude":
                    gen = load_files([path])
                elif rd == "load_roots":
                    gen = load_files(case.pop("_paths"), csv_sep=";")
                elif rd == "load_multi":
                    gen = load_files([path], csv_sep=";")        # the root item is the folder
                elif rd == "load_root_only":
                    gen = load_files(root_folder=d, csv_sep=";")      # roots omitted: the root folder is the only root item
                else:
                    gen = load_files([path], csv_sep=";")
                own = lambda: len([p for p in open_fds(d)]) - (1 if stream is not None and not stream.closed else 0)
                obs["before_first_next"] = own()
                delivered = 0
                err = None
                for _ in range(case["k"]):
                    try:
                        next(gen)
                        delivered += 1
                        obs["events"].append(["next", own(), "yield"])
                    except StopIteration:
                        obs["events"].append(["next", own(), "stop"])
                        break
                    except Exception as e:
                        # sample while the exception (and its traceback) is alive ...
                        obs["events"].append(["next", own(), "raise:" + type(e).__name__])
                        err = e
                        break
                if err is not None:
                    err = None
                    gc.collect()
                    obs["after_exception_released"] = own()
                elif case["mode"] == "close":
                    gen.close()
                    obs["events"].append(["close", own(), ""])
                elif case["mode"] == "drop":
                    del gen
                    obs["events"].append(["drop", own(), ""])
                elif not (obs["events"] and obs["events"][-1][2] == "stop"):
                    while True:
                        try:
                            next(gen)
                            obs["events"].append(["next", own(), "yield"])
                        except StopIteration:
                            obs["events"].append(["next", own(), "stop"])
                            break
                gen = None
                obs["final_before_gc"] = own()
                gc.collect()
                obs["final"] = own()
                if stream is not None:
                    obs["caller_stream_closed"] = stream.closed
        except Exception as e:
            obs["harness_exc"] = f"{type(e).__name__}: {e}"[:200]
        finally:
            gc.enable()
            if stream is not None and not stream.closed:
                stream.close()
            shutil.rmtree(d, ignore_errors=True)
        return obs

    # ---- writers ----
    def _run_writer(self, case):
        import pandas as pd
        from pdtable import Table, write_csv, write_excel

        d = os.path.realpath(tempfile.mkdtemp(prefix="pdv_c19w_"))
        obs = {}

        class Boom:
            def __str__(self):
                raise RuntimeError("cannot serialise")

        bad_cell = Boom() if case.get("bad", "boom") == "boom" else "x\x0by"     # a character a workbook cannot hold

        def tables():
            for i in range(case["n"]):
                if case["fault"] == i:
                    t = Table(pd.DataFrame({"c": ["a"]}), name=f"t{i}", units=["text"])
                    t.df["c"] = pd.Series([bad_cell], dtype=object)
                    yield t
                else:
                    yield Table(pd.DataFrame({"c": [float(i)]}), name=f"t{i}", units=["-"])

        path = os.path.join(d, "out." + case["writer"])
        stream = None
        gc.collect()
        gc.disable()
        mark_baseline()
        try:
            with warnings.catch_warnings():
                warnings.simplefilter("ignore")
                if case["target"] == "stream":
                    stream = open(path, "w") if case["writer"] == "csv" else open(path, "wb")
                target = stream if stream is not None else path
                try:
                    if case["writer"] == "csv":
                        write_csv(tables(), target, sep=";")
                    else:
                        write_excel(list(tables()), target)
                    obs["raised"] = None
                except Exception as e:
                    obs["raised"] = type(e).__name__
                    obs["open_during_exception"] = len(open_fds(d)) - (1 if stream is not None and not stream.closed else 0)
                gc.collect()
                obs["open_after"] = len(open_fds(d)) - (1 if stream is not None and not stream.closed else 0)
                obs["file_exists"] = os.path.exists(path)
                if stream is not None:
                    obs["caller_stream_closed"] = stream.closed
        finally:
            gc.enable()
            if stream is not None and not stream.closed:
                stream.close()
            shutil.rmtree(d, ignore_errors=True)
        return obs

    def run_impl(self, case):
        return self._run_writer(case) if "writer" in case else self._run_reader(case)

    def oracle(self, case, obs):
        fails = []
        if "harness_exc" in obs:
            return [f"harness: {obs['harness_exc']}"]
        if "writer" in case:
            if case["fault"] is not None and obs["raised"] is None:
                fails.append("writer-fault: the failing table did not fail")
            if obs.get("open_during_exception", 0) != 0:
                fails.append(f"writer-leak: {case['writer']} writer holds its file while the error propagates")
            if obs["open_after"] != 0:
                fails.append(f"writer-leak: {case['writer']} writer left its file open")
            if obs.get("caller_stream_closed"):
                fails.append("caller-stream: the writer closed the caller's stream")
            return fails
        owns = case["reader"] in ("csv_path", "xlsx_path", "xlsx_sheets", "load_files", "load_xlsx_badinclude", "load_root_only", "load_multi", "load_roots")
        if obs["before_first_next"] != 0:
            fails.append("early-open: a file is open before the first block is requested")
        for kind, n, how in obs["events"]:
            if how == "yield":
                if n != (1 if owns else 0):
                    fails.append(f"suspended: {n} descriptors while suspended ({case['reader']}), expected {1 if owns else 0}")
            elif n != 0:
                fails.append(f"leak-{kind}-{how.split(':')[0]}: {n} descriptor(s) still open after {kind} ({how}) on {case['reader']}")
        if obs.get("after_exception_released", 0) != 0:
            fails.append("leak-after-error: descriptor open after the error was released")
        if obs.get("final_before_gc", 0) != 0:
            fails.append(f"leak-final: {obs['final_before_gc']} descriptor(s) open at the end until the cycle collector runs "
                         f"({case['reader']}, {case['mode']})")
        if obs.get("final", 0) != 0:
            fails.append(f"leak-final: {obs['final']} descriptor(s) open at the end ({case['reader']}, {case['mode']})")
        if obs.get("caller_stream_closed"):
            fails.append("caller-stream: the reader closed the caller's stream")
        if case["fault"] is not None and not any(h.startswith("raise") for _, _, h in obs["events"]):
            fails.append("fault: the malformed block did not raise")
        return fails

    def to_coq(self, case, obs):
        if "writer" in case or "harness_exc" in obs:
            return None
        owns = case["reader"] in ("csv_path", "xlsx_path", "xlsx_sheets", "load_files", "load_xlsx_badinclude", "load_root_only", "load_multi", "load_roots")
        evs = []
        for kind, n, how in obs["events"]:
            out = {"yield": "Yielded", "stop": "Stopped"}.get(how, "Raised" if how.startswith("raise") else "Nothing")
            evs.append(g_pair(g_pair({"next": "GNext", "close": "GClose", "drop": "GDrop"}[kind], g_nat(n)), out))
        r = (f"{{| r_blocks := {g_nat(case['n'])}; r_fault := {g_opt(None if case['fault'] is None else g_nat(case['fault']))}; "
             f"r_owns := {g_bool(owns)} |}}")
        if case["reader"] == "load_multi":
            return f"(KMany {g_list([r] * case['m'])} {g_list(evs)})"
        if case["reader"] == "load_roots":
            # reading order: the work queue is popped from its end
            rs = []
            for j in reversed(range(len(case["counts"]))):
                fj = case["fault"] if case.get("fault_file") == j else None
                rs.append(f"{{| r_blocks := {g_nat(case['counts'][j])}; r_fault := {g_opt(None if fj is None else g_nat(fj))}; r_owns := true |}}")
            return f"(KMany {g_list(rs)} {g_list(evs)})"
        return f"(KOne {r} {g_list(evs)})"

    def nontrivial(self, case, obs):
        return "writer" in case or any(h == "yield" for _, _, h in obs.get("events", []))

    def kind(self, case, obs):
        return case.get("reader", "write_" + case.get("writer", "")) + "-" + (case.get("mode") or "") + ("-fault" if case.get("fault") is not None else "")


PROP = C19()
