"""C12 - Malformed input is reported as a located input error, never an internal crash."""
from __future__ import annotations

import copy
import random

from .. import cells as C
from .. import readsys as R
from .. import sheets as S
from ..driver import Prop
from .c03 import ref_kind


def strip_origin(e):
    e = dict(e)
    e.pop("origin", None)
    e.pop("err", None)
    e.pop("warn", None)
    e.pop("idx", None)
    return e


class C12(Prop):
    id = "C12"
    coq_header = "From PdV.Corr Require Import Read."
    rule = ("valid multi-block sheets (text and native cells, all column kinds, both orientations) with 1-2 injected "
            "faults: truncation at row and at character granularity, row deleted / duplicated / shortened, one cell "
            "replaced from a 20-entry fault alphabet (emptied, letters, markers, None, int, float, bool, datetime, date); "
            "default (raising) and collecting trackers; three output forms; quick also enumerates every single fault of "
            "4 seed sheets; non-trivial = the fault changed the outcome class or a block; distinct = distinct faulted grids")
    assumptions = [
        "rows are lists/tuples of scalar cells (str, int, float, bool, datetime, None, other objects); a None row is outside the quantifier",
        "fewer than 1000 equally named columns (the duplicate-name fixer then always finds a free name)",
    ]

    def corpus(self):
        base = [["**a"], ["all"], ["c"], ["m"], ["1"]]
        return [
            {"rows": [["**a"]], "cfg": {"raising": True, "form": "pdtable"}, "fault": "truncate@1"},
            {"rows": [["**a*"], ["all"], ["c"]], "cfg": {"raising": True, "form": "pdtable"}, "fault": "shorten-row"},
            {"rows": [["**a"], ["all"], [{"i": 5}], ["m"], ["1"]], "cfg": {"raising": True, "form": "pdtable"}, "fault": "cell"},
            {"rows": [["**a"], ["all"], ["c"], [None], ["1"]], "cfg": {"raising": True, "form": "jsondata"}, "fault": "cell"},
            {"rows": [["**a"], ["all"], ["c"], ["m"], ["x"], [], ["**b"], ["all"], ["c"], ["m"], ["2"]],
             "cfg": {"raising": False, "form": "pdtable"}, "fault": "cell"},
            {"rows": [["k:", None], ["**a"], ["all"], ["c", "d"], ["m"], ["1", "2"]], "cfg": {"raising": True, "form": "pdtable"}, "fault": "cell"},
            {"rows": [[{"i": 3}, "x"], ["k:", {"f": "0x1.8p+0"}]] + base, "cfg": {"raising": True, "form": "pdtable"}, "fault": "cell"},
        ] + [
            # a datetime cell mistyped into a timestamp that does not fit the column (zone offset / out of range / finer
            # resolution), before an undamaged table; every form and tracker
            {"rows": [["**a"], ["all"], ["d", "x"], ["datetime", "m"], ["2020-01-02", "1"], [bad, "2"], [],
                      ["**b"], ["all"], ["c"], ["m"], ["2"]],
             "cfg": {"raising": raising, "form": form}, "fault": "cell"}
            for bad in ("2020-01-01T00:00:00+01:00", "0001-01-01", "2020-01-02 00:00:00.000000001")
            for raising in (True, False) for form in ("pdtable", "jsondata")
        ]

    def generate(self, rng, tier):
        n = 1500 if tier == "quick" else 20000
        cases = []
        for i in range(n):
            native = rng.random() < 0.4
            rows, _ = S.gen_sheet(rng, native=native)
            descr = []
            for _ in range(rng.choice([1, 1, 1, 2])):
                rows, d = S.fault(rng, rows, text_only=not native)
                descr.append(d)
            cfg = {"raising": rng.random() < 0.6, "form": rng.choice(["pdtable", "pdtable", "jsondata", "cellgrid"])}
            case = {"rows": rows, "cfg": cfg, "fault": ",".join(descr), "tuples": native and rng.random() < 0.3}
            if not native and rng.random() < 0.25:
                # character-granularity truncation of the CSV text (a writer that died mid-file)
                txt = "\n".join(";".join(c for c in r) for r in rows if all(";" not in c and "\n" not in c for c in r))
                k = rng.randint(0, len(txt))
                case["rows"] = [ln.split(";") for ln in txt[:k].split("\n")] if txt[:k] else []
                case["fault"] += f",chars@{k}"
            cases.append(case)
        # every single fault of a few seed sheets (exhaustive over (cell, fault) pairs and truncations)
        nseeds = 2 if tier == "quick" else 8
        srng = random.Random(7)
        for s in range(nseeds):
            native = s % 2 == 1
            rows, _ = S.gen_sheet(srng, native=native, max_tables=2, extras=(s % 4 < 2))
            rows = ([["**head"], ["all"], ["p", "q"], ["m", "m"], [{"i": 1}, {"i": 2}] if native else ["1", "2"], []]
                    + rows[:14] + [[], ["**tail"], ["all"], ["z"], ["-"], [{"i": 1}] if native else ["1"]])
            for i in range(len(rows) + 1):
                cases.append({"rows": rows[:i], "cfg": {"raising": True, "form": "pdtable"}, "fault": f"truncate@{i}"})
            for i in range(len(rows)):
                for raising in (True, False):
                    cfg = {"raising": raising, "form": "pdtable"}
                    cases.append({"rows": rows[:i] + rows[i + 1:], "cfg": cfg, "fault": f"delete-row@{i}", "tuples": native})
                    cases.append({"rows": rows[:i] + [rows[i]] + rows[i:], "cfg": cfg, "fault": f"duplicate-row@{i}", "tuples": native})
                    if len(rows[i]) > 1:
                        cases.append({"rows": rows[:i] + [rows[i][:-1]] + rows[i + 1:], "cfg": cfg, "fault": f"shorten-row@{i}", "tuples": native})
            for i, r in enumerate(rows):
                for j in range(len(r)):
                    for fc in S.FAULT_CELLS:
                        if not native and not isinstance(fc, str):
                            continue
                        rr = copy.deepcopy(rows)
                        rr[i][j] = fc
                        cases.append({"rows": rr, "cfg": {"raising": (i + j) % 2 == 0, "form": "pdtable"}, "fault": f"cell@{i},{j}"})
        return cases

    def _rcase(self, case, **over):
        # every fourth case is read through a filter that accepts everything (the filter wrapper then sees every block)
        flt = {"invert": True, "pairs": []} if (len(case["rows"]) + len(str(case.get("fault")))) % 4 == 0 else None
        rc = {"rows": case["rows"], "form": case["cfg"]["form"], "raising": case["cfg"]["raising"], "fixer": "strict",
              "filter": flt, "tuples": case.get("tuples", False)}
        rc.update(over)
        return rc

    def run_impl(self, case):
        obs = R.run_reader(self._rcase(case))
        fin = obs["final"]
        rows = case["rows"]
        if fin[0] == 1 and 0 <= fin[1] <= len(rows):
            # the blocks before the error, read from the rows that precede the failing block
            obs["before"] = R.run_reader(self._rcase(case, rows=rows[: fin[1]]))
        if not case["cfg"]["raising"] and fin[0] == 0:
            # each block on its own: what a collecting reader must deliver
            issues = [e["origin"] for e in obs["events"] if e["k"] == "issue"]
            obs["alone"] = {}
            for o in issues:
                # rows of the failing block: from its origin to the next block start
                end = o + 1
                while end < len(rows) and ref_kind(C.rows_to_py([rows[end]])[0]) == "plain":
                    end += 1
                obs["alone"][str(o)] = R.run_reader(self._rcase(case, rows=rows[o:end], raising=True))["final"][:2]
                obs.setdefault("after", {})[str(o)] = R.run_reader(self._rcase(case, rows=[["***x"]] + rows[end:], raising=False))["events"][1:]
        return obs

    def oracle(self, case, obs):
        fails = []
        fin = obs["final"]
        rows = case["rows"]
        if fin[0] == 2:
            return [f"crash-{fin[2].split(':')[0]}: escaped the reader ({case['fault']}): {fin[2][:160]}"]
        if fin[0] == 1:
            o = fin[1]
            if not (0 <= o < len(rows)) or not (rows[o] and isinstance(rows[o][0], str) and rows[o][0].startswith("**")):
                fails.append(f"location: InputError located at row {o}, which does not start a table block")
            b = obs.get("before")
            if b is not None:
                if b["final"][0] != 0:
                    fails.append("before: rows preceding the failing block do not read cleanly")
                elif [strip_origin(e) for e in b["events"]] != [strip_origin(e) for e in obs["events"]]:
                    fails.append("before: blocks delivered before the error differ from the blocks of the preceding rows")
                elif [e.get("origin") for e in b["events"]] != [e.get("origin") for e in obs["events"]]:
                    fails.append("before: origins of the blocks before the error differ")
        for e in obs["events"]:
            if e["k"] == "issue":
                o = e["origin"]
                if e["severity"] < 40:
                    fails.append("severity: issue below ERROR")
                if not (0 <= o < len(rows)) or not (rows[o] and isinstance(rows[o][0], str) and rows[o][0].startswith("**")):
                    fails.append(f"location: issue located at row {o}, which does not start a table block")
                alone = obs.get("alone", {}).get(str(o))
                if alone is not None and alone[0] != 1:
                    fails.append("collect: a block reported as faulty reads cleanly on its own")
        if not case["cfg"]["raising"] and fin[0] == 0 and obs.get("after"):
            # the blocks after the last issue are exactly the blocks of the remaining rows
            last = max(int(k) for k in obs["after"])
            evs = obs["events"]
            pos = max(i for i, e in enumerate(evs) if e["k"] == "issue" and e["origin"] == last)
            tail = [strip_origin(e) for e in evs[pos + 1 :]]
            want = [strip_origin(e) for e in obs["after"][str(last)]]
            if tail != want:
                fails.append("collect: blocks after the damaged block differ from the blocks of the remaining rows")
        return fails

    def to_coq(self, case, obs):
        return R.case_to_coq(self._rcase(case), obs)

    def nontrivial(self, case, obs):
        return obs.get("final", [0])[0] != 0 or any(e["k"] == "issue" for e in obs.get("events", []))

    def kind(self, case, obs):
        f = obs.get("final", [9])[0]
        return case["fault"].split("@")[0].split(",")[0] + ":" + {0: "ok", 1: "inputerror", 2: "crash"}.get(f, "?")

    def shrink(self, case):
        rows = case["rows"]
        for i in range(len(rows)):
            yield {**case, "rows": rows[:i] + rows[i + 1 :]}
        for i, r in enumerate(rows):
            if len(r) > 1:
                yield {**case, "rows": rows[:i] + [r[:-1]] + rows[i + 1 :]}


    def py_sweeps(self, tier):
        """The same clauses through read_excel: a damaged table anywhere in a two-sheet workbook."""
        import os
        import tempfile
        import warnings

        import openpyxl
        from pdtable import read_excel
        from pdtable.table_origin import InputError

        fails, n = [], 0
        good = lambda k: [[f"**t{k}"], ["all"], ["c", "d"], ["-", "text"], [k, "x"], []]
        damages = {"number-as-unit": lambda k: [[f"**t{k}"], ["all"], ["c", "d"], [5, "text"], [k, "x"], []],
                   "no-units": lambda k: [[f"**t{k}"], ["all"], ["c", "d"], []],
                   "illegal-number": lambda k: [[f"**t{k}"], ["all"], ["c", "d"], ["-", "text"], ["oops", "x"], []]}
        layout = [("first", [1, 2]), ("second", [3, 4, 5])]
        d = tempfile.mkdtemp(prefix="pdv_c12x_")
        try:
            for dname, dmg in damages.items():
                for bad in (1, 2, 3, 4, 5):
                    wb = openpyxl.Workbook()
                    wb.remove(wb.active)
                    where = {}
                    for sname, ks in layout:
                        ws = wb.create_sheet(sname)
                        row = 0
                        for k in ks:
                            where[k] = (sname, row)
                            for r in (dmg(k) if k == bad else good(k)):
                                ws.append(r)
                                row += 1
                    path = os.path.join(d, f"{dname}_{bad}.xlsx")
                    wb.save(path)
                    wb.close()
                    n += 1
                    with warnings.catch_warnings():
                        warnings.simplefilter("ignore")
                        # default tracker: the tables before the damaged one arrive, then a located InputError
                        got, err = [], None
                        try:
                            for bt, b in read_excel(path):
                                if bt.name == "TABLE":
                                    got.append(b.name)
                        except InputError as e:
                            err = e
                        except Exception as e:
                            fails.append(f"xlsx {dname}@t{bad}: {type(e).__name__} escaped read_excel")
                            continue
                        want = [f"t{k}" for k in (1, 2, 3, 4, 5) if k < bad]
                        if err is None:
                            fails.append(f"xlsx {dname}@t{bad}: no InputError")
                        elif got != want:
                            fails.append(f"xlsx {dname}@t{bad}: tables {got} delivered before the error, expected {want}")
                        else:
                            loc = getattr(err.args[0], "load_location", None)
                            sheet = getattr(getattr(loc, "sheet", None), "sheet_name", None) or getattr(loc, "sheet_name", None)
                            if getattr(loc, "row", None) != where[bad][1] or sheet != where[bad][0]:
                                fails.append(f"xlsx {dname}@t{bad}: error located at sheet {sheet!r} row {getattr(loc, 'row', None)}, "
                                             f"the table starts at sheet {where[bad][0]!r} row {where[bad][1]}")
                        # collecting tracker: every other table arrives, one issue
                        tr = R.make_tracker(False)
                        try:
                            names = [b.name for bt, b in read_excel(path, issue_tracker=tr) if bt.name == "TABLE"]
                            if names != [f"t{k}" for k in (1, 2, 3, 4, 5) if k != bad] or len(tr.issues) != 1:
                                fails.append(f"xlsx {dname}@t{bad}: collecting read gave tables {names} and {len(tr.issues)} issue(s)")
                        except Exception as e:
                            fails.append(f"xlsx {dname}@t{bad}: collecting read raised {type(e).__name__}")
        finally:
            import shutil

            shutil.rmtree(d, ignore_errors=True)
        return fails, {"xlsx_damaged_workbooks": n}


PROP = C12()
