"""C20 - A TableBundle holds exactly the table blocks, in order, findable by name."""
from __future__ import annotations

import random

from ..core import g_bool, g_list, g_nat, g_opt, g_pair, g_str, g_Z
from ..driver import Prop

REPRS = ["table", "frame", "json", "grid"]
NAMES = ["a", "b", "foo", "t1", "a_b", "æ", "x*y", "_s", "__d", "T", "a.b", "unique", "all"]
# table names that are also attributes of the bundle class: bundle.<name> is the method, by the rules of the
# language; lookup by item, by unique() and by all() must work for them like for any other name
RESERVED = {"unique", "all"}
OTHER_TYPES = ["METADATA", "DIRECTIVE", "TEMPLATE_ROW", "BLANK"]


class C20(Prop):
    id = "C20"
    coq_header = "From PdV.Corr Require Import C20."
    rule = ("block sequences of 0..12 blocks (TABLE and the four other types) with table names drawn from a small pool "
            "(random multiplicities), in the four representations Table / TableDataFrame / jsondata / cellgrid "
            "(cell grids row-wise and transposed; a separate malformed stream has one-row grids and '** x' cells); "
            "non-trivial = at least two TABLE blocks; distinct = distinct (sequence, representation)")
    assumptions = [
        "names of cell-grid tables contain no whitespace (the bundle takes the first whitespace-free run after '**')",
        "TABLE blocks supplied to the bundle are Tables, dicts with a str 'name', or lists whose first cell is a str",
    ]

    def generate(self, rng, tier):
        n = 1200 if tier == "quick" else 12000
        cases = []
        for i in range(n):
            rep = REPRS[i % 4]
            nb = rng.choice([0, 1, 2, 3, 5, 8, 12])
            pool = rng.sample(NAMES, rng.randint(1, 4))
            blocks = []
            for _ in range(nb):
                if rng.random() < 0.7:
                    b = {"t": "TABLE", "name": rng.choice(pool), "transposed": rng.random() < 0.4}
                    if rep == "grid" and rng.random() < 0.04:
                        b["malformed"] = rng.choice(["onerow", "space"])
                    blocks.append(b)
                else:
                    blocks.append({"t": rng.choice(OTHER_TYPES)})
            queries = sorted(set(pool + [rng.choice(NAMES), "zzz", "a*"]))
            cases.append({"rep": rep, "blocks": blocks, "queries": queries})
        return cases

    def corpus(self):
        return [
            {"rep": "grid", "blocks": [{"t": "TABLE", "name": "a", "transposed": True}, {"t": "TABLE", "name": "b", "transposed": False}],
             "queries": ["a", "a*", "b"]},
            {"rep": "table", "blocks": [{"t": "TABLE", "name": "a", "transposed": False}, {"t": "BLANK"},
                                        {"t": "TABLE", "name": "a", "transposed": False}], "queries": ["a", "b"]},
        ]

    def _mk(self, rep, b, k):
        import pandas as pd
        from pdtable import Table

        if b["t"] != "TABLE":
            return object()
        name = b["name"]
        if rep in ("table", "frame"):
            # column labels that shadow attributes of a data frame ("name", "index", "shape") must not matter
            col = ["c", "name", "index", "shape", "T"][k % 5]
            return Table(pd.DataFrame({col: [k, k + 1]}), name=name, units=["-"], transposed=b["transposed"])
        if rep == "json":
            return {"name": name, "destinations": {"all": None}, "columns": {"c": {"unit": "-", "values": [k]}}}
        cell0 = "**" + name + ("*" if b["transposed"] else "")
        if b.get("malformed") == "onerow":
            return [[cell0]]
        if b.get("malformed") == "space":
            cell0 = "** " + name
        return [[cell0], ["all"], ["c"], ["-"], [k]]

    def run_impl(self, case):
        from pdtable import BlockType, TableBundle
        from pdtable.store import TableNameNotUniqueInBundleError

        rep = case["rep"]
        objs = [self._mk(rep, b, k) for k, b in enumerate(case["blocks"])]
        stream = [(BlockType[b["t"]], o) for b, o in zip(case["blocks"], objs)]
        try:
            bundle = TableBundle(iter(stream), as_dataframe=(rep == "frame"))
        except NotImplementedError:
            return {"built": False}
        ident = {}
        for k, o in enumerate(objs):
            ident[id(o.df if rep == "frame" and hasattr(o, "df") else o)] = k
        obs = {"built": True}
        obs["iter"] = [ident.get(id(t), -1) for t in bundle]
        obs["len"] = len(bundle)
        q = []
        for n in case["queries"]:
            r = {}
            for how in ("unique", "item", "attr"):
                try:
                    if how == "attr" and n in RESERVED:
                        how_eff = "item"        # attribute lookup is not defined for such a name: item lookup is observed twice
                    else:
                        how_eff = how
                    t = bundle.unique(n) if how_eff == "unique" else (bundle[n] if how_eff == "item" else getattr(bundle, n))
                    r[how] = ["found", ident.get(id(t), -1)]
                except TableNameNotUniqueInBundleError:
                    r[how] = ["notunique"]
                except KeyError:
                    r[how] = ["keyerror"] if not (how == "attr" and n in RESERVED) else ["attributeerror"]
                except AttributeError:
                    r[how] = ["attributeerror"]
                except Exception as e:       # any other exception is not one of the documented answers
                    r[how] = ["raised", type(e).__name__]
            try:
                r["all"] = [ident.get(id(t), -1) for t in bundle.all(n)]
            except Exception as e:
                r["all"] = ["raised", type(e).__name__]
            r["in"] = n in bundle
            q.append(r)
        obs["queries"] = q
        m = len(case["blocks"])
        idx = []
        for i in range(-m - 2, m + 2):
            try:
                idx.append(ident.get(id(bundle[i]), -1))
            except IndexError:
                idx.append(None)
        obs["index"] = idx
        obs["len_after"] = len(bundle)
        return obs

    def oracle(self, case, obs):
        blocks = case["blocks"]
        malformed = any(b.get("malformed") for b in blocks)
        if malformed:
            return [] if not obs["built"] else ["malformed: a grid without extractable name was accepted"]
        if not obs["built"]:
            return ["construct: NotImplementedError for well-formed table blocks"]
        fails = []
        tabs = [k for k, b in enumerate(blocks) if b["t"] == "TABLE"]
        if obs["iter"] != tabs:
            fails.append(f"contents: iteration gives {obs['iter']}, table blocks are {tabs}")
        if obs["len"] != len(tabs) or obs["len_after"] != len(tabs):
            fails.append(f"len: {obs['len']} != {len(tabs)}")
        m = len(blocks)
        for i, got in zip(range(-m - 2, m + 2), obs["index"]):
            want = tabs[i] if -len(tabs) <= i < len(tabs) else None
            if got != want:
                fails.append(f"index: bundle[{i}] gives {got}, expected {want}")
                break
        for n, r in zip(case["queries"], obs["queries"]):
            same = [k for k in tabs if blocks[k]["name"] == n]
            if r["all"] != same:
                fails.append(f"all: all({n!r}) gives {r['all']}, expected {same}")
            if r["in"] != bool(same):
                fails.append(f"in: ({n!r} in bundle) is {r['in']}")
            want = {0: None, 1: ["found", same[0] if same else None]}.get(len(same), ["notunique"])
            for how, miss in (("unique", "keyerror"), ("item", "keyerror"), ("attr", "attributeerror")):
                w = want if want is not None else [miss]
                if r[how] != w:
                    fails.append(f"lookup-{how}: {n!r} gives {r[how]}, expected {w}")
        return fails

    def finding_key(self, case, obs, failure):
        return None

    def to_coq(self, case, obs):
        if any("raised" in (r["all"][:1] + r["unique"][:1] + r["item"][:1] + r["attr"][:1]) for r in obs.get("queries", [])):
            return None          # an undocumented exception: reported by the oracle, nothing to compare
        rep = case["rep"]
        bl = []
        for k, b in enumerate(case["blocks"]):
            if b["t"] != "TABLE":
                bl.append(g_pair("false", f"IObj {g_nat(k)} []"))
            elif rep != "grid":
                bl.append(g_pair("true", f"IObj {g_nat(k)} {g_str(b['name'])}"))
            else:
                cell0 = "**" + b["name"] + ("*" if b["transposed"] else "")
                nrows = 5
                if b.get("malformed") == "onerow":
                    nrows = 1
                if b.get("malformed") == "space":
                    cell0 = "** " + b["name"]
                bl.append(g_pair("true", f"IGrid {g_nat(k)} {g_nat(nrows)} {g_str(cell0)}"))
        m = len(case["blocks"])
        idxs = list(range(-m - 2, m + 2))
        if not obs["built"]:
            o = "None"
        else:
            qr = []
            for r in obs["queries"]:
                u = r["unique"]
                code, fid = {"found": (0, u[1] if len(u) > 1 else 0), "notunique": (1, 0), "keyerror": (2, 0)}[u[0]]
                qr.append(g_pair(g_pair(g_pair(str(code), g_nat(fid)), g_list([g_nat(x) for x in r["all"]])), g_bool(r["in"])))
            ir = [g_opt(None if x is None else g_nat(x)) for x in obs["index"]]
            o = "(Some " + g_pair(g_pair(g_pair(g_list([g_nat(x) for x in obs["iter"]]), g_nat(obs["len"])), g_list(qr)), g_list(ir)) + ")"
        return g_pair(g_pair(g_pair(g_list(bl), g_list([g_str(q) for q in case["queries"]])), g_list([g_Z(i) for i in idxs])), o)

    def nontrivial(self, case, obs):
        return sum(1 for b in case["blocks"] if b["t"] == "TABLE") >= 2

    def kind(self, case, obs):
        return case["rep"] + ("" if obs.get("built", True) else ":notbuilt")

    def shrink(self, case):
        bl = case["blocks"]
        for i in range(len(bl)):
            yield {**case, "blocks": bl[:i] + bl[i + 1 :]}
        for i in range(len(case["queries"])):
            if len(case["queries"]) > 1:
                yield {**case, "queries": case["queries"][:i] + case["queries"][i + 1 :]}


PROP = C20()
