"""C01 - CSV write-then-read preserves every well-formed table bundle."""
from __future__ import annotations

import copy
import io
import os
import random
import tempfile
import warnings

from .. import cells as C
from .. import readsys as R
from .. import tables as T
from ..core import g_bool, g_list, g_opt, g_pair, g_str
from ..driver import Prop

SEPS = [";", ";", ",", "|", "\t", "~", "#", "Q"]


def g_wval(cell, kind):
    import pandas as pd

    v = T.cell_py(cell)
    if kind == "text":
        return f"WText {g_str(v)}"
    if kind == "onoff":
        return f"WBool {g_bool(v)}"
    if kind == "datetime":
        if v is pd.NaT:
            return f"WMissing {g_str('NaT')}"
        return f"WDate ({C.dt_ns(v)})%Z {g_str(str(v.to_pydatetime()))}"
    if kind == "int":
        return f"WNum {C.canon_fbits(float(v))} {g_str(str(int(v)))}"
    if v != v:
        return f"WMissing {g_str('nan')}"
    return f"WNum {C.canon_fbits(v)} {g_str(str(float(v)))}"


def g_wtable(spec, dests_order):
    cols = g_list([f"(mkcol {g_str(c['name'])} {g_str(c['unit'])} {g_list([g_wval(v, c['kind']) for v in c['values']])})"
                   for c in spec["cols"]])
    return f"(mktab {g_str(spec['name'])} {g_list([g_str(d) for d in dests_order])} {g_bool(spec['transposed'])} {cols})"


class C01(Prop):
    id = "C01"
    coq_header = "From PdV.Corr Require Import C01."
    coq_case_type = "C01.case"
    coq_check = "C01.check"
    rule = ("bundles of 1-4 well-formed tables (DESIGN section 3): column-kind tuples over text / onoff / datetime / float "
            "/ int, 0-6 rows, both orientations, odd text (leading / trailing blanks, unicode, quotes, empty strings, marker "
            "look-alikes outside the first column), NaN / NaT / +-inf / integers up to 2^53, separators ; , | TAB ~ # Q "
            "absent from the data, explicit separator or package default, file path or text stream; thorough adds the "
            "exhaustive sweep over kind tuples of length <= 2 x rows <= 2 x orientation; non-trivial = a table with data "
            "rows; distinct = distinct (bundle, separator)")
    assumptions = [
        "H_float_roundtrip: float(str(x)) == x for binary64 and ints up to 2^53 (sampled through the lookup tables of each case)",
        "H_dt_roundtrip: pd.to_datetime(str(ts)) == ts for microsecond timestamps",
        "no display format on any column (DESIGN section 3.8)",
    ]

    def _wf(self, spec, sep):
        """DESIGN section 3 for separator sep (the generator aims at it; this filters the rest)."""
        import pandas as pd

        bad = lambda s: sep in s or "\n" in s or "\r" in s
        if bad(spec["name"]) or any(bad(d) for d in spec["dests"]):
            return False
        for j, c in enumerate(spec["cols"]):
            if bad(c["name"]) or bad(c["unit"]):
                return False
            for v in c["values"]:
                pv = T.cell_py(v)
                s = pv if isinstance(pv, str) else ("-" if (pv is pd.NaT or (isinstance(pv, float) and pv != pv)) else str(pv))
                if bad(s):
                    return False
                if j == 0 and (not s.strip() or T.is_marker(s)):
                    return False
        return True

    def generate(self, rng, tier):
        n = 450 if tier == "quick" else 8000
        cases = []
        while len(cases) < n:
            sep = rng.choice(SEPS)
            nt = rng.choice([1, 1, 2, 3, 4])
            specs = [T.gen_table(rng, sep=sep, bigint=False, empty_rate=0.05) for _ in range(nt)]
            if not all(self._wf(s, sep) for s in specs):
                continue
            for t in specs:
                if rng.random() < 0.15:
                    t["index"] = rng.choice(T.INDEX_KINDS)
            cases.append({"sep": sep, "tables": specs, "default_sep": rng.random() < 0.3, "path": rng.random() < 0.3,
                          # how the tables are handed to write_csv, the missing-value marker, the line ends of the file
                          "how": rng.choice(["list", "list", "generator", "tuple", "bundle", "single", "iter"]),
                          "na_rep": rng.choice([None, None, None, "NaN", "nan", "NAN", "-"]),
                          "crlf": rng.random() < 0.3})
        if tier == "thorough":
            import itertools

            for kinds in itertools.chain(itertools.product(T.KINDS, repeat=1), itertools.product(T.KINDS, repeat=2)):
                for nrows in (0, 1, 2):
                    for tr in (False, True):
                        r = random.Random(hash((kinds, nrows, tr)) & 0xFFFF)
                        cols = [T.gen_col(r, k, nrows, ";", first_col=(j == 0), name="ab"[j], bigint=False) for j, k in enumerate(kinds)]
                        spec = {"name": "t", "dests": ["all"], "transposed": tr, "cols": cols}
                        if self._wf(spec, ";"):
                            cases.append({"sep": ";", "tables": [spec], "default_sep": False, "path": False})
        return cases

    def corpus(self):
        return [{"sep": ";", "default_sep": False, "path": False, "tables": [
            {"name": "t", "dests": ["all"], "transposed": True, "cols": [
                {"name": "a", "unit": "m", "kind": "float", "values": [{"f": (1.0).hex()}, {"f": (2.0).hex()}]},
                {"name": "s", "unit": "text", "kind": "text", "values": ["", "x"]}]}]}]

    def run_impl(self, case):
        import pdtable
        from pdtable import read_csv, write_csv

        sep = case["sep"]
        tabs = [T.build_table(s) for s in case["tables"]]
        before = [T.extract(t) for t in tabs]
        dests_order = [list(t.metadata.destinations) for t in tabs]
        obs = {"dests_order": dests_order}
        old = pdtable.CSV_SEP
        tmp = None
        try:
            with warnings.catch_warnings():
                warnings.simplefilter("ignore")
                kw = {}
                if case["default_sep"]:
                    pdtable.CSV_SEP = sep
                else:
                    kw["sep"] = sep
                how = case.get("how", "list")
                if how == "single" and len(tabs) != 1:
                    how = "list"
                if how == "bundle":
                    from pdtable import TableBundle
                    from pdtable.io.parsers.blocks import BlockType

                    arg = TableBundle((BlockType.TABLE, t) for t in tabs)
                else:
                    arg = {"list": lambda: tabs, "generator": lambda: (t for t in tabs), "tuple": lambda: tuple(tabs),
                           "single": lambda: tabs[0], "iter": lambda: iter(tabs)}[how]()
                wkw = dict(kw)
                if case.get("na_rep") is not None:
                    wkw["na_rep"] = case["na_rep"]
                if case["path"]:
                    fd, tmp = tempfile.mkstemp(suffix=".csv", prefix="pdv_c01_")
                    os.close(fd)
                    write_csv(arg, tmp, **wkw)
                    text = open(tmp, newline="").read()
                    if case.get("crlf"):
                        with open(tmp, "w", newline="") as f:       # the same file with DOS line ends
                            f.write(text.replace("\r\n", "\n").replace("\n", "\r\n"))
                    blocks = list(read_csv(tmp, **kw))
                else:
                    s = io.StringIO()
                    write_csv(arg, s, **wkw)
                    obs["stream_open"] = not s.closed
                    text = s.getvalue()
                    blocks = list(read_csv(io.StringIO(text), **kw))
            obs["text"] = text
            evs = []
            for bt, b in blocks:
                o = R.observe_block(bt, b, {}, None)
                o["t"] = bt.name
                o["origin"] = b.metadata.origin.input_location.row if hasattr(b, "metadata") else None
                evs.append(o)
            obs["events"] = evs
        except Exception as e:
            obs["exc"] = f"{type(e).__name__}: {e}"[:300]
        finally:
            pdtable.CSV_SEP = old
            if tmp and os.path.exists(tmp):
                os.unlink(tmp)
        obs["unmodified"] = [T.extract(t) for t in tabs] == before
        return obs

    def oracle(self, case, obs):
        if "exc" in obs:
            return [f"roundtrip-raised: {obs['exc']}"]
        fails = []
        if not obs["unmodified"]:
            fails.append("writer-mutates: write_csv modified a written table")
        got = [e for e in obs["events"] if e.get("k") == "table"]
        want = [T.spec_tokens(s) for s in case["tables"]]
        if len(obs["events"]) != len(want) or len(got) != len(want):
            fails.append(f"count: wrote {len(want)} tables, read {len(got)} tables in {len(obs['events'])} blocks")
            return fails
        for i, (g, w) in enumerate(zip(got, want)):
            if not T.same_table(g, w, flag=True):
                which = next((k for k in ("name", "dests", "nrows", "transposed") if g[k] != w[k]), None)
                if which is None:
                    if [(c["name"], c["unit"]) for c in g["cols"]] != [(c["name"], c["unit"]) for c in w["cols"]]:
                        which = "columns/units"
                    else:
                        j = next(j for j, (a, b) in enumerate(zip(g["cols"], w["cols"])) if a["values"] != b["values"])
                        i2 = next(i2 for i2, (a, b) in enumerate(zip(g["cols"][j]["values"], w["cols"][j]["values"])) if a != b)
                        which = (f"cell[{w['cols'][j]['name']!r},{i2}] unit {w['cols'][j]['unit']!r} "
                                 f"{'T' if w['transposed'] else 'R'}: wrote {w['cols'][j]['values'][i2]} read {g['cols'][j]['values'][i2]}")
                fails.append(f"roundtrip-differs: table {i} ({which}) sep={case['sep']!r}")
        return fails

    def to_coq(self, case, obs):
        if "exc" in obs or "text" not in obs:
            return None
        if case.get("na_rep") not in (None, "-"):
            return None          # the writer model writes the default marker: another marker is judged by the oracle
        sep = case["sep"]
        text = obs["text"]
        rows = [ln.split(sep) for ln in text.split("\n")]
        ftab, dtab, dstr = R.tables_for(rows)
        tabs = g_list([g_wtable(s, d) for s, d in zip(case["tables"], obs["dests_order"])])
        evs = g_list([R.g_event(e, None) for e in obs["events"]])
        return ("(mkcase1 " + str(ord(sep)) + " " + tabs + "\n " + g_str(text) + "\n "
                + g_list([g_pair(g_str(k), g_opt(None if v is None else str(v))) for k, v in ftab.items()]) + "\n "
                + g_list([g_pair(g_str(k), v) for k, v in dtab.items()]) + "\n " + evs + ")")

    def nontrivial(self, case, obs):
        return any(s["cols"] and s["cols"][0]["values"] for s in case["tables"])

    def kind(self, case, obs):
        return ("default-sep" if case["default_sep"] else "explicit") + ("-path" if case["path"] else "-stream")

    def shrink(self, case):
        ts = case["tables"]
        for i in range(len(ts)):
            if len(ts) > 1:
                yield {**case, "tables": ts[:i] + ts[i + 1:]}
        for i, t in enumerate(ts):
            for j in range(len(t["cols"])):
                if len(t["cols"]) > 1 and j > 0:
                    t2 = copy.deepcopy(t)
                    t2["cols"].pop(j)
                    yield {**case, "tables": ts[:i] + [t2] + ts[i + 1:]}
            n = len(t["cols"][0]["values"]) if t["cols"] else 0
            if n > 1:
                t2 = copy.deepcopy(t)
                for c in t2["cols"]:
                    c["values"].pop()
                yield {**case, "tables": ts[:i] + [t2] + ts[i + 1:]}


PROP = C01()
