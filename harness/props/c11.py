"""C11 - A read filter selects blocks exactly; rejected blocks are never parsed."""
from __future__ import annotations

import copy
import random

from .. import readsys as R
from .. import sheets as S
from ..driver import Prop

TYPES = ["TABLE", "METADATA", "DIRECTIVE", "TEMPLATE_ROW", "BLANK"]


def event_name(e):
    return e["name"] if e.get("k") in ("table", "json") else None


def strip_volatile(e):
    e = dict(e)
    e.pop("err", None), e.pop("warn", None)
    return e


class C11(Prop):
    id = "C11"
    coq_header = "From PdV.Corr Require Import Read."
    rule = ("multi-block sheets (tables with repeated names, row-wise and transposed, metadata / directive / template / "
            "comment blocks; 30% with malformed tables) x random predicates over (type, name) drawn as random subsets "
            "with random default x three output forms, via parse_blocks and read_csv; the arguments the predicate "
            "received are recorded; non-trivial = the predicate rejects at least one and accepts at least one block")
    assumptions = ["predicates are pure functions of (block type, name)"]

    def generate(self, rng, tier):
        n = 1200 if tier == "quick" else 15000
        cases = []
        for i in range(n):
            malformed = rng.random() < 0.3
            rows, blocks = S.gen_sheet(rng, native=False, bad_rate=0.3 if malformed else 0.0, max_tables=4)
            # table names with repetitions and both orientations
            names = [b["table"]["name"] for b in blocks if b["t"] == "TABLE"]
            # unusual table blocks: a marker-only stub, names that themselves end in '*'
            if rng.random() < 0.35:
                extra = rng.choice([
                    [["**stub"]], [["**stub*"]], [["**lim**"], ["all"], ["c", "m", "1"]],
                    [["**s*r"], ["all"], ["c"], ["m"], ["2"]], [["**lim**"], ["all"]], [["**q"], ["all"], ["c"]],
                ])
                pos = rng.choice([0, len(rows)])
                rows = (extra + [[]] + rows) if pos == 0 else (rows + [[]] + extra)
                c0 = extra[0][0][2:]
                names.append(c0[:-1] if c0.endswith("*") else c0)
            pairs = []
            for nm in set(names):
                if rng.random() < 0.5:
                    pairs.append(["TABLE", nm])
            for t in TYPES[1:]:
                if rng.random() < 0.5:
                    pairs.append([t, ""])
            if rng.random() < 0.2:
                pairs.append(["TABLE", names[0] + "*"] if names else ["TABLE", "x*"])
            cases.append({"rows": rows, "form": rng.choice(["pdtable", "jsondata", "cellgrid"]),
                          "filter": {"invert": rng.random() < 0.5, "pairs": pairs}, "malformed": malformed,
                          "via": "read_csv" if (i % 4 == 0 and all(isinstance(c, str) and ";" not in c and "\n" not in c for r in rows for c in r)) else "parse_blocks"})
        return cases

    def corpus(self):
        rows = [["**a*"], ["all"], ["c", "m", "1"], [], ["**b"], ["all"], ["c"], ["m"], ["x"]]
        return [{"rows": rows, "form": "pdtable", "filter": {"invert": False, "pairs": [["TABLE", "a"]]}, "malformed": True,
                 "via": "parse_blocks"}]

    def _rcase(self, case, flt="case", raising=True):
        return {"rows": case["rows"], "form": case["form"], "raising": raising, "fixer": "strict",
                "filter": case["filter"] if flt == "case" else None}

    def run_impl(self, case):
        obs = R.run_reader(self._rcase(case))
        obs["unfiltered"] = R.run_reader(self._rcase(case, flt=None, raising=False))
        if case["via"] == "read_csv":
            import io
            import warnings

            from pdtable import read_csv

            txt = "\n".join(";".join(r) for r in case["rows"]) + "\n"
            calls = []
            try:
                with warnings.catch_warnings():
                    warnings.simplefilter("ignore")
                    got = [(bt.name, getattr(b, "name", None) if not isinstance(b, dict) else b.get("name"))
                           for bt, b in read_csv(io.StringIO(txt), to=case["form"], filter=R.make_filter(case["filter"], calls))]
                obs["csv"] = {"blocks": got, "calls": calls}
            except Exception as e:
                obs["csv"] = {"exc": type(e).__name__}
        return obs

    def oracle(self, case, obs):
        fails = []
        spec = case["filter"]
        pairs = {(t, n) for t, n in spec["pairs"]}
        pred = lambda t, n: ((t, n) in pairs) != bool(spec["invert"])
        un = obs["unfiltered"]
        if un["final"][0] == 2 or obs["final"][0] == 2:
            return [f"crash-{(obs['final'] if obs['final'][0] == 2 else un['final'])[2][:100]}"]
        # names: cellgrid tables carry no name attribute; take them from the unfiltered pdtable-independent reading
        def nm(e, rows):
            if e.get("k") in ("table", "json"):
                return e["name"]
            if e.get("t") == "TABLE" and e.get("k") == "grid":
                c0 = rows[e["idx"][0]][0][2:]
                return c0[:-1] if c0.endswith("*") else c0
            return ""
        rows = case["rows"]
        # the unfiltered read may contain issues for malformed tables; accepted malformed tables still raise
        want = []
        raised = None
        for e in un["events"]:
            if e["k"] == "issue":
                # which table was it?  the table at that origin row
                c0 = rows[e["origin"]][0][2:]
                tn = c0[:-1] if c0.endswith("*") else c0
                if pred("TABLE", tn):
                    raised = e["origin"]
                    break
                continue
            if pred(e["t"], nm(e, rows)):
                want.append(strip_volatile(e))
        got = [strip_volatile(e) for e in obs["events"]]
        if raised is None:
            if obs["final"][0] != 0:
                fails.append(f"rejected-parsed: filtered read failed although every accepted block reads cleanly ({obs['final'][2][:80] if len(obs['final']) > 2 else ''})")
            elif got != want:
                fails.append(f"exact: filtered read yields {[(e['t'], nm(e, rows)) for e in got]}, expected {[(e['t'], nm(e, rows)) for e in want]}")
        else:
            if obs["final"][0] != 1 or obs["final"][1] != raised:
                fails.append("accepted-error: an accepted malformed table did not raise at its location")
            elif got != want:
                fails.append("exact-before-error: blocks before the error differ")
        # the arguments the predicate received
        for t, name in obs["filter_calls"]:
            if t != "TABLE" and name != "":
                fails.append(f"offered-name: non-table block offered name {name!r}")
        offered = [name for t, name in obs["filter_calls"] if t == "TABLE"]
        seg_tables = []
        for e in un["events"]:
            if e["k"] == "issue":
                c0 = rows[e["origin"]][0][2:]
                seg_tables.append(c0[:-1] if c0.endswith("*") else c0)
            elif e["t"] == "TABLE":
                seg_tables.append(nm(e, rows))
        if raised is None and offered != seg_tables:
            fails.append(f"offered-name: predicate was offered {offered}, tables are named {seg_tables}")
        if "csv" in obs and raised is None:
            if "exc" in obs["csv"]:
                fails.append(f"csv: read_csv raised {obs['csv']['exc']}")
            elif [t for t, _ in obs["csv"]["blocks"]] != [e["t"] for e in want]:
                fails.append("csv: read_csv with the same filter yields different blocks")
        return fails

    def to_coq(self, case, obs):
        return R.case_to_coq(self._rcase(case), obs)

    def nontrivial(self, case, obs):
        n_un = len([e for e in obs.get("unfiltered", {}).get("events", []) if e["k"] != "issue"])
        n = len(obs.get("events", []))
        return 0 < n < n_un

    def kind(self, case, obs):
        return case["form"] + ("-malformed" if case["malformed"] else "")

    def shrink(self, case):
        return []


PROP = C11()
