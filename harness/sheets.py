"""Generators of cell grids: tables spelled cell by cell with a ground-truth expectation that is a
literal reading of the StarTable rules (independent of pdtable and of the Coq model), multi-block
sheets, and the fault injector.

An expected cell value is a token as in tables.tok: ["n", bits] | ["m"] | ["s", text] | ["b", bool] |
["d", ns]; ["bad"] marks a cell the rules call illegal for its column.
"""
from __future__ import annotations

import datetime
import math
import random

from .cells import canon_fbits, dt_ns

INF = math.inf


def n(x):
    return ["n", canon_fbits(float(x))]


def fcell(x):
    return {"f": "nan" if x != x else ("inf" if x == INF else ("-inf" if x == -INF else float(x).hex()))}


def ts(iso):
    import pandas as pd

    return ["d", dt_ns(pd.Timestamp(iso))]      # not via datetime.fromisoformat: it drops sub-microsecond digits


# (cell, expected) pairs per column kind; text spellings first, then native cells
NUM_OK = [("1", n(1)), ("1.5", n(1.5)), ("-2e3", n(-2000)), (" 7 ", n(7)), ("1_0", n(10)), ("inf", n(INF)),
          ("-Infinity", n(-INF)), ("INF", n(INF)), ("1E5", n(1e5)), (".5", n(0.5)), ("5.", n(5)), ("+3", n(3)),
          ("0", n(0)), ("-0", n(-0.0)), ("1e-320", n(1e-320)), ("\t2", n(2)), ("0.1", n(0.1)), ("123456789012345678", n(123456789012345678)),
          ("1e400", n(INF)), (" 4", n(4)), ("iNfInItY", n(INF))]
NUM_MISSING = [("-", ["m"]), ("nan", ["m"]), ("NaN", ["m"]), ("NAN", ["m"]), (" - ", ["m"]), ("nAn", ["m"]),
               (" -", ["m"]), ("+nan", ["m"]), ("-nan", ["m"]), (" nan ", ["m"])]
NUM_NATIVE = [({"i": 3}, n(3)), ({"f": (2.5).hex()}, n(2.5)), ({"b": True}, n(1)), ({"b": False}, n(0)), (None, ["m"]),
              ({"f": "nan"}, ["m"]), ({"i": -7}, n(-7)), ({"f": "inf"}, n(INF)), ({"i": 2**53}, n(2**53))]
NUM_BAD = ["abc", "1,5", "0x10", "", "1 2", "--", "n/a", "1e", "true", "- -", "na", "nan.", "1.5.2", "_1", "1__0", " "]
NUM_BAD_NATIVE = [{"d": "2020-01-02T00:00:00"}, {"o": "date"}, {"nat": 1}, {"o": "obj"}]

ONOFF_OK = [("0", ["b", False]), ("1", ["b", True]), ("true", ["b", True]), ("FALSE", ["b", False]), (" True ", ["b", True]),
            ("tRuE", ["b", True]), ("false", ["b", False]), ("\t0", ["b", False]), ("1 ", ["b", True])]
ONOFF_NATIVE = [({"i": 0}, ["b", False]), ({"i": 1}, ["b", True]), ({"f": (0.0).hex()}, ["b", False]),
                ({"f": (1.0).hex()}, ["b", True]), ({"b": True}, ["b", True]), ({"b": False}, ["b", False]),
                ({"f": (-0.0).hex()}, ["b", False])]
ONOFF_BAD = ["2", "yes", "", "-", "nan", "on", "off", "01", "1.0", "t", "truee"]
ONOFF_BAD_NATIVE = [{"i": 2}, {"f": (0.5).hex()}, None, {"d": "2020-01-02T00:00:00"}, {"f": "nan"}, {"i": -1}]

DT_OK = [("2020-01-02", ts("2020-01-02T00:00:00")), ("2020-01-02 03:04:05", ts("2020-01-02T03:04:05")),
         ("2021-12-31T23:59:59", ts("2021-12-31T23:59:59")), ("2020-01-02 03:04:05.123456", ts("2020-01-02T03:04:05.123456")),
         ("20200102", ts("2020-01-02T00:00:00")), (" 2020-01-02 ", ts("2020-01-02T00:00:00")),
         ("1999-12-31 00:00", ts("1999-12-31T00:00:00")), ("2020-02-29T12:00:00.5", ts("2020-02-29T12:00:00.500000")),
         # more fractional digits than a python datetime holds
         ("2021-06-30T23:59:59.999999999", ts("2021-06-30T23:59:59.999999999")),
         ("2021-07-01 00:00:00.0000001", ts("2021-07-01T00:00:00.000000100"))]
DT_MISSING = [("-", ["m"]), ("nan", ["m"]), ("NaN", ["m"]), ("NAN", ["m"]), (" - ", ["m"]), ("nAn ", ["m"])]
DT_NATIVE = [({"d": "2020-01-02T03:04:05"}, ts("2020-01-02T03:04:05")), ({"ts": "2021-06-30T12:00:00.000250"}, ts("2021-06-30T12:00:00.000250")),
             ({"nat": 1}, ["m"]), ({"d": "1950-05-05T05:05:05"}, ts("1950-05-05T05:05:05"))]
DT_BAD = ["abc", "", "x2020", "2020-13-45", "2020-01-01T25:00", "--", "n", "1.1.1.1.1", "20", "nan2",
          # spellings pandas itself reads as a missing or a current timestamp
          "NaT", "nat", "now", "today", "  ", "", "None", "null", "<NA>", "NaT "]
DT_BAD_FIXABLE_NATIVE = [None]                     # fixer is consulted
DT_BAD_ABORT_NATIVE = [{"i": 5}, {"f": (2.5).hex()}, {"b": True}, {"o": "date"}]   # plain ValueError

TEXT_VALS = ["x", "", " p ", "q:", "-", "NaN", "1", "a b", "æø", "**x", ":c", "***d", "a;b", "true", "中", "\"", "'", "\\", "0", " "]

UNITS_NUM = ["-", "m", "kg", "mm", "1/s", "m/s^2", "%", "°C", "TEXT", "Text", "onoff2", "date"]
NAMES = ["a", "b", "c", "x y", "é", "col", "T", "a1", "b_2", "-", "1", "nan"]


def spell(rng, kind, native, bad_rate=0.0, first_col=False, text_native_rate=0.1):
    """Return (cell, expected, badkind) for one cell of a column of the given kind."""
    r = rng.random()
    if kind == "text":
        if native and rng.random() < text_native_rate:
            c = rng.choice([{"i": 4}, {"f": (1.5).hex()}, {"b": True}, {"i": 12}, {"f": (2.0).hex()}, {"b": False}]
                           + ([] if first_col else [None]))
            from .cells import to_py

            return c, ["s", str(to_py(c))], None
        s = rng.choice(TEXT_VALS)
        if first_col:
            from .props.c03 import ref_mark

            if not s.strip() or ref_mark(s) != "plain":
                s = "v" + s.strip().strip(":")
        return s, ["s", s], None
    if kind == "float":
        if r < bad_rate:
            if native and rng.random() < 0.3:
                return rng.choice(NUM_BAD_NATIVE), ["bad"], "fix"
            s = rng.choice(NUM_BAD)
            if first_col and not s.strip():
                s = "abc"
            return s, ["bad"], "fix"
        pool = NUM_OK + NUM_MISSING
        if first_col:
            pool = NUM_OK + [p for p in NUM_MISSING if True]
        if native and rng.random() < 0.5:
            c, e = rng.choice(NUM_NATIVE if not first_col else [p for p in NUM_NATIVE if p[0] is not None])
            return c, e, None
        c, e = rng.choice(pool)
        return c, e, None
    if kind == "onoff":
        if r < bad_rate:
            if native and rng.random() < 0.3:
                c = rng.choice(ONOFF_BAD_NATIVE if not first_col else [x for x in ONOFF_BAD_NATIVE if x is not None])
                return c, ["bad"], "fix"
            s = rng.choice(ONOFF_BAD)
            if first_col and not s.strip():
                s = "yes"
            return s, ["bad"], "fix"
        if native and rng.random() < 0.5:
            c, e = rng.choice(ONOFF_NATIVE)
            return c, e, None
        c, e = rng.choice(ONOFF_OK)
        return c, e, None
    if kind == "datetime":
        if r < bad_rate:
            if native and rng.random() < 0.4:
                if rng.random() < 0.5 and not first_col:
                    return None, ["bad"], "fix"
                return rng.choice(DT_BAD_ABORT_NATIVE), ["bad"], "abort"
            s = rng.choice(DT_BAD)
            if first_col and not s.strip():
                s = "abc"
            return s, ["bad"], "fix"
        if native and rng.random() < 0.5:
            c, e = rng.choice(DT_NATIVE)
            return c, e, None
        c, e = rng.choice(DT_OK + DT_MISSING)
        return c, e, None
    raise ValueError(kind)


def pad_ws(rng, s):
    return rng.choice(["", " ", "\t", " "]) + s + rng.choice(["", " ", "  ", " "])


def is_blank_cell(c):
    return c is None or (isinstance(c, str) and not c.strip())


def gen_parts(rng, native=False, bad_rate=0.0, max_cols=4, max_rows=4, names=None, table_name=None, kinds_pool=None,
              min_cols=1, min_rows=0):
    """Cells of a table, column by column, with the expected parse (orientation-free)."""
    while True:
        ncols = rng.randint(min_cols, max_cols)
        nrows = rng.choice([0, 1, 2, max_rows]) if rng.random() < 0.85 else rng.randint(0, max_rows)
        nrows = max(nrows, min_rows)
        kinds = [rng.choice(kinds_pool or ["text", "onoff", "datetime", "float", "float"]) for _ in range(ncols)]
        cnames = names or rng.sample(NAMES, ncols)
        units = [{"text": "text", "onoff": "onoff", "datetime": "datetime"}.get(k) or rng.choice(UNITS_NUM) for k in kinds]
        name = table_name or ("t" + str(rng.randint(0, 9)) + rng.choice(["", "_x", "é", ".1", "", "", "* ", " ", "*\t"]))
        dests = rng.choice([["all"], ["d1", "d2"], ["a"], ["x", "y", "z"]])
        cols, exp_cols, bad = [], [], []
        for j, k in enumerate(kinds):
            cs, es = [], []
            # now and then a text column of native cells only (numbers of mixed kinds, no string among them)
            tnr = 1.0 if (native and k == "text" and rng.random() < 0.2) else 0.1
            for i in range(nrows):
                c, e, bk = spell(rng, k, native, bad_rate, first_col=(j == 0), text_native_rate=tnr)
                cs.append(c)
                es.append(e)
                if bk:
                    bad.append([j, i, bk])
            cols.append(cs)
            exp_cols.append({"name": cnames[j], "unit": units[j], "values": es})
        # no data row may be entirely blank (it would end the table in either orientation)
        if any(all(is_blank_cell(cols[j][i]) for j in range(ncols)) for i in range(nrows)):
            continue
        exp = {"name": name, "dests": sorted(set(dests)), "cols": exp_cols, "nrows": nrows, "bad": bad, "kinds": kinds}
        return {"name": name, "dests": dests, "names": cnames, "units": units, "cols": cols, "native": native}, exp


def layout(rng, parts, transposed, header_noise=True, trailing=True, comments=True):
    """Lay the cells out as a table block in the given orientation, with optional harmless noise."""
    native = parts["native"]
    ncols = len(parts["names"])
    nrows = len(parts["cols"][0]) if ncols else 0
    hn = (lambda s: pad_ws(rng, s)) if header_noise and rng.random() < 0.5 else (lambda s: s)
    if trailing:
        trail = (lambda: [None] * rng.choice([0, 0, 2])) if native else (lambda: [""] * rng.choice([0, 0, 1, 3]))
    else:
        trail = lambda: []
    rows = [["**" + parts["name"] + ("*" if transposed else "")] + trail(), [" ".join(parts["dests"])] + trail()]
    if transposed:
        for j in range(ncols):
            rows.append([hn(parts["names"][j]), hn(parts["units"][j])] + list(parts["cols"][j]) + trail())
    else:
        cm = ([""] + [rng.choice(["comment", "#", "x"])]) if (comments and header_noise and rng.random() < 0.3) else []
        rows.append([hn(c) for c in parts["names"]] + (cm or trail()))
        rows.append([hn(u) for u in parts["units"]] + trail())
        for i in range(nrows):
            rows.append([parts["cols"][j][i] for j in range(ncols)] + trail())
    return rows


def gen_table_grid(rng, native=False, bad_rate=0.0, max_cols=4, max_rows=4, transposed=None, header_noise=True,
                   names=None, table_name=None):
    """A table block as rows of cells plus the expected parse.

    expected = {"name", "transposed", "dests", "cols": [{"name","unit","values":[token]}], "nrows",
                "bad": [(col, row, kind)]}
    """
    parts, exp = gen_parts(rng, native, bad_rate, max_cols, max_rows, names, table_name)
    tr = (rng.random() < 0.4) if transposed is None else transposed
    exp["transposed"] = tr
    if tr and rng.random() < 0.3:
        stagger_blanks(parts, exp)
    return layout(rng, parts, tr, header_noise), exp


def gen_staggered_grid(rng, native=False):
    """A transposed table of text (and, in native grids, numeric) columns, 3-5 rows, every column with a gap."""
    parts, exp = gen_parts(rng, native, 0.0, 4, 4, None, None, kinds_pool=["text", "text", "float"] if native else ["text"],
                           min_cols=2, min_rows=rng.choice([3, 4, 5]))
    exp["transposed"] = True
    stagger_blanks(parts, exp)
    return layout(rng, parts, True, rng.random() < 0.5), exp


def stagger_blanks(parts, exp):
    """Transposed layout only: give every column a blank cell before its end, at staggered rows, so that no
    line is gap-free while no row is entirely blank (text: empty string; native numeric: None = missing)."""
    cols, kinds = parts["cols"], exp["kinds"]
    ncols = len(cols)
    nrows = len(cols[0]) if ncols else 0
    if ncols < 2 or nrows < 3 or exp["bad"]:
        return
    if not all(k == "text" or (k == "float" and parts["native"]) for k in kinds):
        return
    for j in range(ncols):
        i = j % (nrows - 1)
        if kinds[j] == "text":
            cols[j][i] = ""
            exp["cols"][j]["values"][i] = ["s", ""]
        else:
            cols[j][i] = None
            exp["cols"][j]["values"][i] = ["m"]
    # a row must not become entirely blank (that ends the table): fill one cell that is not a designated gap
    for i in range(nrows):
        if all(is_blank_cell(cols[j][i]) for j in range(ncols)):
            j = next(j for j in range(ncols) if j % (nrows - 1) != i)
            if kinds[j] == "text":
                cols[j][i], exp["cols"][j]["values"][i] = "v", ["s", "v"]
            else:
                cols[j][i], exp["cols"][j]["values"][i] = {"i": 3}, n(3)


def blank_row(rng, native=False):
    return rng.choice([[], [""], ["", ""], [" "]] + ([[None, None], [None]] if native else []))


def gen_sheet(rng, native=False, bad_rate=0.0, max_tables=3, extras=True, transposed=None, unique_names=False):
    """rows + expected block list [{"t": type, "origin": row, "table": exp|None, "nrows_block": n}]"""
    rows, blocks = [], []
    if extras and rng.random() < 0.5:
        o = len(rows)
        rows += [["author:", "me"], ["note:", "x", "y"]]
        if rng.random() < 0.3:
            rows.append(["free text in metadata"])
        blocks.append({"t": "METADATA", "origin": o})
    rows.append(blank_row(rng, native))
    used = set()
    for k in range(rng.randint(1, max_tables)):
        tname = None
        if unique_names:
            tname = f"tab{k}"
        o = len(rows)
        g, exp = gen_table_grid(rng, native, bad_rate, transposed=transposed, table_name=tname)
        rows += g
        blocks.append({"t": "TABLE", "origin": o, "table": exp})
        end = rng.random()
        if end < 0.75:
            rows.append(blank_row(rng, native))
        if extras and rng.random() < 0.3:
            o = len(rows)
            rows += [["***include"], ["f.csv"], ["g.csv", "ignored"]]
            blocks.append({"t": "DIRECTIVE", "origin": o})
            rows.append(blank_row(rng, native))
        if extras and rng.random() < 0.2:
            o = len(rows)
            rows += [[":tmpl", "a"], ["stray"]]
            blocks.append({"t": "TEMPLATE_ROW", "origin": o})
            if rng.random() < 0.5:
                rows.append(blank_row(rng, native))
        if extras and rng.random() < 0.15:
            rows.append(blank_row(rng, native))
            o = len(rows)
            rows += [["comment line"], ["more"]]
            blocks.append({"t": "BLANK", "origin": o - 1})
            rows.append(blank_row(rng, native))
    return rows, blocks


FAULT_CELLS = ["", " ", "abc", "**z", "***z", ":z", "k:", None, {"i": 5}, {"f": (2.5).hex()}, {"b": True},
               {"d": "2020-01-01T00:00:00"}, "1", "0", "-", "NaN", {"o": "date"}, "**z*", "::", "x:y",
               # timestamps that parse on their own but do not fit a column of ordinary ones
               "2020-01-01T00:00:00+01:00", "0001-01-01", "2020-01-02 00:00:00.000000001"]


def fault(rng, rows, text_only=False):
    """One corruption of a grid; returns (rows, description)."""
    rows = [list(r) for r in rows]
    k = rng.random()
    pool = [c for c in FAULT_CELLS if isinstance(c, str)] if text_only else FAULT_CELLS
    if k < 0.15:
        i = rng.randint(0, len(rows))
        return rows[:i], f"truncate@{i}"
    if k < 0.22 and rows:
        i = rng.randrange(len(rows))
        del rows[i]
        return rows, f"delete-row@{i}"
    if k < 0.29 and rows:
        i = rng.randrange(len(rows))
        rows.insert(i, list(rows[i]))
        return rows, f"duplicate-row@{i}"
    if k < 0.40 and rows:
        i = rng.randrange(len(rows))
        if rows[i]:
            rows[i] = rows[i][: rng.randint(0, len(rows[i]) - 1)]
        return rows, f"shorten-row@{i}"
    if rows:
        i = rng.randrange(len(rows))
        if rows[i]:
            j = rng.randrange(len(rows[i]))
            rows[i][j] = rng.choice(pool)
            return rows, f"cell@{i},{j}"
    return rows, "none"
