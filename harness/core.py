"""Shared machinery of the pdtable verification harness.

A check of property Cnn does, on every run and from /repo's current working tree:
  1. proof status  : the Coq development builds (full .vo build), Properties/Cnn.v compiles, every
                     `Print Assumptions` under it is closed (or lists only allowed stdlib axioms),
                     and no forbidden vernacular occurs anywhere in the development;
  2. correspondence: generated cases are run through the real implementation (imported from
                     /repo) and through the Gallina model (generated cases_*.v files evaluated with
                     vm_compute by coqc); differing cases are reported;
  3. oracle        : the property's own predicate is evaluated on the implementation's results.
Exit 0 iff all three hold up to the open entries of known_findings.json.
"""
from __future__ import annotations

import fcntl
import hashlib
import json
import os
import random
import re
import shutil
import subprocess
import sys
import tempfile
import time
import traceback
from pathlib import Path

VERIF = Path(__file__).resolve().parent.parent
COQ = VERIF / "coq"
REPO = Path(os.environ.get("PDTABLE_REPO", "/repo"))
EVIDENCE = VERIF / "evidence"
REPLAYS = VERIF / "replays"
KNOWN = VERIF / "known_findings.json"
NCPU = min(16, os.cpu_count() or 4)

FORBIDDEN = re.compile(
    r"\b(Admitted|admit|Axiom|Axioms|Parameter|Parameters|Conjecture|Conjectures|Abort|"
    r"Admit\s+Obligations|bypass_check|native_compute)\b|Unset\s+Guard|Unset\s+Positivity|"
    r"Unset\s+Universe|type-in-type|impredicative-set"
)
# stdlib axioms that may be listed by Print Assumptions (none is expected; see DESIGN section 7)
ALLOWED_AXIOMS = {
    "functional_extensionality_dep",
    "proof_irrelevance",
    "classic",
    "JMeq_eq",
    "Eqdep.Eq_rect_eq.eq_rect_eq",
}


def seed_from_env() -> int:
    try:
        return int(os.environ.get("VERIF_SEED", "20260930"))
    except ValueError:
        return 20260930


def setup_impl_path():
    """Import pdtable from the working tree of /repo, never from site-packages."""
    os.environ.setdefault("PYTHONHASHSEED", "0")
    p = str(REPO)
    if p in sys.path:
        sys.path.remove(p)
    sys.path.insert(0, p)
    for m in [m for m in sys.modules if m == "pdtable" or m.startswith("pdtable.")]:
        del sys.modules[m]
    import pdtable  # noqa

    loc = Path(pdtable.__file__).resolve()
    if REPO.resolve() not in loc.parents:
        raise RuntimeError(f"pdtable imported from {loc}, not from {REPO}")
    return pdtable


# --------------------------------------------------------------------------------------------
# Coq side
# --------------------------------------------------------------------------------------------
class ProofStatus:
    def __init__(self):
        self.ok = True
        self.problems: list[str] = []
        self.theorems: dict[str, str] = {}  # name -> assumptions text
        self.obligations = 0
        self.discharged = 0
        self.build_s = 0.0
        self.log = ""
        self.coqchk = None

    def fail(self, msg):
        self.ok = False
        self.problems.append(msg)


def _run(cmd, cwd=None, timeout=1800, env=None):
    t0 = time.time()
    try:
        p = subprocess.run(
            cmd, cwd=cwd, timeout=timeout, capture_output=True, text=True, env=env
        )
        return p.returncode, p.stdout + p.stderr, time.time() - t0
    except subprocess.TimeoutExpired as e:
        out = (e.stdout or b"").decode(errors="replace") if isinstance(e.stdout, bytes) else (e.stdout or "")
        return 124, out + "\nTIMEOUT", time.time() - t0


def build_coq(timeout=1800):
    """Full .vo build of the development, serialised by a lock (checks may run concurrently)."""
    lock = open(COQ / ".build.lock", "w")
    fcntl.flock(lock, fcntl.LOCK_EX)
    try:
        if not (COQ / "Makefile").exists() or (COQ / "_CoqProject").stat().st_mtime > (
            COQ / "Makefile"
        ).stat().st_mtime:
            rc, out, _ = _run(["coq_makefile", "-f", "_CoqProject", "-o", "Makefile"], cwd=COQ)
            if rc != 0:
                return rc, out, 0.0
        return _run(["timeout", str(timeout), "make", f"-j{NCPU}"], cwd=COQ, timeout=timeout + 30)
    finally:
        fcntl.flock(lock, fcntl.LOCK_UN)
        lock.close()


def forbidden_scan() -> list[str]:
    hits = []
    for f in sorted(COQ.rglob("*.v")):
        if "_cases" in f.parts:
            continue
        for n, line in enumerate(f.read_text().splitlines(), 1):
            if FORBIDDEN.search(line):
                hits.append(f"{f.relative_to(VERIF)}:{n}: {line.strip()[:120]}")
    return hits


_PA = re.compile(r"^Print Assumptions\s+(\S+)\.", re.M)


def coqchk_status(pid: str, st: "ProofStatus") -> None:
    """Thorough tier: re-check the compiled property file and everything it depends on with the
    independent checker and read its context summary."""
    rc, out, dt = _run(["timeout", "1500", "coqchk", "-o", "-silent", "-Q", str(COQ), "PdV", f"PdV.Properties.{pid}"],
                       cwd=str(COQ), timeout=1560)
    st.coqchk = {"seconds": round(dt, 1), "rc": rc}
    if rc != 0:
        st.fail(f"coqchk failed (rc={rc}): " + out[-400:].replace("\n", " | "))
        return
    summ = out[out.find("CONTEXT SUMMARY"):] if "CONTEXT SUMMARY" in out else out[-1500:]
    for key in ("Axioms", "Constants/Inductives relying on type-in-type", "Constants/Inductives relying on unsafe (co)fixpoints",
                "Inductives whose positivity is assumed"):
        m = re.search(r"\* " + re.escape(key) + r":(.*?)(?=\n\* |\Z)", summ, re.S)
        val = " ".join((m.group(1) if m else "?").split())
        st.coqchk[key] = val
        if key == "Axioms":
            axs = [a for a in re.findall(r"([A-Za-z_][\w.]*)", val) if a not in ("none",)]
            bad = [a for a in axs if a.split(".")[-1] not in ALLOWED_AXIOMS]
            if val != "<none>" and bad:
                st.fail(f"coqchk reports axioms outside the allowed set: {bad}")
        elif val != "<none>":
            st.fail(f"coqchk: {key}: {val}")


def proof_status(pid: str, tier: str = "quick") -> ProofStatus:
    st = ProofStatus()
    rc, out, dt = build_coq()
    st.build_s = dt
    st.log = out[-4000:]
    if rc != 0:
        st.fail(f"coq build failed (rc={rc}): " + _first_error(out))
    hits = forbidden_scan()
    if hits:
        st.fail("forbidden vernacular: " + "; ".join(hits[:5]))
    pf = COQ / "Properties" / f"{pid}.v"
    if not pf.exists():
        st.fail(f"missing {pf}")
        return st
    src = pf.read_text()
    names = _PA.findall(src)
    declared = re.findall(r"^(?:Theorem|Lemma|Corollary)\s+(\w+)", src, re.M)
    st.obligations = len(declared)
    missing_pa = [d for d in declared if d not in names]
    if missing_pa:
        st.fail(f"theorems without Print Assumptions: {missing_pa}")
    # recompile the property file to capture Print Assumptions output
    with tempfile.TemporaryDirectory(prefix=f"pdv_{pid}_") as td:
        tmpv = Path(td) / f"P{pid}.v"
        shutil.copy(pf, tmpv)
        rc2, out2, _ = _run(
            ["timeout", "600", "coqc", "-q", "-Q", str(COQ), "PdV", str(tmpv)], cwd=td, timeout=630
        )
    if rc2 != 0:
        st.fail(f"Properties/{pid}.v does not compile: " + _first_error(out2))
        return st
    # split output per Print Assumptions, in order
    chunks = _split_assumptions(out2)
    if len(chunks) != len(names):
        st.fail(f"expected {len(names)} Print Assumptions outputs, got {len(chunks)}")
    for name, chunk in zip(names, chunks):
        st.theorems[name] = chunk.strip()
        if chunk.strip().startswith("Closed under the global context"):
            continue
        axs = re.findall(r"^(\S+)\s*:", chunk, re.M)
        bad = [a for a in axs if a not in ALLOWED_AXIOMS]
        if bad or not axs:
            st.fail(f"{name} depends on non-allowed assumptions: {bad or chunk.strip()[:200]}")
    if tier == "thorough" and st.ok:
        coqchk_status(pid, st)
    st.discharged = sum(1 for d in declared if d in st.theorems) if st.ok else 0
    return st


def _split_assumptions(out: str) -> list[str]:
    chunks, cur = [], None
    for line in out.splitlines():
        if line.startswith("Closed under the global context") or line.startswith("Axioms:"):
            if cur is not None:
                chunks.append("\n".join(cur))
            cur = [line]
        elif cur is not None:
            cur.append(line)
    if cur is not None:
        chunks.append("\n".join(cur))
    return chunks


def _first_error(out: str) -> str:
    m = re.search(r"(File \"[^\"]+\", line \d+.*?\nError:.*?)(?:\n\n|\Z)", out, re.S)
    return (m.group(1) if m else out[-600:]).replace("\n", " | ")[:800]


# ---- Gallina literal emission --------------------------------------------------------------
def g_str(s: str) -> str:
    """Code-point list literal; compact UTF-8 string form where the text allows it."""
    if len(s) >= 2 and all(c != "\x00" and c != "\r" and not (0xD800 <= ord(c) <= 0xDFFF) for c in s):
        return '(U8 "' + s.replace('"', '""') + '"%string)'
    return "[" + ";".join(str(ord(c)) for c in s) + "]"


def g_list(items) -> str:
    return "[" + ";".join(items) + "]"


def g_bool(b) -> str:
    return "true" if b else "false"


def g_nat(n: int) -> str:
    return f"{n}%nat"


def g_Z(z: int) -> str:
    return f"({z})%Z"


def g_opt(x) -> str:
    return "None" if x is None else f"(Some {x})"


def g_pair(*xs) -> str:
    return "(" + ", ".join(xs) + ")"


class CoqEval:
    """Evaluate generated case files with coqc (vm_compute), sharded and in parallel."""

    def __init__(self, pid: str):
        self.pid = pid
        self.dir = Path(tempfile.mkdtemp(prefix=f"pdv_cases_{pid}_"))
        self.files: list[tuple[str, Path]] = []
        self.wall = 0.0

    def add(self, tag: str, header: str, body: str):
        """header: Require lines; body: definitions ending with Eval vm_compute commands."""
        f = self.dir / f"cases_{self.pid}_{len(self.files)}.v"
        f.write_text(
            "From Coq Require Import String.\nFrom Coq Require Import List NArith ZArith Bool.\nImport ListNotations.\n"
            + header
            + "\nSet Printing Width 1000000.\nSet Printing Depth 1000000.\nLocal Open Scope N_scope.\n"
            + body
            + "\n"
        )
        self.files.append((tag, f))

    def run(self, timeout=600) -> dict[str, tuple[int, list[str], str]]:
        """Returns tag -> (rc, [printed values after '='], raw)."""
        t0 = time.time()
        procs = []
        results = {}
        pending = list(self.files)
        running: list[tuple[str, Path, subprocess.Popen, float]] = []

        def start(tag, f):
            p = subprocess.Popen(
                ["timeout", str(timeout), "coqc", "-q", "-Q", str(COQ), "PdV", str(f)],
                cwd=self.dir,
                stdout=subprocess.PIPE,
                stderr=subprocess.STDOUT,
                text=True,
            )
            running.append((tag, f, p, time.time()))

        while pending or running:
            while pending and len(running) < NCPU:
                start(*pending.pop(0))
            for item in list(running):
                tag, f, p, ts = item
                if p.poll() is not None:
                    out = p.stdout.read()
                    results[tag] = (p.returncode, _parse_evals(out), out)
                    running.remove(item)
            time.sleep(0.02)
        self.wall = time.time() - t0
        return results

    def cleanup(self):
        shutil.rmtree(self.dir, ignore_errors=True)


def _parse_evals(out: str) -> list[str]:
    vals, cur = [], None
    for line in out.splitlines():
        if line.startswith("     = "):
            if cur is not None:
                vals.append(cur)
            cur = line[7:]
        elif cur is not None:
            cur += " " + line.strip()
    if cur is not None:
        vals.append(cur)
    # strip the trailing ": type"
    cleaned = []
    for v in vals:
        i = v.rfind(" : ")
        cleaned.append(v[:i].strip() if i >= 0 else v.strip())
    return cleaned


def parse_nat_list(v: str) -> list[int]:
    v = v.strip()
    if v in ("[]", "nil"):
        return []
    return [int(x.replace("%nat", "").replace("%N", "")) for x in v.strip("[]").split(";") if x.strip()]


# --------------------------------------------------------------------------------------------
# Known findings, replay, evidence
# --------------------------------------------------------------------------------------------
def load_known(pid: str):
    if not KNOWN.exists():
        return []
    data = json.loads(KNOWN.read_text())
    return [e for e in data.get("findings", []) if e.get("property") == pid]


def write_replay(pid: str, seed: int, obj: dict) -> Path:
    REPLAYS.mkdir(exist_ok=True)
    h = hashlib.sha1(json.dumps(obj, sort_keys=True, default=str).encode()).hexdigest()[:10]
    p = REPLAYS / f"{pid}-{seed}-{h}.json"
    p.write_text(json.dumps(obj, indent=1, sort_keys=True, default=str))
    return p


def write_evidence(pid: str, ev: dict):
    EVIDENCE.mkdir(exist_ok=True)
    (EVIDENCE / f"{pid}.json").write_text(json.dumps(ev, indent=1, default=str))


TRUSTED_BASE = [
    "Coq 8.16.1 kernel (coqc); vm_compute used for correspondence evaluation and finite sweeps; native_compute not used",
    "hand-written Gallina models under coq/Model tied to /repo by the behavioural correspondence of this harness (generators, canonicalisers, Gallina literal emitter, parser of coqc's printed values)",
    "runtime hypotheses named in DESIGN.md section 7 (pandas/numpy/openpyxl/re/pathlib behaviour enters as explicit theorem premises or as inputs of the model)",
]


class Outcome:
    """Collects what a check found and turns it into exit status, stdout lines and evidence."""

    def __init__(self, pid: str, tier: str, seed: int):
        self.pid, self.tier, self.seed = pid, tier, seed
        self.t0 = time.time()
        self.violations: list[tuple[str, dict, bool]] = []  # (what, replay obj, found_input)
        self.known_hits: dict[str, str] = {}
        self.cov: dict = {}
        self.assumptions: list[str] = []

    def known(self, key: str, what: str):
        self.known_hits.setdefault(key, what)

    def violation(self, what: str, replay: dict, found_input: bool):
        self.violations.append((what, replay, found_input))

    def finish(self, proof: ProofStatus, extra_cov: dict) -> int:
        wall = time.time() - self.t0
        for key, what in sorted(self.known_hits.items()):
            print(f"KNOWN-FINDING: property={self.pid} {key}: {what}")
        rc = 0
        seen = set()
        for what, replay, found in self.violations:
            sig = what[:80]
            if sig in seen:
                continue
            seen.add(sig)
            replay = dict(replay)
            replay.setdefault("property", self.pid)
            replay["what"] = what
            replay["failing_input_found"] = found
            path = write_replay(self.pid, self.seed, replay)
            tail = "" if found else " no-failing-input-found"
            print(f"VIOLATION property={self.pid} replay={path}{tail}")
            print(f"  {what[:300]}")
            rc = 1
        cov = {
            "obligations": max(proof.obligations, 1),
            "discharged": proof.discharged,
            "checker_cmd": f"make -C coq (full .vo build) && coqc -Q coq PdV coq/Properties/{self.pid}.v (Print Assumptions under every theorem)",
            "trusted_base": TRUSTED_BASE,
            "theorems": proof.theorems,
            "proof_problems": proof.problems,
        }
        if getattr(proof, "coqchk", None):
            cov["coqchk"] = proof.coqchk
            cov["checker_cmd"] += f" && coqchk -o -Q coq PdV PdV.Properties.{self.pid}"
        cov.update(extra_cov)
        ev = {
            "property_id": self.pid,
            "tier": self.tier,
            "seed": self.seed,
            "level": "proof",
            "coverage": cov,
            "assumptions": self.assumptions,
            "wall_s": round(wall, 2),
            "violations": len(seen),
            "known_findings_hit": sorted(self.known_hits),
        }
        write_evidence(self.pid, ev)
        status = "OK" if rc == 0 else "FAIL"
        print(
            f"[{self.pid}] {status} tier={self.tier} seed={self.seed} theorems={proof.discharged}/{proof.obligations} "
            f"cases={cov.get('evaluations')} corr_mismatch={cov.get('correspondence_mismatches')} "
            f"oracle_fail={cov.get('oracle_failures')} wall={wall:.1f}s"
        )
        return rc
