"""Real directory trees for load_files, the audit-hook observer, and the encoding of a tree and a
load run for the Coq loader model (Corr/C16.v).  Shared by C16, C17, C18."""
from __future__ import annotations

import os
import re
import shutil
import sys
import tempfile
import warnings

from .core import g_bool, g_list, g_nat, g_opt, g_pair, g_str

import logging
logging.disable(logging.CRITICAL)
_SINK = None
_HOOKED = False


def _hook(event, args):
    if _SINK is None:
        return
    try:
        if event == "open":
            p, mode = args[0], args[1]
            if isinstance(p, (str, bytes, os.PathLike)) and (mode is None or "r" in str(mode) or mode == ""):
                _SINK.append(("open", os.fspath(p) if not isinstance(p, bytes) else p.decode()))
        elif event in ("os.listdir", "os.scandir"):
            p = args[0]
            _SINK.append(("list", "." if p is None else (os.fspath(p) if not isinstance(p, bytes) else p.decode())))
    except Exception:
        pass


def observe_io(sink):
    global _SINK, _HOOKED
    if not _HOOKED:
        sys.addaudithook(_hook)
        _HOOKED = True
    _SINK = sink


def stop_observe():
    global _SINK
    _SINK = None


FOLDERS = ["", "a", "a/b", "c", "nested.csv", "d@v2"]      # "@" separates path and time stamp in a load identifier
FILES = ["f1.csv", "f2.csv", "g.csv", "h.csv", "in_1.csv", "in_2.csv", "notes.txt", "k.CSV"]
# extensions in other letter cases: the file-name pattern and the file reader both ignore case
CASED_FILES = ["k.CSV", "Mix.Csv", "in_3.CSV"]
# names a folder listing must skip: an office lock file (default pattern) and the start pattern in mid-name
SKIPPED_FILES = ["~$lock.csv", "old_in_9.csv"]


def gen_tree(rng, hostile=False, max_files=6):
    """A tree description: files with block lists; include lines are specification strings."""
    nfold = rng.choice([1, 2, 3, 4, 5, 5, 6, 6])
    folders = FOLDERS[:nfold]
    nfiles = rng.randint(1, max_files)
    files = []
    used = set()
    for k in range(nfiles):
        fo = rng.choice(folders)
        if nfold == 6 and rng.random() < 0.5:
            fo = "d@v2"          # several files in the folder whose name holds the identifier's separator
        nm = rng.choice(FILES[:6] + CASED_FILES + SKIPPED_FILES + ["m@1.csv"]) if rng.random() < 0.85 else rng.choice(SKIPPED_FILES)
        rel = (fo + "/" + nm) if fo else nm
        if rel in used:
            continue
        used.add(rel)
        files.append({"rel": rel, "blocks": []})
    rels = [f["rel"] for f in files]
    tcount = 0
    for f in files:
        blocks = []
        if rng.random() < 0.2:
            blocks.append({"k": "meta"})
        for _ in range(rng.randint(0, 3)):
            r = rng.random()
            if r < 0.55:
                tcount += 1
                blocks.append({"k": "table", "n": tcount, "pad": rng.randint(0, 3)})
            elif r < 0.95:
                lines = []
                for _ in range(rng.randint(1, 2)):
                    lines.append(gen_spec(rng, f["rel"], rels, folders, hostile))
                blocks.append({"k": "include", "lines": lines})
            else:
                blocks.append({"k": "directive"})
        f["blocks"] = blocks
    links = []
    if hostile:
        cand = [("ln_out", "../outside"), ("a/ln_up", ".."), ("ln_in", "a"), ("ln_file_out", "../outside/secret.csv"),
                ("c/ln_abs", "ABS_OUTSIDE"), ("ln_self", "ln_self2")]
        for nm, tg in cand:
            if rng.random() < 0.5 and (os.path.dirname(nm) in folders):
                links.append([nm, tg])
    return {"folders": folders, "files": files, "links": links}


def gen_spec(rng, own_rel, rels, folders, hostile):
    """Returns the specification string; INTENT[spec-key] records what it is meant to reach."""
    own_dir = os.path.dirname(own_rel)
    target = rng.choice(rels)
    r = rng.random()
    if hostile and r < 0.5:
        pre = rng.choice(["../", "../../", "/../", "//", "\\", "file:", "FILE:/", "ln_out/", "/ln_out/", "a/ln_up/../",
                          "/c/ln_abs/", "ABS_OUTSIDE/", "/ln_file_out", "ln_in/", "./", "a//", "/./", "///"])
        body = rng.choice(["secret.csv", "outside/secret.csv", target, os.path.basename(target), "", "s2.csv", ".."])
        return pre + body
    if r < 0.3:
        return "/" + target                      # root-anchored
    if r < 0.6:
        return os.path.relpath(target, own_dir or ".")   # relative to the including file's folder
    if r < 0.7:
        return "/" + (rng.choice(folders) or "")         # a folder
    if r < 0.8:
        return os.path.basename(own_rel)                 # self include
    if r < 0.9:
        return "file:/" + target
    return rng.choice(["missing.csv", "/nowhere/x.csv"])


def table_text(n, pad):
    return "\n" * pad + f"**t{n};\nall\nc;\n-;\n{n};\n\n"


def build_tree(tree):
    """Create the tree under a fresh scratch base; returns (base, root_path)."""
    base = os.path.realpath(tempfile.mkdtemp(prefix="pdv_load_"))
    root = os.path.join(base, tree.get("root_name", "root"))      # now and then a folder name with a dot in it
    outside = os.path.join(base, "outside")
    os.makedirs(root)
    os.makedirs(os.path.join(outside, "o1"))
    open(os.path.join(outside, "secret.csv"), "w").write(table_text(777, 0))
    open(os.path.join(outside, "o1", "s2.csv"), "w").write(table_text(778, 0))
    # a sibling of the root whose name starts with the root's name
    os.makedirs(os.path.join(base, "root_x"))
    open(os.path.join(base, "root_x", "secret.csv"), "w").write(table_text(779, 0))
    # ... and one whose name differs from the root's only in letter case
    os.makedirs(os.path.join(base, "ROOT"))
    open(os.path.join(base, "ROOT", "secret.csv"), "w").write(table_text(780, 0))
    for fo in tree["folders"]:
        if fo:
            os.makedirs(os.path.join(root, fo), exist_ok=True)
    for f in tree["files"]:
        txt = ""
        for b in f["blocks"]:
            if b["k"] == "meta":
                txt += "author:;me;\n\n"
            elif b["k"] == "table":
                txt += table_text(b["n"], b["pad"])
            elif b["k"] == "include":
                txt += "***include;\n" + "".join(sp.replace("ABS_OUTSIDE", outside) + "\n" for sp in b["lines"]) + "\n"
            else:
                txt += "***other;\nx\n\n"
        open(os.path.join(root, f["rel"]), "w").write(txt)
    for nm, tg in tree["links"]:
        p = os.path.join(root, nm)
        if not os.path.lexists(p):
            os.symlink(tg.replace("ABS_OUTSIDE", os.path.join(outside, "o1")), p)
    return base, root


def run_load(tree, base, root, cfg, keep_tables=None):
    """cfg: {"use_root": bool, "roots": [spec with ROOT placeholder], "raising": bool, "allow_include": bool,
            "start_pattern": str|None}"""
    from pdtable import BlockType
    from pdtable.io.load import LoadError, load_files
    from pdtable.table_origin import InputError, InputIssueTracker

    events = []

    class Collect(InputIssueTracker):
        def __init__(self):
            self._issues = []

        def add_issue(self, input_issue):
            self._issues.append(input_issue)
            loc = input_issue.load_location
            events.append(["issue", str(input_issue.issue)[:60],
                           None if loc is None else str(getattr(loc, "local_path", None) or getattr(loc, "local_folder_path", None)),
                           None if input_issue.load_item is None else input_issue.load_item.specification])

        @property
        def issues(self):
            return self._issues

    tracker = None if cfg["raising"] else Collect()
    roots = [r.replace("ROOT", root).replace("ABS_OUTSIDE", os.path.join(base, "outside")) for r in cfg["roots"]]
    kw = {"issue_tracker": tracker, "allow_include": cfg["allow_include"], "csv_sep": ";"}
    if cfg["use_root"]:
        kw["root_folder"] = root
    if cfg.get("start_pattern"):
        kw["file_name_start_pattern"] = cfg["start_pattern"]
    if cfg.get("name_pattern"):
        import re

        kw["file_name_pattern"] = re.compile(cfg["name_pattern"])      # a compiled pattern, used with match()
    if cfg.get("proto_stack"):
        kw["additional_protocol_loaders"] = {}      # puts the protocol dispatcher into the loader stack
    code, exc = 0, None
    tables = []
    observe_io(events)
    try:
        with warnings.catch_warnings():
            warnings.simplefilter("ignore")
            for bt, b in load_files(roots, **kw):
                rec = ["yield", bt.name]
                if bt == BlockType.TABLE:
                    loc = b.metadata.origin.input_location
                    hist = [[li.specification, None if li.source is None else str(getattr(li.source, "local_folder_path", None)),
                             # where the item was named: the row of the include directive and the file holding it
                             getattr(li.source, "row", None),
                             None if not hasattr(li.source, "row") else str(li.source.file.local_path)]
                            for li in loc.load_specification.load_history()]
                    rec += [str(loc.file.local_path), b.name, loc.row, loc.sheet_name, hist]
                    tables.append(b)
                elif hasattr(b, "origin") and hasattr(b.origin, "input_location"):
                    rec += [str(b.origin.input_location.file.local_path), getattr(b, "name", None)]
                else:
                    rec += [None, None]
                events.append(rec)
    except InputError as e:
        code, exc = 1, "InputError"
        iss = e.args[0] if e.args else None
        loc = getattr(iss, "load_location", None)
        events.append(["issue", str(getattr(iss, "issue", ""))[:60],
                       None if loc is None else str(getattr(loc, "local_path", None) or getattr(loc, "local_folder_path", None)),
                       None if getattr(iss, "load_item", None) is None else iss.load_item.specification])
    except LoadError as e:
        code, exc = 2, "LoadError"
    except Exception as e:
        code, exc = 3, f"{type(e).__name__}: {e}"[:200]
    finally:
        stop_observe()
    events = [list(e) for e in events]
    issues = [e for e in events if e[0] == "issue"]
    if keep_tables is not None:
        keep_tables.extend(tables)
    trees = None
    if tables and code == 0:
        try:
            from pdtable.io.load import make_location_trees

            forest = make_location_trees(iter(tables))
            trees = [tree_dump(n) for n in forest]
        except Exception as e:
            trees = f"{type(e).__name__}: {e}"[:200]
    # the forest must not depend on the order in which the tables are handed over
    trees_other = {}
    if tables and code == 0 and len(tables) > 1:
        from pdtable.io.load import make_location_trees

        orders = {"reversed": tables[::-1], "by-name": sorted(tables, key=lambda t: t.name),
                  "interleaved": tables[::2] + tables[1::2]}
        for tag, ts in orders.items():
            try:
                trees_other[tag] = [tree_dump(n) for n in make_location_trees(iter(ts))]
            except Exception as e:
                trees_other[tag] = f"{type(e).__name__}: {e}"[:200]
    return {"code": code, "exc": exc, "events": events, "issues": issues, "trees": trees, "trees_other": trees_other,
            "roots": roots}


def tree_dump(node):
    loc = node.location
    kind = type(loc).__name__
    ident = str(getattr(loc, "local_path", None) or getattr(loc, "local_folder_path", None))
    if kind == "LocationBlock":
        ident = f"{loc.file.local_path}#{loc.row}"
    return {"kind": kind, "id": ident, "table": None if node.table is None else node.table.name,
            "table_file": None if node.table is None else str(node.table.metadata.origin.input_location.file.local_path),
            "children": [tree_dump(c) for c in node.children],
            "parent_ok": all(c.parent is node for c in node.children)}


# ---- model encoding ----------------------------------------------------------------------------
def parts(p):
    return [x for x in p.split("/") if x]


def g_path(p):
    return g_list([g_str(x) for x in parts(p)])


def scan_fs(base, tree, root):
    """All nodes the model needs: ancestors of base as dirs, everything under base."""
    nodes = []
    anc = parts(base)
    nodes.append(("/", "dir", sorted(os.listdir("/"))))
    for i in range(1, len(anc)):
        nodes.append(("/" + "/".join(anc[:i]), "dir", [anc[i]]))
    file_blocks = {os.path.join(root, f["rel"]): f["blocks"] for f in tree["files"]}
    for dirpath, dirnames, filenames in os.walk(base, followlinks=False):
        entries = [e.name for e in os.scandir(dirpath)]
        nodes.append((dirpath, "dir", entries))
        for nm in dirnames + filenames:
            p = os.path.join(dirpath, nm)
            if os.path.islink(p):
                nodes.append((p, "link", os.readlink(p)))
            elif os.path.isfile(p):
                nodes.append((p, "file", file_blocks.get(p)))
    return nodes


def g_blocks(blocks, outside):
    out = []
    for b in blocks or []:
        if b["k"] == "table":
            out.append(f"FBTable {g_nat(b['n'])}")
        elif b["k"] == "include":
            out.append("FBInclude " + g_list([g_str(sp.replace("ABS_OUTSIDE", outside)) for sp in b["lines"]]))
        elif b["k"] == "meta":
            out.append("FBOther 900%nat")
        else:
            out.append("FBOther 902%nat")
    return g_list(out)


def g_xfs(nodes, outside):
    items = []
    for p, kind, payload in nodes:
        if kind == "dir":
            items.append(g_pair(g_path(p), "XDir " + g_list([g_str(e) for e in payload])))
        elif kind == "link":
            items.append(g_pair(g_path(p), "XLink " + g_str(payload)))
        else:
            if payload is None:
                # files not written by the generator (outside/): one table each
                n = 779 if "/root_x/" in p else (780 if "/ROOT/" in p else (777 if p.endswith("secret.csv") else 778))
                items.append(g_pair(g_path(p), f"XFile [FBTable {g_nat(n)}]"))
            else:
                items.append(g_pair(g_path(p), "XFile " + g_blocks(payload, outside)))
    return g_list(items)
