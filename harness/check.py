#!/venv/bin/python
"""check.py <Cnn> [--tier quick|thorough] [--replay file]   (cwd = /verif)"""
import argparse
import importlib
import os
import sys
from pathlib import Path

sys.path.insert(0, str(Path(__file__).resolve().parent.parent))
os.environ.setdefault("PYTHONHASHSEED", "0")

from harness import core, driver  # noqa: E402


def main():
    ap = argparse.ArgumentParser()
    ap.add_argument("prop")
    ap.add_argument("--tier", default=os.environ.get("VERIF_TIER", "quick"), choices=["quick", "thorough"])
    ap.add_argument("--replay", default=None)
    a = ap.parse_args()
    mod = importlib.import_module(f"harness.props.{a.prop.lower()}")
    rc = driver.run_property(mod.PROP, a.tier, core.seed_from_env(), a.replay)
    sys.exit(rc)


if __name__ == "__main__":
    main()
