"""JSON <-> python <-> Gallina encodings of cells and rows."""
from __future__ import annotations

import datetime
import math
import struct

from .core import g_str, g_list


class Other:
    """A cell of a python type pdtable has no branch for."""

    def __init__(self, tag):
        self.tag = tag

    def __repr__(self):
        return f"Other({self.tag})"

    __str__ = __repr__


def fbits(x: float) -> int:
    return struct.unpack("<Q", struct.pack("<d", float(x)))[0]


def dt_ns(d) -> int:
    """Resolution-independent token of a timestamp: nanoseconds since the epoch."""
    import pandas as pd

    t = pd.Timestamp(d)
    if t.tzinfo is not None:
        t = t.tz_convert(None)
    # .value always converts to nanoseconds and overflows outside 1677-2262; count microseconds instead
    return int(t.as_unit("us").asm8.view("i8")) * 1000 + int(t.nanosecond)


def to_py(c):
    """JSON cell -> python object handed to pdtable."""
    if c is None or isinstance(c, str):
        return c
    if "i" in c:
        return int(c["i"])
    if "f" in c:
        return float.fromhex(c["f"]) if c["f"] not in ("nan", "inf", "-inf") else float(c["f"])
    if "b" in c:
        return bool(c["b"])
    if "d" in c:
        return datetime.datetime.fromisoformat(c["d"])
    if "ts" in c:
        import pandas as pd

        return pd.Timestamp(c["ts"])
    if "nat" in c:
        import pandas as pd

        return pd.NaT
    if "o" in c:
        return Other(c["o"]) if c["o"] != "date" else datetime.date(2020, 1, 2)
    raise ValueError(c)


def from_py(x):
    """python object -> JSON cell (inverse of to_py, for values the implementation hands back)."""
    import math

    import pandas as pd

    if x is None or isinstance(x, str):
        return x
    if x is pd.NaT:
        return {"nat": 1}
    if isinstance(x, bool):
        return {"b": x}
    if isinstance(x, int):
        return {"i": x}
    if isinstance(x, float):
        return {"f": "nan" if math.isnan(x) else ("inf" if x == math.inf else ("-inf" if x == -math.inf else x.hex()))}
    if isinstance(x, pd.Timestamp):
        return {"ts": x.isoformat()}
    if isinstance(x, datetime.datetime):
        return {"d": x.isoformat()}
    if isinstance(x, datetime.date):
        return {"o": "date"}
    if isinstance(x, Other):
        return {"o": x.tag}
    return {"o": type(x).__name__}


def rows_to_py(rows):
    return [[to_py(c) for c in r] for r in rows]


def canon_fbits(x: float) -> int:
    import math

    return 0x7FF8000000000000 if math.isnan(x) else fbits(x)


def to_coq(c) -> str:
    if c is None:
        return "CNone"
    if isinstance(c, str):
        return f"CStr {g_str(c)}"
    v = to_py(c)
    if "i" in c:
        return f"CInt ({int(c['i'])})%Z {canon_fbits(float(v))} {g_str(str(v))}"
    if "f" in c:
        return f"CFloat {canon_fbits(v)} {g_str(str(v))}"
    if "b" in c:
        return f"CBool {'true' if c['b'] else 'false'}"
    if "d" in c or "ts" in c:
        return f"CDate ({dt_ns(v)})%Z {g_str(str(v))}"
    if "nat" in c:
        return "CNaT"
    if "o" in c:
        return f"COther {sum(map(ord, str(c['o']))) % 1000} {g_str(str(v))}"
    raise ValueError(c)


def row_to_coq(r) -> str:
    return g_list([to_coq(c) for c in r])


def rows_to_coq(rows) -> str:
    return g_list([row_to_coq(r) for r in rows])
