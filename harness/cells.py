"""JSON <-> python <-> Gallina encodings of cells and rows."""
from __future__ import annotations

import datetime
import math
import struct

from .core import g_str, g_list


class Other:
    """A cell of a python type pdtable has no branch for."""

    def __init__(self, tag):
        self.tag = tag

    def __repr__(self):
        return f"Other({self.tag})"


def fbits(x: float) -> int:
    return struct.unpack("<Q", struct.pack("<d", float(x)))[0]


def dt_ns(d) -> int:
    import pandas as pd

    return int(pd.Timestamp(d).value)


def to_py(c):
    """JSON cell -> python object handed to pdtable."""
    if c is None or isinstance(c, str):
        return c
    if "i" in c:
        return int(c["i"])
    if "f" in c:
        return float.fromhex(c["f"]) if c["f"] not in ("nan", "inf", "-inf") else float(c["f"])
    if "b" in c:
        return bool(c["b"])
    if "d" in c:
        return datetime.datetime.fromisoformat(c["d"])
    if "ts" in c:
        import pandas as pd

        return pd.Timestamp(c["ts"])
    if "nat" in c:
        import pandas as pd

        return pd.NaT
    if "o" in c:
        return Other(c["o"]) if c["o"] != "date" else datetime.date(2020, 1, 2)
    raise ValueError(c)


def rows_to_py(rows):
    return [[to_py(c) for c in r] for r in rows]


def to_coq(c) -> str:
    if c is None:
        return "CNone"
    if isinstance(c, str):
        return f"CStr {g_str(c)}"
    if "i" in c:
        return f"CInt ({int(c['i'])})%Z"
    if "f" in c:
        return f"CFloat {fbits(to_py(c))}"
    if "b" in c:
        return f"CBool {'true' if c['b'] else 'false'}"
    if "d" in c or "ts" in c:
        return f"CDate ({dt_ns(to_py(c))})%Z"
    if "nat" in c:
        return "CNaT"
    if "o" in c:
        return f"COther {abs(hash(str(c['o']))) % 1000}"
    raise ValueError(c)


def row_to_coq(r) -> str:
    return g_list([to_coq(c) for c in r])


def rows_to_coq(rows) -> str:
    return g_list([row_to_coq(r) for r in rows])
