import sys, json, random
sys.path.insert(0, "/verif")
from harness import core
import importlib
pid = sys.argv[1]; k = int(sys.argv[2]) if len(sys.argv) > 2 else 3
core.setup_impl_path()
P = importlib.import_module(f"harness.props.{pid.lower()}").PROP
rng = random.Random(core.seed_from_env())
cases = list(P.corpus()) + list(P.generate(rng, "quick"))
res = []
for c in cases:
    o = P.run_impl(c); res.append((c, o, P.to_coq(c, o)))
ev = core.CoqEval(pid)
ev.add("all", P.coq_header, "Definition cases : list case := [\n" + ";\n".join(t for _, _, t in res) + "\n].\nEval vm_compute in (mismatches check cases).\n")
r = ev.run()["all"]; ev.cleanup()
bad = core.parse_nat_list(r[1][0]) if r[1] else []
print("mismatches", len(bad), bad[:15], r[2][-300:] if r[0] else "")
def dec(s):
    import re
    return re.sub(r"\[((?:\d+; )*\d+)\]", lambda m: '"' + "".join(chr(int(x)) for x in m.group(1).split("; ")) + '"', s)
for j in bad[:k]:
    c, o, t = res[j]
    print("=" * 90); print(json.dumps(c)); print("INIT", o["init"], o["init_state"])
    for m, ob in o["log"]: print("  IMPL", m, "->", ob)
    ev2 = core.CoqEval(pid + "d"); ev2.add("one", P.coq_header, f"Definition c : case := {t}.\nEval vm_compute in (trace_case c).\n")
    r2 = ev2.run()["one"]; print("MODEL", dec(r2[1][0] if r2[1] else r2[2])[:3000]); ev2.cleanup()
