"""Generic pipeline for one property: proofs + correspondence + oracle -> exit code, evidence."""
from __future__ import annotations

import json
import random
import time
import traceback
from collections import Counter

from . import core

SHARD = 400


class Prop:
    """Base class; one subclass per property in harness/props/cNN.py."""

    id = "C00"
    coq_header = ""  # e.g. "From PdV Require Import C03."
    coq_case_type = "case"
    coq_check = "check"
    assumptions: list[str] = []
    n_quick = 1500
    n_thorough = 20000

    # ---- to be provided by subclasses ----
    def corpus(self) -> list:
        return []

    def generate(self, rng: random.Random, tier: str) -> list:
        raise NotImplementedError

    def run_impl(self, case) -> dict:
        """Run the real implementation; return a JSON-able canonical observation."""
        raise NotImplementedError

    def oracle(self, case, obs) -> list[str]:
        """Property predicate evaluated on the implementation's result: list of failures."""
        return []

    def to_coq(self, case, obs) -> str | None:
        """Gallina term of type coq_case_type, or None if this case is outside the model."""
        return None

    def finding_key(self, case, obs, failure: str) -> str | None:
        return None

    def shrink(self, case):
        return []

    def nontrivial(self, case, obs) -> bool:
        return True

    def kind(self, case, obs) -> str:
        return "case"

    def sweeps(self, tier, ev: core.CoqEval) -> list:
        """Register extra Coq evaluations; return list of (tag, callable(result)->list[str])."""
        return []

    def py_sweeps(self, tier) -> tuple[list[str], dict]:
        """Interpreter-side sweeps: (failures, coverage info)."""
        return [], {}

    def extra_cov(self) -> dict:
        return {}


def _safe_run(prop: Prop, case):
    try:
        return prop.run_impl(case)
    except Exception as e:  # a harness bug or an unexpected escape: keep it visible
        return {"harness_exception": f"{type(e).__name__}: {e}", "tb": traceback.format_exc()[-1500:]}


def _oracle(prop: Prop, case, obs):
    """The property's oracle, never raising: a run the harness could not observe, or an observation the oracle
    cannot digest, is itself a failure to report (with the case as replay)."""
    if "harness_exception" in obs:
        return ["harness-exception: " + obs["harness_exception"] + " | " + obs.get("tb", "")[-400:]]
    try:
        return list(prop.oracle(case, obs))
    except Exception as e:  # noqa: BLE001
        return [f"harness-exception: oracle raised {type(e).__name__}: {e} | " + traceback.format_exc()[-400:]]


def _shrink_oracle(prop: Prop, case, failure_key, budget=150):
    cur = case
    n = 0
    improved = True
    while improved and n < budget:
        improved = False
        for cand in prop.shrink(cur):
            n += 1
            if n > budget:
                break
            obs = _safe_run(prop, cand)
            fails = _oracle(prop, cand, obs)
            if any(_fkey(f) == failure_key for f in fails):
                cur, improved = cand, True
                break
    return cur


def _fkey(f: str) -> str:
    return f.split(":")[0]


def run_property(prop: Prop, tier: str, seed: int, replay: str | None = None) -> int:
    pid = prop.id
    out = core.Outcome(pid, tier, seed)
    out.assumptions = list(prop.assumptions)
    proof = core.proof_status(pid, tier)
    core.setup_impl_path()
    known = {e["key"]: e for e in core.load_known(pid) if e.get("status") == "open"}

    rng = random.Random(seed)
    if replay:
        rp = json.loads(open(replay).read())
        cases = [rp["case"]] if "case" in rp else []
    else:
        cases = list(prop.corpus()) + list(prop.generate(rng, tier))

    t_impl = time.time()
    results = []
    for case in cases:
        results.append((case, _safe_run(prop, case)))
    t_impl = time.time() - t_impl

    # ---- oracle on the implementation ----
    oracle_fail = 0
    unknown_oracle: dict[str, tuple] = {}
    kinds = Counter()
    distinct = set()
    for case, obs in results:
        if "harness_exception" in obs:
            fails = _oracle(prop, case, obs)
        else:
            try:
                kinds[prop.kind(case, obs)] += 1
                if prop.nontrivial(case, obs):
                    distinct.add(json.dumps(case, sort_keys=True, default=str))
            except Exception:  # noqa: BLE001
                pass
            fails = _oracle(prop, case, obs)
        for f in fails:
            oracle_fail += 1
            key = prop.finding_key(case, obs, f)
            if key is not None and key in known:
                out.known(key, known[key]["what"])
            else:
                unknown_oracle.setdefault(_fkey(f), (case, obs, f))
    for fk, (case, obs, f) in unknown_oracle.items():
        small = _shrink_oracle(prop, case, fk)
        sobs = _safe_run(prop, small)
        out.violation(
            f"oracle: {f}",
            {"kind": "oracle", "case": small, "observed": sobs, "original_case": case, "failure": f},
            True,
        )

    # ---- correspondence: model (Coq, vm_compute) vs implementation ----
    ev = core.CoqEval(pid)
    mism = []
    n_corr = 0
    sweep_fail: list[str] = []
    try:
        terms = []
        for idx, (case, obs) in enumerate(results):
            try:
                if hasattr(prop, "multi_coq") and "harness_exception" not in obs:
                    for t in prop.multi_coq(case, obs):
                        if t is not None:
                            terms.append((idx, t))
                    continue
                t = prop.to_coq(case, obs) if "harness_exception" not in obs else None
            except Exception:  # noqa: BLE001  (an observation the encoder cannot digest: the oracle has already reported it)
                t = None
            if t is not None:
                terms.append((idx, t))
        n_corr = len(terms)
        shard = max(40, -(-len(terms) // (core.NCPU - 1)))
        shards = [terms[i : i + shard] for i in range(0, len(terms), shard)]
        for k, sh in enumerate(shards):
            body = (
                f"Definition cases : list {prop.coq_case_type} := [\n"
                + ";\n".join(t for _, t in sh)
                + "\n].\nEval vm_compute in (mismatches "
                + prop.coq_check
                + " cases).\n"
            )
            ev.add(f"shard{k}", prop.coq_header, body)
        sweep_handlers = prop.sweeps(tier, ev)
        res = ev.run()
        for k, sh in enumerate(shards):
            rc, vals, raw = res[f"shard{k}"]
            if rc != 0 or len(vals) != 1:
                mism.append((None, f"cases shard {k} did not evaluate (rc={rc}): " + core._first_error(raw)))
                continue
            for j in core.parse_nat_list(vals[0]):
                mism.append((sh[j][0], "model and implementation differ"))
        for tag, handler in sweep_handlers:
            rc, vals, raw = res[tag]
            if rc != 0:
                sweep_fail.append(f"sweep {tag} did not evaluate (rc={rc}): " + core._first_error(raw))
            else:
                sweep_fail.extend(handler(vals))
    finally:
        coq_wall = ev.wall
        ev.cleanup()

    py_fail, py_cov = prop.py_sweeps(tier)
    # an interpreter-side sweep names the concrete failing call: a violation with its input
    for sf in py_fail:
        out.violation(f"sweep: {sf}", {"kind": "interpreter-sweep", "detail": sf,
                                       "replay": "the failing call and its arguments are spelled out in 'detail'"}, True)

    # ---- a proof / correspondence / sweep broke but no generated case violates the property: look further ----
    searched = 0
    if (not proof.ok or mism or sweep_fail) and not unknown_oracle and not replay:
        t_s = time.time()
        budget = 60 if tier == "quick" else 600
        try:
            extra = prop.generate(random.Random(seed * 7919 + 13), "thorough")
        except Exception:
            extra = []
        for case in extra:
            if time.time() - t_s > budget:
                break
            obs = _safe_run(prop, case)
            searched += 1
            if "harness_exception" in obs:
                continue
            fails = [f for f in _oracle(prop, case, obs) if prop.finding_key(case, obs, f) not in known]
            if fails:
                small = _shrink_oracle(prop, case, _fkey(fails[0]))
                out.violation(f"oracle (search after a broken proof/correspondence): {fails[0]}",
                              {"kind": "oracle", "case": small, "observed": _safe_run(prop, small), "original_case": case,
                               "failure": fails[0], "found_by": "counterexample search"}, True)
                unknown_oracle[_fkey(fails[0])] = (case, obs, fails[0])
                break

    # ---- verdicts for proof / correspondence breaks ----
    have_input = bool(unknown_oracle) or bool(py_fail)
    if not proof.ok:
        what = "proof obligation no longer checks: " + "; ".join(proof.problems)
        if not have_input:
            out.violation(what, {"kind": "proof", "problems": proof.problems, "log": proof.log}, False)
        else:
            print(f"[{pid}] note: {what}")
    if mism:
        idx, why = mism[0]
        case, obs = results[idx] if idx is not None else (None, None)
        what = f"correspondence {prop.coq_header.strip()} / {prop.coq_check}: {why} on {len(mism)} case(s)"
        if not have_input:
            out.violation(
                what,
                {"kind": "correspondence", "case": case, "observed": obs, "n_mismatch": len(mism),
                 "checker": prop.coq_check},
                False,
            )
        else:
            print(f"[{pid}] note: {what}")
    for sf in sweep_fail:
        if have_input:
            print(f"[{pid}] note: sweep: {sf}")
        else:
            out.violation(f"sweep: {sf}", {"kind": "sweep", "detail": sf}, False)

    samples = []
    for case, obs in results[:2] + results[len(results) // 2 : len(results) // 2 + 1]:
        samples.append({"case": case, "observed": obs})
    cov = {
        "evaluations": len(results),
        "distinct_nontrivial": len(distinct),
        "rule": getattr(prop, "rule", ""),
        "samples": samples,
        "case_kinds": dict(kinds),
        "correspondence_cases": n_corr,
        "correspondence_mismatches": len(mism),
        "oracle_failures": oracle_fail,
        "counterexample_search_cases": searched,
        "sweep_failures": sweep_fail,
        "impl_wall_s": round(t_impl, 2),
        "coq_eval_wall_s": round(coq_wall, 2),
        "exhaustive": False,
    }
    cov.update(py_cov)
    cov.update(prop.extra_cov())
    return out.finish(proof, cov)
