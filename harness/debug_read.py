"""debug: print model vs implementation for read cases of a property (first k mismatches)."""
import sys, json, random, subprocess, tempfile, os
sys.path.insert(0, "/verif")
from harness import core, readsys as R
import importlib
pid = sys.argv[1]; k = int(sys.argv[2]) if len(sys.argv) > 2 else 3
core.setup_impl_path()
mod = importlib.import_module(f"harness.props.{pid.lower()}")
P = mod.PROP
rng = random.Random(core.seed_from_env())
cases = list(P.corpus()) + list(P.generate(rng, "quick"))
ev = core.CoqEval(pid)
res = []
for c in cases:
    o = P.run_impl(c); t = P.to_coq(c, o); res.append((c, o, t))
terms = [(i, t) for i, (c, o, t) in enumerate(res) if t]
body = "Definition cases : list case := [\n" + ";\n".join(t for _, t in terms) + "\n].\nEval vm_compute in (mismatches check cases).\n"
ev.add("all", P.coq_header, body)
r = ev.run()["all"]
bad = core.parse_nat_list(r[1][0]) if r[1] else []
print("rc", r[0], "mismatches", bad[:20], r[2][-500:] if r[0] else "")
for j in bad[:k]:
    i, t = terms[j]
    c, o, _ = res[i]
    print("=" * 80); print(json.dumps(c)[:1500]); print("IMPL", json.dumps({k2: v for k2, v in o.items() if k2 in ("events", "final")})[:2500])
    ev2 = core.CoqEval(pid + "d")
    ev2.add("one", P.coq_header, f"Definition c : case := {t}.\nEval vm_compute in (run_model c).\n")
    r2 = ev2.run()["one"]; print("MODEL", (r2[1][0] if r2[1] else r2[2])[:3000]); ev2.cleanup()
ev.cleanup()
