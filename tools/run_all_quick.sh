#!/bin/bash
# every registered quick check once, default seed; evidence files are rewritten
cd /verif
for P in C01 C02 C03 C04 C05 C06 C07 C08 C09 C10 C11 C12 C13 C14 C15 C16 C17 C18 C19 C20; do
  /venv/bin/python harness/check.py $P --tier quick 2>&1 | tail -1
done
