#!/bin/bash
# eval_seed.sh <PROP> <SRCDIR> <NAME> [extra props to run...]
# Applies SRCDIR/patch.diff to /repo, confirms tests + demo, runs the property's quick check, undoes.
set -u
P=$1; SRC=$2; NAME=$3; shift 3
DEST=/verif/seeded/${P}_${NAME}
cd /repo || exit 2
git diff --quiet || { echo "repo not clean"; exit 2; }
echo "== demo on unchanged tree"
PYTHONPATH=/repo /venv/bin/python $SRC/demo.py >/dev/null 2>&1; D0=$?
git apply $SRC/patch.diff 2>/dev/null || patch -p1 -s -F3 < $SRC/patch.diff || { echo "patch does not apply"; git checkout -- .; exit 2; }; find . -name "*.orig" -delete; git diff > /tmp/_applied.diff
echo "== tests with patch"
T=$(/venv/bin/python -m pytest -q -p no:cacheprovider --timeout=900 2>&1 | tail -1)
echo "$T"
PYTHONPATH=/repo /venv/bin/python $SRC/demo.py >/dev/null 2>&1; D1=$?
echo "demo: unchanged=$D0 patched=$D1"
cd /verif
RES=""
for Q in $P "$@"; do
  OUT=$(/venv/bin/python harness/check.py $Q 2>&1); RC=$?
  echo "$OUT" | grep -E "VIOLATION|KNOWN|^\[$Q\]" | head -6
  RES="$RES $Q:rc=$RC"
done
git -C /repo checkout -- .
git -C /verif checkout -- evidence 2>/dev/null
mkdir -p $DEST
cp /tmp/_applied.diff $DEST/patch.diff; cp $SRC/demo.py $DEST/
cp $SRC/notes.txt $DEST/notes.txt 2>/dev/null
python3 - <<PY
import json
json.dump({"property":"$P","name":"$NAME","tests_with_patch":"""$T""".strip(),"demo_exit_unchanged":$D0,"demo_exit_patched":$D1,
 "checks_run":"$RES".split(),"needs":open("$DEST/notes.txt").read() if __import__("os").path.exists("$DEST/notes.txt") else ""},open("$DEST/meta.json","w"),indent=1)
PY
echo "RESULT $P $NAME:$RES"
