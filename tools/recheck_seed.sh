#!/bin/bash
# recheck_seed.sh <seeded dir name> <PROP>...: apply the stored patch to /repo, run the quick checks, undo.
D=/verif/seeded/$1; shift
cd /repo || exit 2
git diff --quiet || { echo "repo not clean"; exit 2; }
git apply $D/patch.diff || { echo "patch does not apply"; exit 2; }
cd /verif
for Q in "$@"; do
  OUT=$(/venv/bin/python harness/check.py $Q 2>&1); RC=$?
  echo "$OUT" | grep -E "VIOLATION|KNOWN|^\[$Q\]|oracle:" | head -5
  echo "RESULT $(basename $D) $Q rc=$RC"
done
git -C /repo checkout -- .
git -C /verif checkout -- evidence 2>/dev/null
