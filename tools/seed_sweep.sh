#!/bin/bash
# seed_sweep.sh <seed>...: all quick checks under other seeds (development aid; evidence is restored afterwards)
cd /verif
for S in "$@"; do
  for P in C01 C02 C03 C04 C05 C06 C07 C08 C09 C10 C11 C12 C13 C14 C15 C16 C17 C18 C19 C20; do
    OUT=$(VERIF_SEED=$S /venv/bin/python harness/check.py $P --tier quick 2>&1); RC=$?
    echo "seed=$S $P rc=$RC $(echo "$OUT" | tail -1)"
    [ $RC -ne 0 ] && echo "$OUT" | grep -E "VIOLATION|oracle:|correspondence" | head -6
  done
done
git checkout -- evidence 2>/dev/null
