#!/bin/bash
# every registered thorough check once (development aid: timing and a full pass); evidence restored afterwards
cd /verif
for P in C20 C14 C06 C03 C02 C11 C13 C12 C07 C10 C01 C08 C09 C04 C15 C05 C16 C17 C18 C19; do
  S=$(date +%s)
  OUT=$(/venv/bin/python harness/check.py $P --tier thorough 2>&1); RC=$?
  echo "$P rc=$RC $(( $(date +%s) - S ))s $(echo "$OUT" | tail -1)"
  [ $RC -ne 0 ] && echo "$OUT" | grep -E "VIOLATION|oracle:|correspondence|sweep" | head -6
done
git checkout -- evidence 2>/dev/null
