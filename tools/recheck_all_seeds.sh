#!/bin/bash
# Re-apply every stored mutation to /repo, run its property's quick check, undo; summary in seeded/RECHECK.txt
cd /verif
OUT=seeded/RECHECK.txt; : > $OUT
for D in seeded/*/; do
  N=$(basename $D); P=${N%%_*}
  cd /repo; git diff --quiet || { echo "repo not clean"; exit 2; }
  git apply /verif/$D/patch.diff 2>/dev/null || patch -p1 -s -F3 < /verif/$D/patch.diff || { echo "$N patch does not apply" >> /verif/$OUT; git checkout -- .; find . -name "*.orig" -delete; find . -name "*.rej" -delete; cd /verif; continue; }
  cd /verif
  R=$(/venv/bin/python harness/check.py $P 2>&1 | tail -1)
  git -C /repo checkout -- .; find /repo -name "*.orig" -delete
  echo "$N $R" >> $OUT
done
git -C /verif checkout -- evidence 2>/dev/null
grep -c FAIL $OUT
