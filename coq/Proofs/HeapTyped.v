(* C05: the metadata of a pandas result is well-formed - every reference points at an object of
   the right kind - so none of the defaults of dests_of / dict_of / cm_of is ever taken on it. *)
From Coq Require Import Lia.
From PdV.Model Require Import Heap.
From PdV Require Import TextProofs HeapProofs.
Local Open Scope nat_scope.

Definition typed (h : heap) (i : info) : Prop :=
  (exists m l, meta_of h i = Some m /\ get h (tm_dests m) = Some (OSet l)) /\
  (exists d, get h (i_dict i) = Some (ODict d) /\ forall n id, In (n, id) d -> exists c, cm_of h id = Some c).

(* heap extension: objects stay, column-metadata objects stay column metadata, all others unchanged *)
Definition ext (h h' : heap) : Prop :=
  forall id o, get h id = Some o ->
    match o with
    | OCm _ => exists c, get h' id = Some (OCm c)
    | _ => get h' id = Some o
    end.

Lemma ext_refl h : ext h h.
Proof. intros id o H. destruct o; eauto. Qed.

Lemma ext_trans a b c : ext a b -> ext b c -> ext a c.
Proof.
  intros H1 H2 id o H. specialize (H1 id o H). destruct o.
  - destruct H1 as [c1 H1]. exact (H2 id _ H1).
  - exact (H2 id _ H1).
  - exact (H2 id _ H1).
  - exact (H2 id _ H1).
Qed.

Lemma ext_alloc h o : wf_heap h -> ext h (fst (alloc h o)).
Proof.
  intros W id o' H. pose proof (W id o' H) as Hlt.
  assert (get (fst (alloc h o)) id = Some o') as E by (rewrite get_alloc_old; [exact H|lia]).
  destruct o'; eauto.
Qed.

Lemma ext_put_cm h id a c : cm_of h id = Some a -> ext h (put h id (OCm c)).
Proof.
  intros Ha id' o H. destruct (Nat.eq_dec id' id) as [->|Hne].
  - unfold cm_of in Ha. rewrite H in Ha. destruct o; try discriminate. exists c. apply get_put_same.
  - assert (get (put h id (OCm c)) id' = Some o) as E by (rewrite get_put_other; assumption).
    destruct o; eauto.
Qed.

Lemma wf_alloc h o : wf_heap h -> wf_heap (fst (alloc h o)).
Proof.
  intros W id o' H. cbn [alloc fst nxt]. destruct (Nat.eq_dec id (nxt h)) as [->|Hne]; [lia|].
  rewrite get_alloc_old in H by assumption. specialize (W id o' H). lia.
Qed.

Lemma wf_put h id o : id < nxt h -> wf_heap h -> wf_heap (put h id o).
Proof.
  intros Hid W id' o' H. cbn [put nxt]. destruct (Nat.eq_dec id' id) as [->|Hne]; [exact Hid|].
  rewrite get_put_other in H by assumption. exact (W id' o' H).
Qed.

Lemma cm_of_ext h h' id c : ext h h' -> cm_of h id = Some c -> exists c', cm_of h' id = Some c'.
Proof.
  intros E H. unfold cm_of in *. destruct (get h id) as [[m| | |]|] eqn:G; try discriminate.
  destruct (E id _ G) as [c' Hc]. exists c'. now rewrite Hc.
Qed.

Lemma copy_cm_spec h id : wf_heap h ->
  let r := copy_cm h id in wf_heap (fst r) /\ ext h (fst r) /\ exists c, cm_of (fst r) (snd r) = Some c.
Proof.
  intro W. unfold copy_cm. destruct (cm_of h id) as [m|].
  - split; [now apply wf_alloc|]. split; [now apply ext_alloc|]. exists m. unfold cm_of. cbn [alloc fst snd]. now rewrite get_alloc_new'.
  - split; [now apply wf_alloc|]. split; [now apply ext_alloc|]. eexists. unfold cm_of. cbn [alloc fst snd]. now rewrite get_alloc_new'.
Qed.

Definition acc_ok (h : heap) (acc : list (str * nat)) : Prop :=
  forall n id, In (n, id) acc -> exists c, cm_of h id = Some c.

Lemma acc_ok_ext h h' acc : ext h h' -> acc_ok h acc -> acc_ok h' acc.
Proof. intros E A n id Hin. destruct (A n id Hin) as [c Hc]. eapply cm_of_ext; eauto. Qed.

Lemma merge_dict_typed out src : forall h acc h' acc' e,
  wf_heap h -> acc_ok h acc -> merge_dict h out src acc = (h', acc', e) ->
  wf_heap h' /\ ext h h' /\ acc_ok h' acc'.
Proof.
  induction src as [|[n cid] rest IH]; intros h acc h' acc' e W A H; cbn [merge_dict] in H.
  - inversion H; subst. repeat split; [assumption|apply ext_refl|assumption].
  - destruct (negb (mem_str n out)); [now apply (IH h acc h' acc' e)|].
    destruct (dict_get n acc) as [aid|] eqn:D.
    + destruct (cm_of h aid) as [a|] eqn:Ca; [|now apply (IH h acc h' acc' e)].
      destruct (cm_of h cid) as [c|] eqn:Cc; [|now apply (IH h acc h' acc' e)].
      destruct (str_eqb (cm_unit a) (cm_unit c)).
      * assert (aid < nxt h) as Hlt.
        { unfold cm_of in Ca. destruct (get h aid) eqn:G; [|discriminate]. exact (W aid _ G). }
        pose proof (ext_put_cm h aid a (update_from a c) Ca) as E1.
        destruct (IH _ acc h' acc' e (wf_put h aid _ Hlt W) (acc_ok_ext _ _ _ E1 A) H) as (W' & E2 & A').
        repeat split; [assumption|eapply ext_trans; eauto|assumption].
      * inversion H; subst. repeat split; [assumption|apply ext_refl|assumption].
    + destruct (copy_cm h cid) as [h1 nid] eqn:Cp.
      pose proof (copy_cm_spec h cid W) as S. rewrite Cp in S. cbn [fst snd] in S. destruct S as (W1 & E1 & [c Hc]).
      assert (acc_ok h1 (acc ++ [(n, nid)])) as A1.
      { intros n' id' Hin. apply in_app_or in Hin as [Hin|[Hin|[]]].
        - exact (acc_ok_ext _ _ _ E1 A n' id' Hin).
        - inversion Hin; subst. eauto. }
      destruct (IH h1 _ h' acc' e W1 A1 H) as (W' & E2 & A').
      repeat split; [assumption|eapply ext_trans; eauto|assumption].
Qed.

Lemma merge_all_typed out srcs : forall h acc h' acc' e,
  wf_heap h -> acc_ok h acc -> merge_all h out srcs acc = (h', acc', e) ->
  wf_heap h' /\ ext h h' /\ acc_ok h' acc'.
Proof.
  induction srcs as [|s rest IH]; intros h acc h' acc' e W A H; cbn [merge_all] in H.
  - inversion H; subst. repeat split; [assumption|apply ext_refl|assumption].
  - destruct (merge_dict h out (dict_of h s) acc) as [[h1 acc1] e1] eqn:M.
    destruct (merge_dict_typed out _ _ _ _ _ _ W A M) as (W1 & E1 & A1).
    destruct e1 as [x|].
    + inversion H; subst. repeat split; assumption.
    + destruct (IH _ _ _ _ _ W1 A1 H) as (W' & E2 & A'). repeat split; [assumption|eapply ext_trans; eauto|assumption].
Qed.

(* the result of a pandas operation is well-formed, whatever the sources looked like *)
Theorem combine_typed h srcs out method strict h' r :
  wf_heap h -> combine h srcs out method strict = (h', Some (inl r)) -> typed h' r.
Proof.
  intros W H. unfold combine in H. destruct srcs as [|first rest]; [discriminate|].
  destruct (meta_of h first) as [m0|]; [|discriminate].
  set (origin := ODerived _ _) in H.
  destruct (alloc h (OSet (dests_of h first))) as [h1 sid] eqn:A1.
  set (om := OMeta {| tm_name := tm_name m0; tm_dests := sid; tm_origin := origin; tm_transposed := false; tm_strict := strict |}) in *.
  destruct (alloc h1 om) as [h2 mid] eqn:A2.
  destruct (merge_all h2 out (first :: rest) []) as [[h3 d] e] eqn:M. destruct e; [discriminate|].
  destruct (alloc h3 (ODict d)) as [h4 did] eqn:A4. inversion H; subst h' r. clear H.
  assert (wf_heap h1) as W1 by (pose proof (wf_alloc h (OSet (dests_of h first)) W) as X; now rewrite A1 in X).
  assert (wf_heap h2) as W2 by (pose proof (wf_alloc h1 om W1) as X; rewrite A2 in X; exact X).
  destruct (merge_all_typed out _ _ _ _ _ _ W2 (fun n id (Hin : In (n, id) []) => match Hin with end) M) as (W3 & E3 & A3).
  assert (ext h3 h4) as E4 by (pose proof (ext_alloc h3 (ODict d) W3) as X; now rewrite A4 in X).
  (* the set and the metadata object allocated first are still there *)
  assert (get h1 sid = Some (OSet (dests_of h first))) as Gs.
  { pose proof (get_alloc_new h (OSet (dests_of h first))) as X. rewrite A1 in X. inversion A1; subst. exact X. }
  assert (get h2 sid = Some (OSet (dests_of h first))) as Gs2.
  { pose proof (ext_alloc h1 om W1 sid _ Gs) as X.
    rewrite A2 in X. exact X. }
  assert (get h2 mid = Some om) as Gm2.
  { pose proof (get_alloc_new h1 om) as X.
    rewrite A2 in X. inversion A2; subst. exact X. }
  pose proof (E4 sid _ (E3 sid _ Gs2)) as Gs4. pose proof (E4 mid _ (E3 mid _ Gm2)) as Gm4. cbn in Gs4, Gm4.
  split.
  - eexists _, _. unfold meta_of. cbn [i_meta]. rewrite Gm4. split; [reflexivity|]. cbn [tm_dests]. exact Gs4.
  - exists d. cbn [i_dict]. split.
    + pose proof (get_alloc_new h3 (ODict d)) as X. rewrite A4 in X. inversion A4; subst. exact X.
    + exact (acc_ok_ext _ _ _ E4 A3).
Qed.

(* on a well-formed source the destinations the result starts from are the contents of the source's
   own set object, not a default *)
Lemma dests_of_typed h i : typed h i ->
  exists m l, meta_of h i = Some m /\ get h (tm_dests m) = Some (OSet l) /\ dests_of h i = l.
Proof.
  intros [(m & l & Hm & Hl) _]. exists m, l. repeat split; try assumption. unfold dests_of. now rewrite Hm, Hl.
Qed.

(* ---------- Table(df, name=..., units=...) ---------- *)
Lemma alloc_units_typed names : forall h units h' d,
  wf_heap h -> alloc_units h names units = (h', d) -> wf_heap h' /\ ext h h' /\ acc_ok h' d.
Proof.
  induction names as [|n ns IH]; intros h units h' d W H; cbn [alloc_units] in H.
  - inversion H; subst. repeat split; [assumption|apply ext_refl|intros ? ? []].
  - destruct units as [|u us].
    + inversion H; subst. repeat split; [assumption|apply ext_refl|intros ? ? []].
    + set (o := OCm {| cm_unit := u; cm_display_unit := None; cm_format := None |}) in *.
      destruct (alloc h o) as [h1 id] eqn:A.
      destruct (alloc_units h1 ns us) as [h2 rest] eqn:R. inversion H; subst h' d. clear H.
      assert (wf_heap h1) as W1 by (pose proof (wf_alloc h o W) as X; now rewrite A in X).
      assert (ext h h1) as E1 by (pose proof (ext_alloc h o W) as X; now rewrite A in X).
      assert (get h1 id = Some o) as G by (pose proof (get_alloc_new h o) as X; rewrite A in X; inversion A; subst; exact X).
      destruct (IH h1 us h2 rest W1 R) as (W2 & E2 & A2).
      repeat split; [assumption|eapply ext_trans; eauto|].
      intros n' id' [Hin|Hin]; [|now apply (A2 n' id')].
      inversion Hin; subst n' id'. destruct (E2 id _ G) as [c Hc]. exists c. unfold cm_of. now rewrite Hc.
Qed.

Theorem rewrap_typed h i nn nu h' r :
  wf_heap h -> rewrap h i nn nu = (h', Some r) -> typed h' r.
Proof.
  intros W H. unfold rewrap in H. destruct (meta_of h i) as [m|]; [|discriminate].
  set (os := OSet (dests_of h i)) in *.
  destruct (alloc h os) as [h1 sid] eqn:A1.
  set (om := OMeta {| tm_name := match nn with Some n => n | None => tm_name m end; tm_dests := sid;
                      tm_origin := tm_origin m; tm_transposed := tm_transposed m; tm_strict := tm_strict m |}) in *.
  destruct (alloc h1 om) as [h2 mid] eqn:A2.
  destruct (alloc_units h2 (map fst (dict_of h i)) _) as [h3 d] eqn:AU.
  destruct (alloc h3 (ODict d)) as [h4 did] eqn:A4. inversion H; subst h' r. clear H.
  assert (wf_heap h1) as W1 by (pose proof (wf_alloc h os W) as X; now rewrite A1 in X).
  assert (wf_heap h2) as W2 by (pose proof (wf_alloc h1 om W1) as X; now rewrite A2 in X).
  destruct (alloc_units_typed _ _ _ _ _ W2 AU) as (W3 & E3 & A3).
  assert (ext h3 h4) as E4 by (pose proof (ext_alloc h3 (ODict d) W3) as X; now rewrite A4 in X).
  assert (get h1 sid = Some os) as Gs by (pose proof (get_alloc_new h os) as X; rewrite A1 in X; inversion A1; subst; exact X).
  assert (get h2 sid = Some os) as Gs2 by (pose proof (ext_alloc h1 om W1 sid _ Gs) as X; rewrite A2 in X; exact X).
  assert (get h2 mid = Some om) as Gm2 by (pose proof (get_alloc_new h1 om) as X; rewrite A2 in X; inversion A2; subst; exact X).
  pose proof (E4 sid _ (E3 sid _ Gs2)) as Gs4. pose proof (E4 mid _ (E3 mid _ Gm2)) as Gm4. cbn in Gs4, Gm4.
  split.
  - eexists _, _. unfold meta_of. cbn [i_meta]. rewrite Gm4. split; [reflexivity|]. cbn [tm_dests]. exact Gs4.
  - exists d. cbn [i_dict]. split.
    + pose proof (get_alloc_new h3 (ODict d)) as X. rewrite A4 in X. inversion A4; subst. exact X.
    + exact (acc_ok_ext _ _ _ E4 A3).
Qed.
