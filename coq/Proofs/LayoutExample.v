(* Non-vacuity of the layout theorems: a concrete table with noise of every kind. *)
From Coq Require Import Lia.
From PdV Require Import ParseTable LayoutProofs.
Local Open Scope N_scope.

(* the hypotheses are satisfiable: a 2-column, 2-row table with noise of every kind *)
Example layouts_agree_applies :
  let pf := fun s : str => match s with [49] => Some 1 | [50] => Some 2 | _ => None end in
  let pd := fun _ : str => DBad in
  let cfg := {| stop_on_errors := true; strict_types := true; fix_value := stock_fix |} in
  let cellat := fun j i => match j, i with
                           | O, O => CStr [49] | O, _ => CStr [32; 50]
                           | _, O => CStr [120] | _, _ => CStr [] end in
  let fx := {| fx_errors := 0%nat; fx_warnings := 0%nat; fx_messages := [] |} in
  exists p,
    parse_table pf pd cfg
      (rowwise_grid cellat 2%nat 2%nat [42; 42; 116] [CStr []] (CStr [97; 108; 108]) [] [[32; 97]; [98; 32]] [[45; 32]; [116; 101; 120; 116]]
                    [CStr []; CStr [99; 111; 109]] [CNone] (fun _ => [CStr []])) fx = Ok p /\
    parse_table pf pd cfg
      (transposed_grid cellat 2%nat 2%nat [42; 42; 116; 42] [] (CStr [97; 108; 108]) [CStr []] [[97]; [98]] [[45]; [116; 101; 120; 116]]
                       (fun j => repeat (CStr []) j)) fx = Ok (with_flag p true) /\
    p_cols p = [[VNum 1; VNum 2]; [VText [120]; VText []]].
Proof.
  cbv zeta.
  edestruct layouts_agree as (p & H1 & H2 & _ & _ & _ & _ & _ & Hc & _);
    [ | | | | | | | | | | | | | | | | | | exists p; split; [exact H1|split; [exact H2|rewrite Hc; reflexivity]]];
    try reflexivity.
  - repeat constructor.
  - repeat constructor.
  - right. eexists _, _. split; reflexivity.
  - repeat constructor; cbn; intuition discriminate.
  - repeat constructor; discriminate.
  - intros [|[|j]] [|[|i]] Hj Hi; try lia; eexists; reflexivity.
  - lia.
  - intro j. induction j; cbn; constructor; auto.
  - intros [|[|i]] Hi; try lia; exists 0%nat; split; try lia; reflexivity.
Qed.
