(* The destinations line: names joined by single blanks read back as the same names. *)
From Coq Require Import Lia.
From PdV Require Import ParseTable TextProofs WriteProofs.
Local Open Scope nat_scope.

Definition nospace (d : str) : bool := forallb (fun c => negb (is_space c)) d.
Definition hd_ok (s : str) : Prop := match s with c :: _ => is_space c = false | [] => True end.

Lemma lstrip_id s : hd_ok s -> lstrip s = s.
Proof. destruct s as [|c t]; cbn; [reflexivity|]. intros ->. reflexivity. Qed.

Lemma strip_id s : hd_ok s -> hd_ok (rev s) -> strip s = s.
Proof.
  intros H1 H2. unfold strip, rstrip. rewrite (lstrip_id s H1), (lstrip_id (rev s) H2). apply rev_involutive.
Qed.

Lemma hd_ok_app a b : a <> [] -> hd_ok a -> hd_ok (a ++ b).
Proof. destruct a; [congruence|]. cbn. auto. Qed.

Lemma nospace_hd d : nospace d = true -> hd_ok d.
Proof. destruct d as [|c t]; cbn; [auto|]. intro H. apply andb_true_iff in H as [H _]. now apply negb_true_iff in H. Qed.

Lemma nospace_rev d : nospace d = true -> nospace (rev d) = true.
Proof.
  unfold nospace. rewrite !forallb_forall. intros H x Hx. apply H. now apply in_rev.
Qed.

Lemma nospace_has32 d : nospace d = true -> has 32%N d = false.
Proof.
  unfold nospace, has. intro H. destruct (existsb (N.eqb 32) d) eqn:E; [|reflexivity].
  apply existsb_exists in E as (x & Hx & Ex). apply N.eqb_eq in Ex. subst x.
  rewrite forallb_forall in H. specialize (H _ Hx). discriminate.
Qed.

Definition dest_ok (d : str) : Prop := d <> [] /\ nospace d = true.

Lemma join_nonempty ds : ds <> [] -> Forall dest_ok ds -> join [32%N] ds <> [].
Proof.
  destruct ds as [|d rest]; [congruence|]. intros _ H. inversion H as [|? ? [Hd _] _]; subst.
  destruct rest; cbn; [exact Hd|]. destruct d; [congruence|discriminate].
Qed.

Lemma join_hd_ok ds : Forall dest_ok ds -> hd_ok (join [32%N] ds).
Proof.
  destruct ds as [|d rest]; [constructor|]. intro H. inversion H as [|? ? [Hd Hn] _]; subst.
  destruct rest; cbn [join]; [now apply nospace_hd|]. apply hd_ok_app; [exact Hd|now apply nospace_hd].
Qed.

Lemma join_rev_hd_ok ds : Forall dest_ok ds -> hd_ok (rev (join [32%N] ds)).
Proof.
  induction ds as [|d rest IH]; [constructor|]. intro H. inversion H as [|? ? [Hd Hn] Hrest]; subst.
  destruct rest as [|d2 r].
  - cbn [join]. apply nospace_hd. now apply nospace_rev.
  - change (join [32%N] (d :: d2 :: r)) with (d ++ [32%N] ++ join [32%N] (d2 :: r)).
    rewrite !rev_app_distr, <- app_assoc. apply hd_ok_app; [|now apply IH].
    intro E. apply (f_equal (@rev _)) in E. rewrite rev_involutive in E. cbn [rev] in E.
    exact (join_nonempty (d2 :: r) ltac:(discriminate) Hrest E).
Qed.

(* _get_destinations_safely_stripped(cell).split(" ") of the written destinations line *)
Theorem dests_roundtrip ds :
  ds <> [] -> Forall dest_ok ds -> destinations (CStr (join [32%N] ds)) = ds.
Proof.
  intros Hne H. unfold destinations. cbn [cell_str].
  rewrite strip_id by (try apply join_hd_ok; try apply join_rev_hd_ok; assumption).
  apply split_join; [exact Hne|]. apply forallb_forall. intros d Hd. rewrite Forall_forall in H.
  destruct (H d Hd) as [_ Hn]. now rewrite nospace_has32.
Qed.
