(* plain_lines from conditions on first cells: the name does not start with a star, and the first cell
   of every later line (destinations, first name / every name, first unit, first-column values) is
   neither blank nor a block marker. *)
From Coq Require Import Lia.
From PdV Require Import ParseTable TextProofs LayoutProofs WriteProofs RoundTrip BlockEndProofs.
From PdV.Model Require Import WriteCsv Segment Marker Reader.
Local Open Scope nat_scope.

Definition cell_plain (s : str) : Prop := is_blank s = false /\ classify s = MPlain.
Definition no_lead_star (nm : str) : Prop := match nm with x :: _ => x <> star | [] => False end.

Lemma row_kind_plain s rest : cell_plain s -> row_kind (CStr s :: rest) = KPlain.
Proof. intros [Hb Hc]. unfold row_kind. cbn [cell_blank]. rewrite Hb, Hc. reflexivity. Qed.

Lemma lead_star_nostar s : no_lead_star s -> fst (lead star s) = 0.
Proof.
  destruct s as [|x t]; [contradiction|]. cbn. intro H. destruct (N.eqb_spec x star); [contradiction|reflexivity].
Qed.

Lemma row_kind_table nm tail rest : no_lead_star nm ->
  row_kind (CStr (stars ++ nm ++ tail) :: rest) = KTable.
Proof.
  intro H. unfold row_kind. cbn [cell_blank stars app is_blank forallb]. cbn [is_space].
  replace (is_space 42) with false by reflexivity. cbn [andb].
  unfold classify. cbn [lead]. change (42 =? star)%N with true. cbn iota.
  destruct nm as [|x t]; [contradiction|]. cbn in H. cbn [app lead].
  destruct (N.eqb_spec x star); [contradiction|]. reflexivity.
Qed.

Section Intro.
Variable parse_float : str -> option ftok.
Variable parse_dt : str -> dres.
Variable sep : N.

Definition first_cells_plain (t : wtable) : Prop :=
  no_lead_star (w_name t) /\
  cell_plain (join [32%N] (w_dests t)) /\
  Forall (fun c => cell_plain (wc_name c)) (w_cols t) /\
  match w_cols t with
  | c0 :: _ => cell_plain (wc_unit c0) /\ Forall (fun v => cell_plain (render (wc_unit c0) true v)) (wc_vals c0)
  | [] => True
  end.

Lemma is_plain_intro s rest : cell_plain s -> is_plain row row_kind (CStr s :: rest).
Proof. intro H. unfold is_plain. now apply row_kind_plain. Qed.

Theorem plain_lines_intro t :
  wf_table parse_float parse_dt sep t -> first_cells_plain t -> plain_lines sep t.
Proof.
  destruct t as [nm ds tr cols]. unfold wf_table, first_cells_plain, plain_lines.
  cbn [w_name w_dests w_transposed w_cols].
  intros (m & Hm & H1 & H2 & H3 & H4 & H5 & H6 & H7 & H8 & H9 & H10 & H11 & H12 & H13 & H14) (Pn & Pd & Pnames & Pfirst).
  destruct tr.
  - rewrite (transposed_cells parse_float parse_dt sep nm ds cols m H1 H2 H3 H4 H5 H6 H7 fx_init eq_refl H9 H10 H11 H12 H13 Hm).
    unfold transposed_grid. split; [now apply row_kind_table|].
    constructor; [now apply is_plain_intro|]. apply Forall_forall. intros r Hr.
    apply in_map_iff in Hr as (j & <- & Hj). apply in_seq in Hj. unfold tline. apply is_plain_intro.
    change (@nil N) with (wc_name dcol). rewrite map_nth. rewrite Forall_forall in Pnames. apply Pnames. apply nth_In. lia.
  - rewrite (rowwise_cells parse_float parse_dt sep nm ds cols m H1 H2 H3 H4 H5 H6 H7 Hm).
    unfold rowwise_grid. destruct cols as [|c0 rest] eqn:Ec; [congruence|]. destruct Pfirst as [Pu Pv].
    split; [rewrite <- (app_nil_r nm); now apply row_kind_table|].
    constructor; [now apply is_plain_intro|].
    constructor; [cbn [map app]; apply is_plain_intro; inversion Pnames; assumption|].
    constructor; [cbn [map app]; now apply is_plain_intro|].
    apply Forall_forall. intros r Hr. apply in_map_iff in Hr as (i & <- & Hi). apply in_seq in Hi.
    unfold row_of. cbn [length seq map app]. unfold cellat at 1. apply is_plain_intro.
    unfold unit_at, val_at. cbn [nth Nat.eqb]. rewrite Forall_forall in Pv. apply Pv. apply nth_In.
    inversion H1 as [|? ? Hl ?]. lia.
Qed.
End Intro.

(* a handy sufficient condition: not blank, no colon anywhere, does not start with a star *)
Lemma after_first_colon_none t : has colon t = false -> after_first_colon t = None.
Proof.
  induction t as [|x t IH]; [reflexivity|]. cbn [has existsb after_first_colon]. intro H.
  apply orb_false_iff in H as [Hx Ht]. rewrite N.eqb_sym in Hx. rewrite Hx. now apply IH.
Qed.

Lemma cell_plain_nocolon s :
  is_blank s = false -> has colon s = false -> (match s with x :: _ => x <> star | [] => True end) -> cell_plain s.
Proof.
  intros Hb Hc Hs. split; [exact Hb|]. destruct s as [|x t]; [discriminate|].
  cbn [has existsb] in Hc. apply orb_false_iff in Hc as [Hx Ht]. rewrite N.eqb_sym in Hx.
  unfold classify. cbn [lead]. destruct (N.eqb_spec x star); [contradiction|]. cbn [fst Nat.eqb].
  unfold is_template. cbn [lead]. rewrite Hx. cbn [Nat.leb andb].
  unfold is_key. rewrite Hx. now rewrite after_first_colon_none.
Qed.
