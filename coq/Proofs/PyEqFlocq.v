(* Validation of the float decoding of Model/PyEq.v against Flocq's formalisation of IEEE-754
   binary64 (Flocq.IEEE754.Bits): [classify] of a bit pattern is the value / infinity / NaN that
   Flocq's b64_of_bits assigns to the same 64 bits.  Not a property theorem: it removes the hand-written
   decoder from what C14_numbers_by_value has to be trusted for.  Flocq works over Coq's real
   numbers, so this file (and only this file) depends on the standard library's axioms of the reals,
   listed by the Print Assumptions at the end. *)
From Coq Require Import ZArith NArith Reals Lia Bool.
From Flocq Require Import Core IEEE754.Binary IEEE754.Bits.
From PdV Require Import Cell PyEq PyEqProofs.
Local Open Scope Z_scope.

Lemma Zeq_bool_eqb a b : Zeq_bool a b = (a =? b).
Proof.
  destruct (Z.eqb_spec a b) as [->|N].
  - apply Zeq_is_eq_bool. reflexivity.
  - destruct (Zeq_bool a b) eqn:E; [|reflexivity]. apply Zeq_bool_eq in E. contradiction.
Qed.

Section Bits.
Variable b : N.
Hypothesis Hb : (b < 2 ^ 64)%N.
Let x := Z.of_N b.

Lemma x_range : 0 <= x < 18446744073709551616.
Proof. unfold x. change 18446744073709551616 with (Z.of_N (2 ^ 64)%N). lia. Qed.

Lemma man_eq : x mod 4503599627370496 = f_man b.
Proof. unfold f_man, x. rewrite N2Z.inj_mod. reflexivity. Qed.

Lemma exp_eq : (x / 4503599627370496) mod 2048 = f_exp b.
Proof. unfold f_exp, x. rewrite N2Z.inj_mod, N2Z.inj_div. reflexivity. Qed.

Lemma sign_eq : (9223372036854775808 <=? x) = f_sign b.
Proof.
  unfold f_sign. pose proof x_range as R.
  pose proof (N.testbit_spec' b 63) as T.
  assert ((b / 2 ^ 63 < 2)%N) as L.
  { apply N.div_lt_upper_bound; [discriminate|]. change (2 ^ 63 * 2)%N with (2 ^ 64)%N. exact Hb. }
  rewrite N.mod_small in T by exact L.
  destruct (Z.leb_spec 9223372036854775808 x) as [G|G].
  - assert ((2 ^ 63 <= b)%N) as G' by (unfold x in G; change 9223372036854775808 with (Z.of_N (2 ^ 63)%N) in G; lia).
    assert ((1 <= b / 2 ^ 63)%N) as D by (apply N.div_le_lower_bound; [discriminate|]; lia).
    destruct (N.testbit b 63); [reflexivity|]. change (N.b2n false) with 0%N in T. lia.
  - assert ((b < 2 ^ 63)%N) as G' by (unfold x in G; change 9223372036854775808 with (Z.of_N (2 ^ 63)%N) in G; lia).
    rewrite (N.div_small b (2 ^ 63)%N G') in T. destruct (N.testbit b 63); [change (N.b2n true) with 1%N in T; lia|reflexivity].
Qed.

Lemma man_range : 0 <= f_man b < 4503599627370496.
Proof. rewrite <- man_eq. apply Z.mod_pos_bound. lia. Qed.
Lemma exp_range : 0 <= f_exp b < 2048.
Proof. rewrite <- exp_eq. apply Z.mod_pos_bound. lia. Qed.

Definition ff : full_float := binary_float_of_bits_aux 52 11 x.

Lemma F2R_cond s p e : F2R (Float radix2 (cond_Zopp s (Zpos p)) e) = (IZR (if s then - Zpos p else Zpos p) * bpow radix2 e)%R.
Proof. unfold F2R. cbn [Fnum Fexp]. destruct s; reflexivity. Qed.

Lemma aux_classify :
  match classify b with
  | NFin m e => FF2R radix2 ff = (IZR m * bpow radix2 e)%R /\ is_nan_FF ff = false /\ (forall s, ff <> F754_infinity s)
  | NInf s => ff = F754_infinity s
  | NNaN => is_nan_FF ff = true
  end.
Proof.
  unfold ff, binary_float_of_bits_aux, split_bits, classify.
  change (Zpower 2 52) with 4503599627370496. change (Zpower 2 11) with 2048.
  change (4503599627370496 * 2048) with 9223372036854775808.
  rewrite man_eq, exp_eq, sign_eq, !Zeq_bool_eqb. change (2048 - 1) with 2047.
  pose proof man_range as Rm. pose proof exp_range as Re.
  set (e := f_exp b) in *. set (m := f_man b) in *. set (sg := f_sign b).
  destruct (Z.eqb_spec e 0) as [E0|E0].
  - (* zero or subnormal *)
    assert ((e =? 2047) = false) as N1 by (apply Z.eqb_neq; lia). rewrite N1.
    destruct m as [|p|p] eqn:Em; [| |lia].
    + cbn [FF2R is_nan_FF]. repeat split; [destruct sg; cbn; ring|discriminate].
    + cbn [FF2R is_nan_FF]. rewrite F2R_cond. repeat split; discriminate.
  - destruct (Z.eqb_spec e 2047) as [E1|E1].
    + destruct m as [|p|p] eqn:Em; [rewrite Z.eqb_refl; reflexivity|change (Z.pos p =? 0) with false; reflexivity|lia].
    + assert (0 < m + 4503599627370496) as P by lia.
      destruct (m + 4503599627370496) as [|p|p] eqn:Ep; [lia| |lia].
      cbn [FF2R is_nan_FF]. rewrite F2R_cond.
      replace (4503599627370496 + m) with (Zpos p) by lia.
      change (SpecFloat.emin (52 + 1) (2 ^ (11 - 1))) with (-1074).
      replace (e + -1074 - 1) with (e - 1075) by lia.
      split; [reflexivity|]. split; [reflexivity|discriminate].
Qed.
End Bits.

(* the statement about Flocq's binary64 value of the same 64 bits *)
Theorem classify_is_ieee754 (b : N) :
  (b < 2 ^ 64)%N ->
  let f := b64_of_bits (Z.of_N b) in
  match classify b with
  | NFin m e => B2R 53 1024 f = (IZR m * bpow radix2 e)%R /\ is_finite 53 1024 f = true
  | NInf s => f = B754_infinity 53 1024 s
  | NNaN => is_nan 53 1024 f = true
  end.
Proof.
  intros Hb f. pose proof (aux_classify b Hb) as A. unfold ff in A.
  assert (B2FF 53 1024 f = binary_float_of_bits_aux 52 11 (Z.of_N b)) as EF
    by (unfold f, b64_of_bits, binary_float_of_bits; apply B2FF_FF2B).
  destruct (classify b) as [|s|m e].
  - rewrite <- EF in A. destruct f; cbn in A; try discriminate. reflexivity.
  - rewrite <- EF in A. destruct f; cbn in A; try discriminate. inversion A. reflexivity.
  - destruct A as (A1 & A2 & A3). rewrite <- EF in A1, A2, A3. split.
    + rewrite <- A1. symmetry. apply FF2R_B2FF.
    + destruct f; cbn in *; try reflexivity; try discriminate. exfalso. apply (A3 s). reflexivity.
Qed.

(* non-vacuity: the decoding of 10.0, of the smallest subnormal and of -inf *)
Example classify_examples :
  classify 4621819117588971520 = NFin 5629499534213120 (-49) /\
  classify 1 = NFin 1 (-1074) /\ classify 18442240474082181120 = NInf true.
Proof. repeat split; vm_compute; reflexivity. Qed.

(* num_eqb decides equality of the real numbers m * 2^e *)
Lemma scaled_real m e k : k <= e -> (IZR m * bpow radix2 e = IZR (m * 2 ^ (e - k)) * bpow radix2 k)%R.
Proof.
  intro H. rewrite mult_IZR. change 2 with (radix_val radix2). rewrite IZR_Zpower by lia.
  rewrite Rmult_assoc, <- bpow_plus. replace (e - k + k) with e by lia. reflexivity.
Qed.

Lemma num_eqb_real m1 e1 m2 e2 :
  num_eqb (NFin m1 e1) (NFin m2 e2) = true <-> (IZR m1 * bpow radix2 e1 = IZR m2 * bpow radix2 e2)%R.
Proof.
  set (k := Z.min e1 e2). assert (k <= e1 /\ k <= e2) as [K1 K2] by (unfold k; lia).
  rewrite (num_eqb_scale m1 e1 m2 e2 k K1 K2), (scaled_real m1 e1 k K1), (scaled_real m2 e2 k K2). split.
  - intros ->. reflexivity.
  - intro H. apply Rmult_eq_reg_r in H; [now apply eq_IZR|]. apply Rgt_not_eq, bpow_gt_0.
Qed.

(* C14 in the reals: two finite floats are equal cells exactly when their IEEE-754 values are equal
   real numbers, and an int equals a float exactly when it is that real number *)
Theorem floats_equal_iff_values_equal (a b : N) :
  (a < 2 ^ 64)%N -> (b < 2 ^ 64)%N ->
  is_finite 53 1024 (b64_of_bits (Z.of_N a)) = true -> is_finite 53 1024 (b64_of_bits (Z.of_N b)) = true ->
  (equal_or_same (PFloat a) (PFloat b) = true <->
   B2R 53 1024 (b64_of_bits (Z.of_N a)) = B2R 53 1024 (b64_of_bits (Z.of_N b))).
Proof.
  intros Ha Hb Fa Fb. pose proof (classify_is_ieee754 a Ha) as Ca. pose proof (classify_is_ieee754 b Hb) as Cb.
  cbv zeta in Ca, Cb.
  destruct (classify a) as [|sa|ma ea] eqn:Ea; [destruct (b64_of_bits (Z.of_N a)); discriminate|rewrite Ca in Fa; discriminate|].
  destruct (classify b) as [|sb|mb eb] eqn:Eb; [destruct (b64_of_bits (Z.of_N b)); discriminate|rewrite Cb in Fb; discriminate|].
  destruct Ca as [Ra _], Cb as [Rb _]. rewrite Ra, Rb, <- num_eqb_real.
  unfold equal_or_same, is_missing. rewrite Ea, Eb. cbn [orb py_eq num_of]. rewrite Ea, Eb. reflexivity.
Qed.

Theorem int_equals_float_iff_value (z : Z) (b : N) :
  (b < 2 ^ 64)%N -> is_finite 53 1024 (b64_of_bits (Z.of_N b)) = true ->
  (equal_or_same (PInt z) (PFloat b) = true <-> IZR z = B2R 53 1024 (b64_of_bits (Z.of_N b))).
Proof.
  intros Hb Fb. pose proof (classify_is_ieee754 b Hb) as Cb. cbv zeta in Cb.
  destruct (classify b) as [|sb|mb eb] eqn:Eb; [destruct (b64_of_bits (Z.of_N b)); discriminate|rewrite Cb in Fb; discriminate|].
  destruct Cb as [Rb _]. rewrite Rb. replace (IZR z) with (IZR z * bpow radix2 0)%R by (cbn; ring).
  rewrite <- num_eqb_real. unfold equal_or_same, is_missing. rewrite Eb. cbn [orb py_eq num_of]. rewrite Eb. reflexivity.
Qed.

(* the float constants the reader model compares tokens with (Model/Cell.v) are the floats they are named after *)
Example cell_constants :
  classify nan_tok = NNaN /\ classify zero_tok = NFin 0 (-1074) /\ classify negzero_tok = NFin 0 (-1074) /\
  classify one_tok = NFin 4503599627370496 (-52) /\ (4503599627370496 = 2 ^ 52)%Z.
Proof. repeat split; vm_compute; reflexivity. Qed.

Print Assumptions classify_is_ieee754.
Print Assumptions floats_equal_iff_values_equal.
Print Assumptions int_equals_float_iff_value.
