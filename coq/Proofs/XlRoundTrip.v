(* C09, table level: what the table parser recovers from the rows write_excel appended, as openpyxl
   hands them back (every row padded with None to the sheet width), and where the table's block
   lies in the sheet - in the model; openpyxl itself is H_openpyxl_store (Corr/C09.v). *)
From Coq Require Import Lia.
From PdV Require Import ParseTable TextProofs ParseProofs LayoutProofs RoundTrip BlockEndProofs SegmentProofs.
From PdV.Model Require Import WriteCsv WriteXl Segment Reader.
Local Open Scope nat_scope.

Section Xl.
Variable parse_float : str -> option ftok.
Variable parse_dt : str -> dres.
Notation cell_parser := (cell_parser parse_float parse_dt).

(* native cells need no float() / to_datetime hypothesis *)
Definition wf_xval (u : str) (first : bool) (v : wval) : Prop :=
  if str_eqb u s_text then exists s, v = WText s /\ (first = true -> s <> [])
  else if str_eqb u s_onoff then exists b, v = WBool b
  else if str_eqb u s_datetime then (exists d r, v = WDate d r) \/ (exists r, v = WMissing r)
  else (exists f r, v = WNum f r) \/ (exists r, v = WMissing r).

Lemma xl_cell_roundtrip u first v :
  wf_xval u first v -> cell_parser u (xl_cell u first v) = CVal (value_of u v).
Proof.
  unfold wf_xval, ParseTable.cell_parser, xl_cell.
  change u_text with s_text. change u_onoff with s_onoff.
  destruct (str_eqb u s_text) eqn:Et.
  - apply str_eqb_eq in Et. subst u. intros (s & -> & Hs). destruct s as [|c s'].
    + destruct first; [exfalso; now apply Hs|reflexivity].
    + reflexivity.
  - destruct (str_eqb u s_onoff) eqn:Eo.
    + apply str_eqb_eq in Eo. subst u. intros (b & ->). destruct b; reflexivity.
    + destruct (str_eqb u s_datetime) eqn:Ed.
      * intros [(d & r & ->)|(r & ->)]; cbn [negb andb value_of]; [reflexivity|]. rewrite Ed. reflexivity.
      * intros [(f & r & ->)|(r & ->)]; cbn [negb andb value_of]; [reflexivity|]. rewrite Ed. reflexivity.
Qed.

Section Table.
Variable w : nat.                 (* sheet width *)
Variable nm : str.
Variable ds : list str.
Variable cols : list wcol.
Variable m : nat.
Notation n := (length cols).

Definition xcellat (j i : nat) : cell := xl_cell (unit_at cols j) (Nat.eqb j 0) (val_at cols j i).
Definition pads (k : nat) : list cell := repeat CNone (w - k).

Hypothesis H_rect : Forall (fun c => length (wc_vals c) = m) cols.
Hypothesis H_cols : cols <> [].

(* the rows appended for the table, without the separator rows *)
Definition xl_core_rows (t : wtable) : list row :=
  [CStr (stars ++ w_name t ++ (if w_transposed t then [42%N] else []))]
  :: [CStr (join [32%N] (w_dests t))]
  :: (if w_transposed t then
        match w_cols t with
        | [] => []
        | c0 :: rest =>
            (CStr (wc_name c0) :: CStr (wc_unit c0) :: map (xl_cell (wc_unit c0) true) (wc_vals c0))
            :: map (fun c => CStr (wc_name c) :: CStr (wc_unit c) :: map (xl_cell (wc_unit c) false) (wc_vals c)) rest
        end
      else
        map CStr (map wc_name (w_cols t)) :: map CStr (map wc_unit (w_cols t))
        :: map (xl_row_cells (w_cols t)) (seq 0 (n_rows (w_cols t)))).

Lemma xl_table_rows_split sep_lines t : xl_table_rows sep_lines t = xl_core_rows t ++ repeat [] sep_lines.
Proof. reflexivity. Qed.

Lemma xl_rest_cells rest i :
  Forall (fun c => i < length (wc_vals c)) rest ->
  flat_map (fun c => match nth_error (wc_vals c) i with Some v => [xl_cell (wc_unit c) false v] | None => [] end) rest
  = map (fun c => xl_cell (wc_unit c) false (nth i (wc_vals c) dval)) rest.
Proof.
  induction rest as [|c rest IH]; intro H; cbn; [reflexivity|].
  inversion H as [|? ? Hc H']; subst. rewrite (nth_error_nth' _ dval Hc). cbn. now rewrite IH.
Qed.

Lemma xl_row_cells_spec i : i < m -> xl_row_cells cols i = row_of xcellat n i.
Proof.
  intro Hi. unfold xl_row_cells, row_of, xcellat, unit_at, val_at. destruct cols as [|c0 rest] eqn:E; [reflexivity|].
  inversion H_rect as [|? ? H0 Hrest]; subst.
  rewrite (nth_error_nth' _ dval) by lia. cbn [length seq map app nth Nat.eqb]. f_equal.
  rewrite xl_rest_cells by (eapply Forall_impl; [|exact Hrest]; cbn; intros a Ha; lia).
  rewrite <- seq_shift, map_map. cbn [nth Nat.eqb].
  rewrite <- (seq_nth_map rest dcol) at 1. rewrite map_map. reflexivity.
Qed.

Lemma xl_n_rows : n_rows cols = m.
Proof. unfold n_rows. destruct cols; [congruence|]. now inversion H_rect. Qed.

Theorem xl_rowwise_rows :
  map (pad_row w) (xl_core_rows {| w_name := nm; w_dests := ds; w_transposed := false; w_cols := cols |})
  = rowwise_grid xcellat n m (stars ++ nm) (pads 1) (CStr (join [32%N] ds)) (pads 1)
                 (map wc_name cols) (map wc_unit cols) (pads n) (pads n) (fun _ => pads n).
Proof.
  unfold xl_core_rows, rowwise_grid. cbn [w_transposed w_name w_dests w_cols map]. rewrite xl_n_rows.
  unfold pad_row at 1 2 3 4. cbn [length app]. rewrite app_nil_r, !map_length. unfold pads.
  do 4 f_equal. rewrite map_map. apply map_ext_in. intros i Hi. apply in_seq in Hi.
  unfold pad_row. rewrite xl_row_cells_spec by lia. unfold row_of at 2. now rewrite map_length, seq_length.
Qed.

Lemma xl_col_cells j : j < n ->
  pad_row w (CStr (wc_name (nth j cols dcol)) :: CStr (wc_unit (nth j cols dcol))
             :: map (xl_cell (wc_unit (nth j cols dcol)) (Nat.eqb j 0)) (wc_vals (nth j cols dcol)))
  = tline xcellat m (map wc_name cols) (map wc_unit cols) (fun _ => pads (2 + m)) j.
Proof.
  intro Hj. set (c := nth j cols dcol).
  assert (length (wc_vals c) = m) as Hl by (rewrite Forall_forall in H_rect; apply H_rect; apply nth_In; lia).
  unfold pad_row, tline. cbn [length app]. rewrite map_length, Hl. unfold pads. f_equal; [|f_equal].
  - f_equal. change (@nil N) with (wc_name dcol). now rewrite map_nth.
  - f_equal. change (@nil N) with (wc_unit dcol). now rewrite map_nth.
  - f_equal. unfold col_of, xcellat, unit_at, val_at. fold c. rewrite <- Hl.
    rewrite <- (map_map (fun i => nth i (wc_vals c) dval) (fun v => xl_cell (wc_unit c) (Nat.eqb j 0) v)).
    now rewrite seq_nth_map.
Qed.

Theorem xl_transposed_rows :
  map (pad_row w) (xl_core_rows {| w_name := nm; w_dests := ds; w_transposed := true; w_cols := cols |})
  = transposed_grid xcellat n m (stars ++ nm ++ [42%N]) (pads 1) (CStr (join [32%N] ds)) (pads 1)
                    (map wc_name cols) (map wc_unit cols) (fun _ => pads (2 + m)).
Proof.
  unfold xl_core_rows, transposed_grid. cbn [w_transposed w_name w_dests w_cols map].
  unfold pad_row at 1 2. cbn [length app]. unfold pads at 1 2. do 2 f_equal.
  destruct cols as [|c0 rest] eqn:Ec; [congruence|]. rewrite <- Ec in *.
  transitivity (map (pad_row w) (map (fun j => CStr (wc_name (nth j cols dcol)) :: CStr (wc_unit (nth j cols dcol))
                       :: map (xl_cell (wc_unit (nth j cols dcol)) (Nat.eqb j 0)) (wc_vals (nth j cols dcol))) (seq 0 n))).
  - f_equal. rewrite Ec. cbn [length seq map nth Nat.eqb]. f_equal.
    rewrite <- seq_shift, map_map. cbn [nth Nat.eqb].
    rewrite <- (seq_nth_map rest dcol) at 1. now rewrite map_map.
  - rewrite map_map. apply map_ext_in. intros j Hj. apply in_seq in Hj. apply xl_col_cells. lia.
Qed.

(* ---- the table read back ---- *)
Variable cfg : fixer_cfg.
Variable fx : fixer_st.
Hypothesis H_fx : fx_fixes fx = 0.
Hypothesis H_names_nb : Forall (fun c => is_blank (wc_name c) = false) cols.
Hypothesis H_names_strip : map strip (map wc_name cols) = map wc_name cols.
Hypothesis H_units_strip : map strip (map wc_unit cols) = map wc_unit cols.
Hypothesis H_names_nodup : NoDup (map wc_name cols).
Hypothesis H_wf : forall j i, j < n -> i < m -> wf_xval (unit_at cols j) (Nat.eqb j 0) (val_at cols j i).

Lemma x_nth_units j : nth j (units (map wc_unit cols)) [] = unit_at cols j.
Proof. unfold units, unit_at. rewrite H_units_strip. change (@nil N) with (wc_unit dcol). apply map_nth. Qed.

Lemma x_cells_parse j i : j < n -> i < m ->
  cell_parser (nth j (units (map wc_unit cols)) []) (xcellat j i) = CVal (value_of (unit_at cols j) (val_at cols j i)).
Proof. intros Hj Hi. rewrite x_nth_units. unfold xcellat. apply xl_cell_roundtrip. now apply H_wf. Qed.

Lemma x_parsed :
  parsed_cols parse_float parse_dt xcellat n m (map wc_unit cols)
  = map (fun c => map (value_of (wc_unit c)) (wc_vals c)) cols.
Proof.
  unfold parsed_cols.
  transitivity (map (fun c => map (value_of (wc_unit c)) (wc_vals c)) (map (fun j => nth j cols dcol) (seq 0 n)));
    [|now rewrite seq_nth_map].
  rewrite map_map. apply map_ext_in. intros j Hj. apply in_seq in Hj. unfold col_of. rewrite map_map.
  assert (length (wc_vals (nth j cols dcol)) = m) as Hl.
  { rewrite Forall_forall in H_rect. apply H_rect. apply nth_In. lia. }
  transitivity (map (value_of (wc_unit (nth j cols dcol)))
                    (map (fun i => nth i (wc_vals (nth j cols dcol)) dval) (seq 0 (length (wc_vals (nth j cols dcol))))));
    [|now rewrite seq_nth_map].
  rewrite map_map, Hl. apply map_ext_in. intros i Hi. apply in_seq in Hi. unfold val_of. rewrite x_cells_parse by lia. reflexivity.
Qed.

Lemma x_expected tr :
  expected parse_float parse_dt xcellat n m nm (CStr (join [32%N] ds)) (map wc_name cols) (map wc_unit cols) fx tr
  = read_back nm ds cols fx tr.
Proof.
  unfold expected, read_back. rewrite x_parsed. unfold names, units. rewrite H_names_strip, H_units_strip. reflexivity.
Qed.

Lemma x_names_ne : Forall (fun c : str => c <> []) (names (map wc_name cols)).
Proof.
  unfold names. rewrite H_names_strip. apply Forall_forall. intros x Hx. apply in_map_iff in Hx as (c & <- & Hc).
  rewrite Forall_forall in H_names_nb. specialize (H_names_nb c Hc). intro E. rewrite E in H_names_nb. discriminate.
Qed.

Lemma pads_blank k : Forall (fun c => cell_blank c = true) (pads k).
Proof. unfold pads. induction (w - k); cbn; constructor; auto. Qed.

Lemma pads_tail k : pads k = [] \/ exists c t, pads k = c :: t /\ cell_blank c = true.
Proof. unfold pads. destruct (w - k); [now left|right]. cbn. eexists _, _. split; reflexivity. Qed.

Lemma x_names_nb : Forall (fun w0 : str => is_blank w0 = false) (map wc_name cols).
Proof.
  apply Forall_forall. intros x Hx. apply in_map_iff in Hx as (c & <- & Hc).
  rewrite Forall_forall in H_names_nb. now apply H_names_nb.
Qed.

Theorem xl_rowwise_roundtrip :
  drop_last_star nm = (nm, false) ->
  parse_table parse_float parse_dt cfg
    (map (pad_row w) (xl_core_rows {| w_name := nm; w_dests := ds; w_transposed := false; w_cols := cols |})) fx
  = Ok (read_back nm ds cols fx false).
Proof.
  intro H_name. rewrite xl_rowwise_rows.
  rewrite (rowwise_spec parse_float parse_dt cfg xcellat n m (stars ++ nm) nm).
  - now rewrite x_expected.
  - now rewrite map_length.
  - now rewrite map_length.
  - exact x_names_nb.
  - apply pads_tail.
  - unfold names. now rewrite H_names_strip.
  - exact x_names_ne.
  - exact H_fx.
  - intros j i Hj Hi. eexists. now apply x_cells_parse.
  - exact H_name.
Qed.

Theorem xl_transposed_roundtrip :
  (forall i, i < m -> cell_blank (xcellat 0 i) = false) ->
  parse_table parse_float parse_dt cfg
    (map (pad_row w) (xl_core_rows {| w_name := nm; w_dests := ds; w_transposed := true; w_cols := cols |})) fx
  = Ok (read_back nm ds cols fx true).
Proof.
  intro H_first. rewrite xl_transposed_rows.
  assert (0 < n) as Hn by (destruct cols; [congruence|cbn; lia]).
  rewrite (transposed_spec parse_float parse_dt cfg xcellat n m (stars ++ nm ++ [42%N]) nm _ _ _ _ _ (fun _ => [])).
  - now rewrite x_expected.
  - now rewrite map_length.
  - now rewrite map_length.
  - exact x_names_nb.
  - unfold names. now rewrite H_names_strip.
  - exact x_names_ne.
  - exact H_fx.
  - intros j i Hj Hi. eexists. now apply x_cells_parse.
  - cbn [stars app skipn]. unfold drop_last_star. rewrite rev_app_distr. cbn [rev app]. now rewrite rev_involutive.
  - exact Hn.
  - intro j. apply pads_blank.
  - intros i Hi. exists 0. split; [exact Hn|now apply H_first].
Qed.
End Table.
End Xl.

(* ---------- where the table lies in the sheet ---------- *)
Section Sheet.
Variable sep_lines : nat.
Variable pre post : list wtable.
Variable t : wtable.
Hypothesis H_sep : 1 <= sep_lines.

Definition all_rows : list row := flat_map (xl_table_rows sep_lines) (pre ++ t :: post).
Definition width : nat := fold_right (fun r m => Nat.max (length r) m) 0 all_rows.

(* the table's first appended row opens a table block; none of its other rows starts with a blank
   cell or a marker *)
Definition xl_plain : Prop :=
  match map (pad_row width) (xl_core_rows t) with
  | r :: body => row_kind r = KTable /\ Forall (is_plain row row_kind) body
  | [] => False
  end.

Lemma blank_pad_kind k : row_kind (pad_row k []) <> KPlain.
Proof. unfold pad_row. cbn [app length]. rewrite Nat.sub_0_r. destruct k as [|[|k]]; cbn; discriminate. Qed.

Theorem sheet_table_block :
  xl_plain ->
  In (BTable, length (flat_map (xl_table_rows sep_lines) pre), map (pad_row width) (xl_core_rows t))
     (segment_rows (sheet_rows sep_lines (pre ++ t :: post))).
Proof.
  unfold xl_plain, segment_rows, sheet_rows. fold all_rows. fold width. unfold all_rows.
  rewrite flat_map_app. cbn [flat_map]. rewrite xl_table_rows_split. rewrite !map_app, <- !app_assoc.
  destruct (map (pad_row width) (xl_core_rows t)) as [|r body] eqn:E; [contradiction|]. intros [Hr Hbody].
  rewrite <- (map_length (pad_row width) (flat_map (xl_table_rows sep_lines) pre)).
  cbn [app]. apply table_block_end; [exact Hr|exact Hbody|]. right.
  destruct sep_lines as [|k]; [lia|]. cbn [repeat map app]. eexists _, _. split; [reflexivity|]. apply blank_pad_kind.
Qed.
End Sheet.

(* ---------- one statement for both orientations ---------- *)
Section Whole.
Variable parse_float : str -> option ftok.
Variable parse_dt : str -> dres.
Variable cfg : fixer_cfg.

Definition wf_xtable (t : wtable) : Prop :=
  let cols := w_cols t in
  exists m,
    Forall (fun c => length (wc_vals c) = m) cols /\ cols <> [] /\
    drop_last_star (w_name t) = (w_name t, false) /\
    Forall (fun c => is_blank (wc_name c) = false) cols /\
    map strip (map wc_name cols) = map wc_name cols /\
    map strip (map wc_unit cols) = map wc_unit cols /\
    NoDup (map wc_name cols) /\
    (forall j i, j < length cols -> i < m -> wf_xval (unit_at cols j) (Nat.eqb j 0) (val_at cols j i)) /\
    (forall i, i < m -> cell_blank (xcellat cols 0 i) = false).

(* any sheet width; zero-row tables included *)
Theorem xl_table_roundtrip w t :
  wf_xtable t ->
  parse_table parse_float parse_dt cfg (map (pad_row w) (xl_core_rows t)) fx_init = Ok (table_read_back t).
Proof.
  destruct t as [nm ds tr cols]. unfold wf_xtable, table_read_back. cbn [w_name w_dests w_transposed w_cols].
  intros (m & H1 & H2 & H3 & H4 & H5 & H6 & H7 & H8 & H9).
  destruct tr.
  - now apply (xl_transposed_roundtrip parse_float parse_dt w nm ds cols m).
  - now apply (xl_rowwise_roundtrip parse_float parse_dt w nm ds cols m).
Qed.

(* a written table is one TABLE block of its sheet, starting at the row where it was appended, and
   that block parses back to the table *)
Theorem sheet_table_roundtrip sep_lines pre t post :
  1 <= sep_lines -> wf_xtable t -> xl_plain sep_lines pre post t ->
  let rows := map (pad_row (width sep_lines pre post t)) (xl_core_rows t) in
  In (BTable, length (flat_map (xl_table_rows sep_lines) pre), rows)
     (segment_rows (sheet_rows sep_lines (pre ++ t :: post))) /\
  parse_table parse_float parse_dt cfg rows fx_init = Ok (table_read_back t).
Proof.
  intros Hs Hw Hp. split; [now apply sheet_table_block|now apply xl_table_roundtrip].
Qed.
End Whole.
