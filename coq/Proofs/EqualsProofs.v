(* Proofs about M-Eq (Model/Equals.v). *)
From Coq Require Import Lia.
From PdV Require Import Equals TextProofs.

Section P.
Variable V : Type.
Variable eqv : V -> V -> bool.
Notation table := (table V).
Notation equals := (equals eqv).

Lemma list_eqb_str_eq a b : list_eqb str_eqb a b = true <-> a = b.
Proof.
  revert b; induction a as [|x a IH]; destruct b as [|y b]; cbn; split; try congruence; try discriminate.
  - intro H. apply andb_true_iff in H as [H1 H2]. apply str_eqb_eq in H1. apply IH in H2. congruence.
  - intro H. inversion H; subst. rewrite str_eqb_refl. cbn. now apply IH.
Qed.

Lemma mem_str_In s l : mem_str s l = true <-> In s l.
Proof.
  unfold mem_str. rewrite existsb_exists. split.
  - intros [x [Hx E]]. apply str_eqb_eq in E. now subst.
  - intro H. exists s. split; [assumption|apply str_eqb_refl].
Qed.

Lemma subset_incl a b : subset a b = true <-> incl a b.
Proof.
  unfold subset, incl. rewrite forallb_forall. split; intros H x Hx; apply mem_str_In; auto.
Qed.

Lemma set_eqb_spec a b : set_eqb a b = true <-> (forall s, In s a <-> In s b).
Proof.
  unfold set_eqb. rewrite andb_true_iff, !subset_incl. unfold incl. split.
  - intros [H1 H2] s. split; auto.
  - intro H. split; intros s Hs; now apply H.
Qed.

Definition row_eqv (r r' : list V) : Prop := Forall2 (fun x y => eqv x y = true) r r'.

Lemma zip_all_app a a' c c' :
  length a = length a' ->
  zip_all eqv (a ++ c) (a' ++ c') = zip_all eqv a a' && zip_all eqv c c'.
Proof.
  revert a'; induction a as [|x a IH]; destruct a' as [|y a']; cbn; intro H; try discriminate.
  - reflexivity.
  - rewrite IH by lia. now rewrite andb_assoc.
Qed.

Lemma zip_all_vals r r' :
  length r = length r' ->
  (zip_all eqv (map EVal r) (map EVal r') = true <-> row_eqv r r').
Proof.
  revert r'; induction r as [|x r IH]; destruct r' as [|y r']; cbn; intro H; try discriminate.
  - split; [constructor|reflexivity].
  - rewrite andb_true_iff, IH by lia. split.
    + intros [H1 H2]. constructor; assumption.
    + intro H2. inversion H2; subst. auto.
Qed.

Definition width_ok (n : nat) (rows : list (list V)) : Prop := Forall (fun r => length r = n) rows.

Lemma zip_all_elements n i ra rb :
  width_ok n ra -> width_ok n rb -> length ra = length rb ->
  (zip_all eqv (elements i ra) (elements i rb) = true <-> Forall2 row_eqv ra rb).
Proof.
  revert i rb; induction ra as [|r ra IH]; destruct rb as [|r' rb]; cbn; intros Wa Wb L; try discriminate.
  - split; [constructor|reflexivity].
  - inversion Wa; subst. inversion Wb; subst. rewrite Nat.eqb_refl. cbn.
    rewrite zip_all_app by (rewrite !map_length; congruence).
    rewrite andb_true_iff, zip_all_vals by congruence. rewrite IH by (auto; lia). split.
    + intros [Ha Hb]. constructor; assumption.
    + intro HF. inversion HF; subst. auto.
Qed.

Definition wf (t : table) : Prop := width_ok (length (t_colnames t)) (t_rows t).

(* C14: equals is true exactly for the same header, the same number of rows and pairwise
   equal cells *)
Theorem equals_iff a b :
  wf a -> wf b ->
  (equals a b = true <->
   t_name a = t_name b /\ (forall s, In s (t_dests a) <-> In s (t_dests b)) /\
   t_colnames a = t_colnames b /\ t_units a = t_units b /\
   length (t_rows a) = length (t_rows b) /\ Forall2 row_eqv (t_rows a) (t_rows b)).
Proof.
  intros Wa Wb. unfold Equals.equals, key_eqb, shape_eqb.
  rewrite !andb_true_iff, str_eqb_eq, set_eqb_spec, !list_eqb_str_eq, !Nat.eqb_eq. split.
  - intros [[[[Hn Hd] Hc] Hu] [[Hl _] Hz]]. repeat split; auto; try apply Hd.
    unfold wf in *. rewrite <- Hc in Wb. exact (proj1 (zip_all_elements _ 0 _ _ Wa Wb Hl) Hz).
  - intros (Hn & Hd & Hc & Hu & Hl & Hz).
    unfold wf in *. rewrite <- Hc in Wb. pose proof (proj2 (zip_all_elements _ 0 _ _ Wa Wb Hl) Hz).
    repeat split; auto; try congruence; apply Hd.
Qed.

Lemma zip_all_refl l : (forall x, eqv x x = true) -> zip_all eqv l l = true.
Proof.
  intro R. induction l as [|[i|v] l IH]; cbn; [reflexivity| |].
  - now rewrite Nat.eqb_refl.
  - now rewrite R.
Qed.

Theorem equals_refl a : (forall x, eqv x x = true) -> equals a a = true.
Proof.
  intro R. unfold Equals.equals, key_eqb, shape_eqb.
  rewrite str_eqb_refl, !Nat.eqb_refl, zip_all_refl by assumption.
  assert (set_eqb (t_dests a) (t_dests a) = true) as -> by (apply set_eqb_spec; tauto).
  assert (forall l, list_eqb str_eqb l l = true) as E by (intro l; now apply list_eqb_str_eq).
  now rewrite !E.
Qed.

Lemma zip_all_sym l l' : (forall x y, eqv x y = eqv y x) -> zip_all eqv l l' = zip_all eqv l' l.
Proof.
  intro S. revert l'; induction l as [|x l IH]; destruct l' as [|y l']; cbn; try reflexivity.
  rewrite IH. f_equal. destruct x, y; cbn; auto. apply Nat.eqb_sym.
Qed.

Lemma list_eqb_str_sym a b : list_eqb str_eqb a b = list_eqb str_eqb b a.
Proof.
  revert b; induction a as [|x a IH]; destruct b as [|y b]; cbn; try reflexivity.
  now rewrite IH, str_eqb_sym.
Qed.

Theorem equals_sym a b : (forall x y, eqv x y = eqv y x) -> equals a b = equals b a.
Proof.
  intro S. unfold Equals.equals, key_eqb, shape_eqb, set_eqb.
  rewrite (str_eqb_sym (t_name a)), (list_eqb_str_sym (t_colnames a)), (list_eqb_str_sym (t_units a)).
  rewrite (zip_all_sym _ _ S), (Nat.eqb_sym (length (t_rows a))), (Nat.eqb_sym (length (t_colnames a))).
  rewrite (andb_comm (subset (t_dests a) (t_dests b))). reflexivity.
Qed.
End P.
Arguments wf {V}. Arguments row_eqv {V}. Arguments width_ok {V}.

(* the code before the repair accepted tables of different length *)
Theorem unrepaired_refuted :
  exists (a b : table nat),
    wf a /\ wf b /\ equals_unrepaired Nat.eqb a b = true /\ length (t_rows a) <> length (t_rows b).
Proof.
  exists {| t_name := [116%N]; t_dests := [[97%N]]; t_colnames := [[99%N]]; t_units := [[45%N]];
            t_rows := [[1]; [2]] |},
         {| t_name := [116%N]; t_dests := [[97%N]]; t_colnames := [[99%N]]; t_units := [[45%N]];
            t_rows := [[1]; [2]; [3]] |}.
  repeat split; try (repeat constructor); try (vm_compute; congruence).
Qed.
