(* Proofs about M-Conv (Model/Convert.v). *)
From Coq Require Import Lia.
From PdV Require Import Convert TextProofs.
Local Open Scope nat_scope.

Section P.
Variable V : Type.
Variable conv : str -> option str -> V -> option (V * str).
Notation column := (column V).

(* what one column looks like after a successful conversion towards target [to] *)
Definition converted (c : column) (to : option str) (c' : column) : Prop :=
  c_name c' = c_name c /\
  match to with
  | None => c' = c
  | Some t =>
      if str_eqb t (c_unit c) then c' = c
      else inconvertible (c_unit c) = false /\ t <> s_origin /\
           if str_eqb t s_base
           then exists v u, conv (c_unit c) None (c_vals c) = Some (v, u) /\ c_vals c' = v /\ c_unit c' = u
           else exists v u, conv (c_unit c) (Some t) (c_vals c) = Some (v, u) /\ c_vals c' = v /\ c_unit c' = t
  end.

Lemma convert_col_ok c to c' : convert_col conv c to = inl c' -> converted c to c'.
Proof.
  unfold convert_col, converted. destruct to as [t|]; [|intro H; inversion H; auto].
  destruct (str_eqb t (c_unit c)); [intro H; inversion H; auto|].
  destruct (inconvertible (c_unit c)); [discriminate|].
  destruct (str_eqb t s_origin) eqn:Eo; [discriminate|].
  assert (t <> s_origin) as Hn by (intro C; subst; rewrite str_eqb_refl in Eo; discriminate).
  destruct (str_eqb t s_base).
  - destruct (conv (c_unit c) None (c_vals c)) as [[v u]|] eqn:E; [|discriminate].
    intro H; inversion H; subst; cbn. repeat split; auto. exists v, u. auto.
  - destruct (conv (c_unit c) (Some t) (c_vals c)) as [[v u]|] eqn:E; [|discriminate].
    intro H; inversion H; subst; cbn. repeat split; auto. exists v, u. auto.
Qed.

Lemma convert_all_ok cols : forall ts res,
  length ts = length cols -> convert_all conv cols ts = inl res ->
  Forall2 (fun ct c' => converted (fst ct) (snd ct) c') (combine cols ts) res /\ length res = length cols.
Proof.
  induction cols as [|c cs IH]; intros ts res L H; destruct ts as [|t ts']; try discriminate; cbn in *.
  - inversion H. split; [constructor|reflexivity].
  - destruct (convert_col conv c t) as [c'|e] eqn:E; [|discriminate].
    destruct (convert_all conv cs ts') as [r|e] eqn:R; [|discriminate]. inversion H; subst.
    destruct (IH ts' r ltac:(lia) R) as [A B]. split; [|cbn; lia].
    constructor; [|exact A]. cbn. now apply convert_col_ok.
Qed.

Lemma targets_length d (cols : list column) ts : targets d cols = inl ts -> length ts = length cols.
Proof.
  destruct d; cbn; intro H; try (inversion H; now rewrite map_length).
  destruct (Nat.eqb_spec (length l) (length cols)); [inversion H; subst; assumption|discriminate].
Qed.

(* C06: convert_units either fails as a whole (the caller gets the error and no table), or returns a
   table with the same columns in the same order in which every column is related to the original
   by [converted] for the target its dispatcher form gives it: untargeted and same-unit columns are
   identical, converted ones hold exactly the converter's values and the requested unit (for
   '__base__': the unit the converter reported). *)
Theorem convert_units_ok d cols res :
  convert_units conv d cols = inl res ->
  exists ts, targets d cols = inl ts /\ length res = length cols /\
             Forall2 (fun ct c' => converted (fst ct) (snd ct) c') (combine cols ts) res.
Proof.
  unfold convert_units. destruct (targets d cols) as [ts|e] eqn:T; [|discriminate].
  intro H. exists ts. split; [reflexivity|].
  destruct (convert_all_ok cols ts res (targets_length _ _ _ T) H). auto.
Qed.

(* 'base' skips text / onoff / datetime columns; any other form refuses a different unit for them *)
Theorem base_skips_special (cols : list column) :
  targets DBase cols = inl (map (fun c => if inconvertible (c_unit c) then None else Some s_base) cols).
Proof. reflexivity. Qed.

Theorem special_refused (c : column) t :
  inconvertible (c_unit c) = true -> t <> c_unit c -> convert_col conv c (Some t) = inr ENotDefined.
Proof.
  intros H Hn. unfold convert_col. destruct (str_eqb t (c_unit c)) eqn:E; [apply str_eqb_eq in E; congruence|].
  now rewrite H.
Qed.

(* a failing conversion of any targeted column fails the whole call *)
Theorem failure_propagates cols : forall ts i c t e,
  length ts = length cols -> nth_error cols i = Some c -> nth_error ts i = Some t ->
  convert_col conv c t = inr e -> exists e', convert_all conv cols ts = inr e'.
Proof.
  induction cols as [|c0 cs IH]; intros ts i c t e L Hc Ht He; destruct ts as [|t0 ts']; try discriminate;
    destruct i as [|i]; cbn in *; try discriminate.
  - inversion Hc; inversion Ht; subst. rewrite He. eauto.
  - destruct (convert_col conv c0 t0) as [c0'|e0]; [|eauto].
    destruct (IH ts' i c t e ltac:(lia) Hc Ht He) as [e' ->]. eauto.
Qed.
End P.
Arguments converted {V}.
