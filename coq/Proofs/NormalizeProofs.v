From Coq Require Import Lia.
From PdV Require Import Convert.
From PdV.Model Require Import Normalize.
Local Open Scope nat_scope.

Section P.
Variable V : Type.
Variable conv : str -> option str -> V -> option (V * str).
Notation normalize := (normalize conv).
Notation norm_block := (norm_block conv).

Definition same_kind (a b : sblock V) : Prop :=
  match a, b with
  | SBTable n _, SBTable m _ => n = m
  | SBOther s, SBOther t => s = t
  | _, _ => False
  end.

(* the stream keeps its shape: block for block the same kind and table name, other blocks untouched,
   each table converted by the dispatcher chosen for its name (or untouched when there is none);
   on a failing conversion exactly the blocks before it are delivered *)
Theorem normalize_spec td bs out err :
  normalize td bs = (out, err) ->
  Forall2 (fun b b' => norm_block td b = inl b') (firstn (length out) bs) out /\
  match err with
  | None => length out = length bs
  | Some e => exists b, nth_error bs (length out) = Some b /\ norm_block td b = inr e
  end.
Proof.
  revert out err. induction bs as [|b rest IH]; intros out err H; cbn [Normalize.normalize] in H.
  - inversion H; subst. split; [constructor|reflexivity].
  - destruct (norm_block td b) as [b'|e] eqn:Eb.
    + destruct (normalize td rest) as [o er] eqn:Er. inversion H; subst. destruct (IH o err eq_refl) as [F M].
      split; [cbn [length firstn]; constructor; assumption|]. destruct err; cbn [length]; [exact M|now rewrite M].
    + inversion H; subst. split; [constructor|]. exists b. split; [reflexivity|exact Eb].
Qed.

Lemma norm_block_kind td b b' : norm_block td b = inl b' -> same_kind b b'.
Proof.
  destruct b as [n cols|t]; cbn [Normalize.norm_block]; intro H.
  - destruct (td n); [destruct (convert_units conv d cols)|]; inversion H; subst; reflexivity.
  - inversion H; subst. reflexivity.
Qed.

Lemma norm_block_other td t : norm_block td (SBOther t) = inl (SBOther t).
Proof. reflexivity. Qed.

Lemma norm_block_undispatched td n cols : td n = None -> norm_block td (SBTable n cols) = inl (SBTable n cols).
Proof. intro H. cbn [Normalize.norm_block]. now rewrite H. Qed.
End P.
