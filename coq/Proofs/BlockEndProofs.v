(* How a table block ends (C10, last rewrite): the rows from a table marker row up to, and not
   including, the next row that is not a plain row come out as one TABLE block - whether the input
   ends there, or a blank line, another table / directive / template marker or a key row follows. *)
From Coq Require Import Lia.
From PdV Require Import Segment SegmentProofs.
Local Open Scope nat_scope.

Section BlockEnd.
Variable R : Type.
Variable kind_of : R -> kind.
Notation step := (step kind_of).

Definition is_plain (r : R) : Prop := kind_of r = KPlain.

Lemma plain_fold body : forall i (s : st R),
  Forall is_plain body ->
  fold_left step (number i body) s
  = {| cur := cur s; grid := rev body ++ grid s; first := first s; out := out s |}.
Proof.
  induction body as [|b body IH]; intros i s H; cbn [number fold_left rev app].
  - destruct s; reflexivity.
  - inversion H as [|? ? Hb H']; subst. rewrite IH by assumption.
    unfold Segment.step. unfold is_plain in Hb. rewrite Hb. cbn [cur grid first out]. rewrite <- app_assoc. reflexivity.
Qed.

Theorem table_block_end pre r body tail :
  kind_of r = KTable -> Forall is_plain body ->
  (tail = [] \/ exists t rest, tail = t :: rest /\ kind_of t <> KPlain) ->
  In (BTable, length pre, r :: body) (segment kind_of (pre ++ r :: body ++ tail)).
Proof.
  intros Hr Hbody Htail. unfold segment, run. rewrite fold_number_app. cbn [number fold_left plus].
  set (s0 := fold_left step (number 0 pre) init).
  rewrite fold_number_app. rewrite (plain_fold body _ _ Hbody).
  assert (step s0 (length pre, r) = {| cur := BTable; grid := [r]; first := length pre; out := emit s0 |}) as ->
    by (unfold Segment.step; rewrite Hr; reflexivity).
  cbn [cur grid first out].
  set (s2 := {| cur := BTable; grid := rev body ++ [r]; first := length pre; out := emit s0 |}).
  assert (emit s2 = (BTable, length pre, r :: body) :: out s2) as Hemit.
  { unfold emit, s2. cbn [cur grid first out]. destruct (rev body ++ [r]) eqn:E.
    - apply app_eq_nil in E. destruct E; discriminate.
    - rewrite <- E. rewrite rev_app_distr, rev_involutive. reflexivity. }
  apply in_rev. rewrite rev_involutive.
  destruct Htail as [->|(t & rest & -> & Ht)].
  - cbn [number fold_left]. rewrite Hemit. now left.
  - cbn [number fold_left].
    set (i := S (length pre + length body)). 
    assert (out (step s2 (i, t)) = emit s2) as Hout.
    { unfold Segment.step. destruct (kind_of t); try congruence; reflexivity. }
    destruct (fold_out_ext kind_of (number (S i) rest) (step s2 (i, t))) as [d Hd].
    destruct (emit_ext (fold_left step (number (S i) rest) (step s2 (i, t)))) as [d' [Hd' _]].
    replace (S (length pre) + length body) with i by reflexivity.
    rewrite Hd', Hd, Hout, Hemit. apply in_or_app. right. apply in_or_app. right. now left.
Qed.
End BlockEnd.
