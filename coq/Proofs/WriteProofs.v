(* Proofs about M-Write (Model/WriteCsv.v) and the text layer (Model/Text.v): what read_csv's line
   and cell splitting recovers from what write_csv wrote. *)
From Coq Require Import Lia.
From PdV Require Import Text TextProofs.
From PdV.Model Require Import WriteCsv.
Local Open Scope nat_scope.

(* ---------- cells: split after join ---------- *)
Lemma split_on_nonempty sep s : split_on sep s <> [].
Proof.
  induction s as [|c t IH]; cbn; [discriminate|]. destruct (N.eqb c sep); [discriminate|].
  destruct (split_on sep t); [contradiction|discriminate].
Qed.

Lemma split_nosep sep s : has sep s = false -> split_on sep s = [s].
Proof.
  induction s as [|c t IH]; cbn; auto. intro H. apply orb_false_iff in H as [H1 H2].
  rewrite N.eqb_sym, H1. rewrite (IH H2). reflexivity.
Qed.

Lemma split_app_sep sep a b : has sep a = false -> split_on sep (a ++ sep :: b) = a :: split_on sep b.
Proof.
  induction a as [|c t IH]; cbn; intro H.
  - now rewrite N.eqb_refl.
  - apply orb_false_iff in H as [H1 H2]. rewrite N.eqb_sym, H1, (IH H2). reflexivity.
Qed.

(* splitting a joined line on the separator gives back the cells, when no cell contains it *)
Theorem split_join sep cs :
  cs <> [] -> forallb (fun c => negb (has sep c)) cs = true -> split_on sep (join [sep] cs) = cs.
Proof.
  induction cs as [|c rest IH]; [congruence|]. intros _ H. cbn [forallb] in H.
  apply andb_true_iff in H as [Hc Hr]. apply negb_true_iff in Hc. destruct rest as [|c2 rest'].
  - cbn. now apply split_nosep.
  - change (join [sep] (c :: c2 :: rest')) with (c ++ [sep] ++ join [sep] (c2 :: rest')).
    cbn [app]. rewrite split_app_sep by assumption. f_equal. apply IH; [discriminate|assumption].
Qed.

(* ---------- lines ---------- *)
Definition no_lf (s : str) : bool := negb (has LF s).

Lemma lines_aux_nolf cur s : has LF s = false -> lines_aux cur s = match rev cur ++ s with [] => [] | l => [l] end.
Proof.
  revert cur; induction s as [|c t IH]; intros cur H; cbn.
  - rewrite app_nil_r. destruct cur; cbn; [reflexivity|]. destruct (rev cur ++ [n]) eqn:E; [|reflexivity].
    apply app_eq_nil in E. destruct E; discriminate.
  - change (has LF (c :: t)) with (N.eqb LF c || has LF t) in H. apply orb_false_iff in H as [H1 H2].
    assert (N.eqb c 10 = false) as H1' by (rewrite N.eqb_sym; exact H1). rewrite H1'.
    rewrite (IH (c :: cur) H2). cbn [rev]. rewrite <- app_assoc. reflexivity.
Qed.

Lemma lines_aux_line cur l rest :
  has LF l = false -> lines_aux cur (l ++ LF :: rest) = (rev cur ++ l) :: lines_aux [] rest.
Proof.
  revert cur; induction l as [|c t IH]; intros cur H; cbn.
  - change (N.eqb LF 10) with true. cbn iota. now rewrite app_nil_r.
  - change (has LF (c :: t)) with (N.eqb LF c || has LF t) in H. apply orb_false_iff in H as [H1 H2].
    assert (N.eqb c 10 = false) as H1' by (rewrite N.eqb_sym; exact H1). rewrite H1'.
    rewrite (IH (c :: cur) H2). cbn [rev]. now rewrite <- app_assoc.
Qed.

(* text iteration recovers the lines of "l1 LF l2 LF ... lk LF LF": the k lines and one empty line *)
Theorem lines_block ls rest :
  ls <> [] -> forallb no_lf ls = true ->
  lines (join nl ls ++ nl ++ nl ++ rest) = ls ++ [] :: lines rest.
Proof.
  unfold lines. induction ls as [|l tl IH]; [congruence|]. intros _ H. cbn [forallb] in H.
  apply andb_true_iff in H as [Hl Ht]. unfold no_lf in Hl. apply negb_true_iff in Hl.
  destruct tl as [|l2 tl'].
  - cbn [join app nl]. rewrite (lines_aux_line [] l _ Hl). cbn [rev app]. f_equal.
  - change (join nl (l :: l2 :: tl')) with (l ++ nl ++ join nl (l2 :: tl')).
    rewrite <- !app_assoc. cbn [nl app]. rewrite (lines_aux_line [] l _ Hl). cbn [rev app]. f_equal.
    apply IH; [discriminate|assumption].
Qed.

(* ---------- the written text, line by line ---------- *)
Lemma table_lines_nonempty sep t : table_lines sep t <> [].
Proof. unfold table_lines. destruct (w_transposed t); discriminate. Qed.

(* reading the text of a bundle line by line gives, per table, its lines followed by one empty
   line - provided no rendered line contains a line feed *)
Theorem lines_of_bundle sep ts :
  forallb (fun t => forallb no_lf (table_lines sep t)) ts = true ->
  lines (write_csv sep ts) = flat_map (fun t => table_lines sep t ++ [[]]) ts.
Proof.
  induction ts as [|t rest IH]; intro H; [reflexivity|]. cbn [forallb] in H.
  apply andb_true_iff in H as [Ht Hr]. unfold write_csv in *. cbn [map concat flat_map].
  unfold write_table at 1. rewrite <- !app_assoc.
  rewrite (lines_block (table_lines sep t) _ (table_lines_nonempty sep t) Ht).
  cbn [app]. f_equal. f_equal. now apply IH.
Qed.
