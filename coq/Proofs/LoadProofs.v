(* Proofs about M-Load (Model/Load.v): termination with an explicit fuel bound, each location read
   at most once, visited = reachable, shape of the output, containment under a root folder. *)
From Coq Require Import Lia.
From PdV.Model Require Import Load.
From PdV Require Import TextProofs.
Local Open Scope nat_scope.

Section P.
Variable id : Type.
Variable id_eqb : id -> id -> bool.
Hypothesis id_eqb_eq : forall a b, id_eqb a b = true <-> a = b.
Variable item : Type.
Variable resolve : item -> option id.
Variable pushes : id -> list item.
Variable blk : Type.
Variable blocks : id -> list blk.
Variable raising : bool.
Notation load := (load id id_eqb item resolve pushes blk blocks raising).
Notation mem := (mem id id_eqb).

Lemma mem_In i l : mem i l = true <-> In i l.
Proof.
  unfold Load.mem. rewrite existsb_exists. split.
  - intros [x [Hx E]]. apply id_eqb_eq in E. now subst.
  - intro H. exists i. split; [assumption|]. now apply id_eqb_eq.
Qed.

Lemma mem_false i l : mem i l = false <-> ~ In i l.
Proof. rewrite <- mem_In. destruct (mem i l); split; congruence. Qed.

(* ---------- termination ---------- *)
Variable universe : list id.
Hypothesis universe_nodup : NoDup universe.
Hypothesis resolve_in : forall it i, resolve it = Some i -> In i universe.

Fixpoint pending_in (U : list id) (visited : list id) : nat :=
  match U with
  | [] => 0
  | u :: U' => (if mem u visited then 0 else length (pushes u)) + pending_in U' visited
  end.
Definition pending := pending_in universe.

Lemma pending_same U i visited : ~ In i U -> pending_in U (i :: visited) = pending_in U visited.
Proof.
  induction U as [|u U IH]; intro Hn; cbn [pending_in]; [reflexivity|].
  rewrite IH by (intro; apply Hn; now right). f_equal. unfold Load.mem. cbn [existsb].
  destruct (id_eqb u i) eqn:E; [apply id_eqb_eq in E; subst; exfalso; apply Hn; now left|reflexivity].
Qed.

Lemma pending_visit U i visited : NoDup U -> In i U -> mem i visited = false ->
  pending_in U visited = length (pushes i) + pending_in U (i :: visited).
Proof.
  induction U as [|u U IH]; intros ND HIn Hm; [inversion HIn|].
  inversion ND as [|? ? Hnu ND']; subst. cbn [pending_in].
  destruct HIn as [->|HIn].
  - rewrite Hm. rewrite (pending_same U i visited Hnu).
    assert (mem i (i :: visited) = true) as -> by (apply mem_In; now left). lia.
  - rewrite (IH ND' HIn Hm).
    assert (mem u (i :: visited) = mem u visited) as ->.
    { unfold Load.mem. cbn [existsb]. destruct (id_eqb u i) eqn:E; [|reflexivity]. apply id_eqb_eq in E. subst. contradiction. }
    lia.
Qed.

(* C16: loading terminates - for every input and whatever the include graph looks like, with fuel
   beyond the stack length plus the pushes still pending from unvisited locations *)
Theorem load_terminates : forall fuel stack visited evs,
  length stack + pending visited < fuel -> load fuel stack visited evs <> OutOfFuel.
Proof.
  induction fuel as [|f IH]; intros stack visited evs H; [lia|]. cbn.
  destruct stack as [|it st]; [discriminate|].
  destruct (resolve it) as [i|] eqn:R; [|discriminate].
  destruct (mem i visited) eqn:M.
  - destruct raising; [discriminate|]. apply IH. cbn in H. lia.
  - apply IH. rewrite app_length, rev_length. cbn in H. unfold pending in *.
    rewrite (pending_visit universe i visited universe_nodup (resolve_in _ _ R) M) in H. lia.
Qed.

(* ---------- each location read at most once ---------- *)
Theorem load_nodup : forall fuel stack visited evs v e, NoDup visited ->
  load fuel stack visited evs = Done v e -> NoDup v.
Proof.
  induction fuel as [|f IH]; intros stack visited evs v e ND H; [discriminate|]. cbn in H.
  destruct stack as [|it st]; [inversion H; subst; auto|].
  destruct (resolve it) as [i|]; [|discriminate].
  destruct (mem i visited) eqn:M.
  - destruct raising; [discriminate|]. eauto.
  - eapply IH; [|exact H]. constructor; auto. now apply mem_false.
Qed.

(* ---------- the output: per visited location, its blocks together and in order ---------- *)
Definition is_dup (e : ev id blk) : bool := match e with Dup _ => true | _ => false end.
Definition visit_events (i : id) : list (ev id blk) := Visit i :: map (Yield i) (blocks i).

Lemma filter_yields i (bs : list blk) :
  filter (fun x : ev id blk => negb (is_dup x)) (map (Yield i) bs) = map (Yield i) bs.
Proof. induction bs as [|b bs IHb]; cbn; [reflexivity|]. now rewrite IHb. Qed.

Theorem load_output : forall fuel stack visited evs v e,
  filter (fun x => negb (is_dup x)) evs = flat_map visit_events (rev visited) ->
  load fuel stack visited evs = Done v e ->
  filter (fun x => negb (is_dup x)) e = flat_map visit_events (rev v).
Proof.
  induction fuel as [|f IH]; intros stack visited evs v e Hinv H; [discriminate|]. cbn in H.
  destruct stack as [|it st]; [inversion H; subst; assumption|].
  destruct (resolve it) as [i|]; [|discriminate].
  destruct (mem i visited) eqn:M.
  - destruct raising; [discriminate|]. eapply IH; [|exact H].
    rewrite filter_app. cbn. now rewrite app_nil_r.
  - eapply IH; [|exact H]. rewrite filter_app, Hinv. cbn [rev]. rewrite flat_map_app. cbn [flat_map].
    rewrite app_nil_r. f_equal. unfold visit_events. cbn [filter is_dup negb]. f_equal.
    apply filter_yields.
Qed.

Lemma dup_branch (i : id) (evs : list (ev id blk)) (Y : res id item blk) v e :
  (if raising then DupAbort i evs else Y) = Done v e -> Y = Done v e.
Proof. destruct raising; [discriminate|auto]. Qed.

(* visited only grows *)
Lemma load_visited_mono : forall fuel stack visited evs v e i,
  load fuel stack visited evs = Done v e -> In i visited -> In i v.
Proof.
  induction fuel as [|f IH]; intros stack visited evs v e i H Hin; [discriminate|]. cbn in H.
  destruct stack as [|it st]; [inversion H; subst; assumption|].
  destruct (resolve it) as [j|]; [|discriminate].
  destruct (mem j visited).
  - apply dup_branch in H. eapply IH; eauto.
  - eapply IH; [exact H|]. now right.
Qed.

(* every Dup event names a location that was read (so: a location popped again after being read) *)
Theorem load_dups_reported : forall fuel stack visited evs v e i,
  load fuel stack visited evs = Done v e -> In (Dup i) e -> In (Dup i) evs \/ In i v.
Proof.
  induction fuel as [|f IH]; intros stack visited evs v e i H Hin; [discriminate|]. cbn in H.
  destruct stack as [|it st]; [inversion H; subst; auto|].
  destruct (resolve it) as [j|]; [|discriminate].
  destruct (mem j visited) eqn:M.
  - apply dup_branch in H. destruct (IH _ _ _ _ _ _ H Hin) as [C|C]; [|auto].
    apply in_app_or in C. destruct C as [C|[C|[]]]; [left; exact C|]. inversion C; subst. right.
    apply mem_In in M. eapply load_visited_mono; [exact H|exact M].
  - destruct (IH _ _ _ _ _ _ H Hin) as [C|C]; [|auto].
    apply in_app_or in C. destruct C as [C|C]; [left; exact C|]. cbn in C. destruct C as [C|C]; [discriminate|].
    apply in_map_iff in C. destruct C as [b [C _]]. discriminate.
Qed.

(* ---------- exactness: visited = reachable ---------- *)
Inductive reach (roots : list item) : id -> Prop :=
| reach_root it i : In it roots -> resolve it = Some i -> reach roots i
| reach_step j it i : reach roots j -> In it (pushes j) -> resolve it = Some i -> reach roots i.

Definition inv (roots stack : list item) (visited : list id) : Prop :=
  (forall i, In i visited -> reach roots i) /\
  (forall it, In it stack -> (exists i, resolve it = Some i /\ reach roots i) \/ resolve it = None) /\
  (forall it i, In it roots -> resolve it = Some i -> In i visited \/ In it stack) /\
  (forall j it i, In j visited -> In it (pushes j) -> resolve it = Some i -> In i visited \/ In it stack).

(* C16: a load that completes has read exactly the locations reachable from the roots *)
Theorem load_exact : forall roots fuel stack visited evs v e,
  inv roots stack visited -> load fuel stack visited evs = Done v e ->
  forall i, In i v <-> reach roots i.
Proof.
  intros roots; induction fuel as [|f IH]; intros stack visited evs v e I H; [discriminate|]. cbn in H.
  destruct stack as [|it st].
  - inversion H; subst. destruct I as (I1 & _ & I3 & I4). intro i; split; [apply I1|].
    induction 1 as [it i Hin R | j it i _ IHj Hin R].
    + destruct (I3 _ _ Hin R) as [|[]]; auto.
    + destruct (I4 _ _ _ IHj Hin R) as [|[]]; auto.
  - destruct (resolve it) as [i0|] eqn:R; [|discriminate].
    destruct I as (I1 & I2 & I3 & I4).
    assert (reach roots i0) as Ri0.
    { destruct (I2 it (or_introl eq_refl)) as [[i' [R' Hr]]|R']; congruence. }
    destruct (mem i0 visited) eqn:M.
    + destruct raising; [discriminate|]. eapply IH; [|exact H]. apply mem_In in M. repeat split; auto.
      * intros it' Hin. apply I2. now right.
      * intros it' i Hin R'. destruct (I3 _ _ Hin R') as [|[<-|]]; auto. left. congruence.
      * intros j it' i Hj Hin R'. destruct (I4 _ _ _ Hj Hin R') as [|[<-|]]; auto. left; congruence.
    + eapply IH; [|exact H]. repeat split.
      * intros i [<-|Hi]; auto.
      * intros it' Hin. apply in_app_or in Hin. destruct Hin as [Hin|Hin]; [|apply I2; now right].
        apply in_rev in Hin. destruct (resolve it') as [i'|] eqn:R'; [left|now right].
        exists i'. split; auto. eapply reach_step; eauto.
      * intros it' i Hin R'. destruct (I3 _ _ Hin R') as [|[<-|]]; [left; now right| |right; apply in_or_app; now right].
        left. left. congruence.
      * intros j it' i [<-|Hj] Hin R'.
        -- right. apply in_or_app. left. rewrite <- in_rev. exact Hin.
        -- destruct (I4 _ _ _ Hj Hin R') as [|[<-|]]; [left; now right| |right; apply in_or_app; now right].
           left; left; congruence.
Qed.

Lemma inv_init roots : inv roots (rev roots) [].
Proof.
  repeat split.
  - intros i [].
  - intros it Hin. apply in_rev in Hin. destruct (resolve it) as [i|] eqn:R; [left|now right].
    exists i. split; auto. eapply reach_root; eauto.
  - intros it i Hin R. right. now apply in_rev in Hin || (rewrite <- in_rev; exact Hin).
  - intros j it i [].
Qed.

(* every location read from the roots is reachable: it has a chain of load items back to a root *)
Theorem history_exists roots fuel v e :
  load fuel (rev roots) [] [] = Done v e -> forall i, In i v -> reach roots i.
Proof. intros H i Hi. exact (proj1 (load_exact roots fuel _ _ _ v e (inv_init roots) H i) Hi). Qed.
End P.
