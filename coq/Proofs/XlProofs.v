(* Proofs about M-Write (Excel). *)
From Coq Require Import Lia.
From PdV.Model Require Import WriteXl.
Local Open Scope nat_scope.

Lemma rows_styled_written sep_lines d : rows_styled sep_lines d = rows_written sep_lines d.
Proof. destruct d as [[nrows ncols] [|]]; cbn; lia. Qed.

Lemma cols_styled_written d : cols_styled d = cols_written d.
Proof. destruct d as [[nrows ncols] [|]]; cbn; lia. Qed.

(* C09: for every list of table dimensions, both orientations and any number of separator lines,
   the styler looks for table i exactly at the row where the writer put it, and styles exactly as
   many cells per line as were written *)
Theorem style_ranges sep_lines ds : forall i,
  starts (rows_styled sep_lines) i ds = starts (rows_written sep_lines) i ds.
Proof.
  induction ds as [|d rest IH]; intro i; cbn; [reflexivity|].
  rewrite rows_styled_written. f_equal. apply IH.
Qed.

(* the rows written for a table: their number matches the bookkeeping *)
Lemma xl_table_rows_length sep_lines t :
  length (xl_table_rows sep_lines t) =
  rows_written sep_lines (n_rows (w_cols t), length (w_cols t), w_transposed t).
Proof.
  unfold xl_table_rows, rows_written. rewrite app_length, repeat_length. cbn [length].
  destruct (w_transposed t).
  - destruct (w_cols t) as [|c0 rest]; cbn; [lia|]. rewrite map_length. lia.
  - cbn. rewrite map_length, seq_length. lia.
Qed.

(* separator lines and None padding are blank rows / blank cells *)
Lemma pad_row_prefix w r : exists k, pad_row w r = r ++ repeat CNone k.
Proof. unfold pad_row. eauto. Qed.
