(* 'jsondata' of a table block = table_to_json_data of the 'pdtable' table of the same block:
   two different routes through the code (to_json_serializable of the precursor; list(df[col]) of
   the frame built from the precursor, leaf by leaf) give the same JsonData. *)
From Coq Require Import Lia.
From PdV Require Import Json Reader ParseProofs.
Local Open Scope nat_scope.

Section F.
Variable render_dt : dtok -> str.
Variable float_repr : ftok -> str.
Notation scalar_of_value := (scalar_of_value render_dt float_repr).
Notation frame_cols := (frame_cols render_dt float_repr).

(* a custom fixer may put any object in a column; the stock fixers never do *)
Definition stock_value (v : value) : Prop := match v with VCustom _ => False | _ => True end.

Lemma leaf_scalar v : stock_value v -> leaf_of_scalar (scalar_of_value v) = Some (leaf_of_value render_dt v).
Proof. destruct v; cbn; intro H; try reflexivity. contradiction. Qed.

Lemma leaves_scalar vs :
  Forall stock_value vs -> leaves_of (map scalar_of_value vs) = Some (map (leaf_of_value render_dt) vs).
Proof.
  induction 1 as [|v vs Hv _ IH]; [reflexivity|]. cbn [map leaves_of]. now rewrite (leaf_scalar v Hv), IH.
Qed.

Lemma json_cols_frame names units cols :
  Forall (Forall stock_value) cols ->
  json_cols (frame_zip render_dt float_repr names units cols) = Some (zip3 render_dt names units cols).
Proof.
  revert units cols. induction names as [|n ns IH]; intros [|u us] [|c cs] H; try reflexivity.
  inversion H as [|? ? Hc Hcs]; subst. cbn [frame_zip zip3 json_cols].
  now rewrite (leaves_scalar c Hc), (IH us cs Hcs).
Qed.

Theorem json_is_table_to_json p :
  Forall (Forall stock_value) (p_cols p) ->
  table_to_json (p_name p) (p_dests p) (frame_cols p) = Some (json_of_ptable render_dt p).
Proof.
  intro H. unfold table_to_json, frame_cols, Json.frame_cols. now rewrite (json_cols_frame _ _ _ H).
Qed.


(* a fixer whose replacement for a cell of a column kind is a value of that kind (the stock fixer:
   False / NaT / NaN).  A replacement of another kind makes numpy coerce the whole column, and then the
   two forms do differ (the Table constructor refuses the column, the JSON form keeps it as text) *)
Definition kind_ok (vt : vtype) (v : value) : Prop :=
  match vt, v with
  | TOnoff, VBool _ | TFloat, VNum _ | TDatetime, VDate _ | TDatetime, VNaT => True
  | _, _ => False
  end.
Lemma kind_ok_stock vt v : kind_ok vt v -> stock_value v.
Proof. destruct vt, v; cbn; intro H; try exact I; destruct H. Qed.

(* every table the reader parses holds stock values only, provided the fixer's replacement values are *)
Section Stock.
Variable parse_float : str -> option ftok.
Variable parse_dt : str -> dres.
Variable cfg : fixer_cfg.
Hypothesis H_fix : forall vt, stock_value (fix_value cfg vt).

Lemma cell_parser_stock u c v : cell_parser parse_float parse_dt u c = CVal v -> stock_value v.
Proof.
  unfold cell_parser. destruct (str_eqb u s_text); [intro H; inversion H; exact I|].
  destruct (str_eqb u s_onoff).
  { unfold onoff_cell. destruct c; try discriminate; repeat match goal with |- (if ?b then _ else _) = _ -> _ => destruct b end;
      intro H; inversion H; exact I. }
  destruct (str_eqb u s_datetime).
  { unfold datetime_cell. destruct c; try discriminate; try (intro H; inversion H; exact I).
    destruct (strip s); [discriminate|].
    repeat match goal with |- (if ?b then _ else _) = _ -> _ => destruct b end; try discriminate; try (intro H; inversion H; exact I).
    destruct (parse_dt _); try discriminate; intro H; inversion H; exact I. }
  unfold float_cell. destruct c; try discriminate; try (intro H; inversion H; exact I).
  destruct (is_marker _); [intro H; inversion H; exact I|].
  destruct (parse_float _); [intro H; inversion H; exact I|discriminate].
Qed.

Lemma parse_cells_stock u cs : forall fx vs fx',
  parse_cells cfg (cell_parser parse_float parse_dt u) cs fx = Ok (vs, fx') -> Forall stock_value vs.
Proof.
  induction cs as [|c cs IH]; intros fx vs fx' H; cbn [parse_cells] in H.
  - inversion H. constructor.
  - destruct (cell_parser parse_float parse_dt u c) as [v|vt shown| |] eqn:E; try discriminate.
    + destruct (parse_cells cfg _ cs fx) as [[vs0 fx0]|m|] eqn:E2; try discriminate. inversion H; subst.
      constructor; [exact (cell_parser_stock _ _ _ E)|exact (IH _ _ _ E2)].
    + destruct (parse_cells cfg _ cs _) as [[vs0 fx0]|m|] eqn:E2; try discriminate. inversion H; subst.
      constructor; [apply H_fix|exact (IH _ _ _ E2)].
Qed.

Lemma parse_columns_stock units : forall cols fx vss fx',
  parse_columns parse_float parse_dt cfg units cols fx = Ok (vss, fx') -> Forall (Forall stock_value) vss.
Proof.
  induction units as [|u us IH]; intros cols fx vss fx' H; cbn [parse_columns] in H.
  - inversion H. constructor.
  - destruct cols as [|c cs]; [inversion H; constructor|].
    destruct (parse_cells cfg _ c fx) as [[vs fx1]|m|] eqn:E; try discriminate.
    destruct (parse_columns parse_float parse_dt cfg us cs fx1) as [[vss0 fx2]|m|] eqn:E2; try discriminate.
    inversion H; subst. constructor; [exact (parse_cells_stock _ _ _ _ _ E)|exact (IH _ _ _ _ E2)].
Qed.

Theorem parse_table_stock cells fx p :
  parse_table parse_float parse_dt cfg cells fx = Ok p -> Forall (Forall stock_value) (p_cols p).
Proof.
  intro H. destruct (parse_table_ok_inv _ _ _ _ _ _ H) as [(_ & _ & -> & _)|(raw & names & fx1 & units & rows0 & rows & fx2 & cols & fx3 & _ & _ & _ & E3 & _ & _ & -> & _ & _)].
  - constructor.
  - apply Forall_app. split; [exact (parse_columns_stock _ _ _ _ _ E3)|].
    apply Forall_forall. intros x Hx. apply repeat_spec in Hx. subst. constructor.
Qed.

(* the statement of C07 for one table block: whatever the block, if it parses, the JsonData the
   'jsondata' form delivers is table_to_json_data of the table the 'pdtable' form delivers *)
Theorem forms_agree_on_table cells fx p :
  parse_table parse_float parse_dt cfg cells fx = Ok p ->
  table_to_json (p_name p) (p_dests p) (frame_cols p) = Some (json_of_ptable render_dt p).
Proof. intro H. apply json_is_table_to_json. exact (parse_table_stock _ _ _ H). Qed.
End Stock.

Lemma stock_fix_stock vt : stock_value (stock_fix vt).
Proof. destruct vt; exact I. Qed.
Lemma stock_fix_kind vt : kind_ok vt (stock_fix vt).
Proof. destruct vt; exact I. Qed.
End F.

(* lifted to the event stream of a whole read: every table the 'pdtable' form delivers is the
   parse of its block's rows, hence (forms_agree_on_table) its JsonData is what 'jsondata' delivers
   at the same position (ReaderProofs.deliver_json: the same events with CtJson p for CtTable p) *)
Section Stream.
Variable render_dt : dtok -> str.
Variable float_repr : ftok -> str.
Variable parse_float : str -> option ftok.
Variable parse_dt : str -> dres.
Variable cfg : fixer_cfg.
Variable filter : option (btype -> str -> bool).
Variable raising : bool.

Lemma handle_table_parse t rows fx p fx' :
  handle parse_float parse_dt cfg FPd filter t rows fx = Ok (Some (CtTable p), fx') ->
  parse_table parse_float parse_dt cfg rows fx = Ok p.
Proof.
  unfold handle. destruct (negb (accepted filter t rows)); [discriminate|].
  destruct t; try discriminate.
  - unfold make_directive. destruct rows as [|[|[] ?] ?]; discriminate.
  - destruct (parse_table parse_float parse_dt cfg rows fx) as [q|m|]; try discriminate.
    intro H. inversion H. reflexivity.
Qed.

Lemma deliver_tables bs : forall hist evs fin t i p,
  deliver parse_float parse_dt cfg FPd filter raising bs hist = (evs, fin) ->
  In (EBlock t i (CtTable p)) evs ->
  exists rows, In (t, i, rows) bs /\ parse_table parse_float parse_dt cfg rows fx_init = Ok p.
Proof.
  induction bs as [|[[t0 i0] rows0] rest IH]; intros hist evs fin t i p H Hin; cbn [deliver] in H.
  - inversion H; subst. destruct Hin.
  - destruct (handle parse_float parse_dt cfg FPd filter t0 rows0 fx_init) as [[[c|] fx']|m|] eqn:E.
    + destruct (deliver parse_float parse_dt cfg FPd filter raising rest (hist ++ fx_messages fx')) as [evs0 fin0] eqn:D.
      inversion H; subst. destruct Hin as [Heq|Hin].
      * inversion Heq; subst. exists rows0. split; [now left|]. exact (handle_table_parse _ _ _ _ _ E).
      * destruct (IH _ _ _ _ _ _ D Hin) as (rows & Hr & Hp). exists rows. split; [now right|exact Hp].
    + destruct (IH _ _ _ _ _ _ H Hin) as (rows & Hr & Hp). exists rows. split; [now right|exact Hp].
    + destruct raising; [inversion H; subst; destruct Hin|].
      destruct (deliver parse_float parse_dt cfg FPd filter false rest (hist ++ m)) as [evs0 fin0] eqn:D.
      inversion H; subst. destruct Hin as [Heq|Hin]; [discriminate|].
      destruct (IH _ _ _ _ _ _ D Hin) as (rows & Hr & Hp). exists rows. split; [now right|exact Hp].
    + inversion H; subst. destruct Hin.
Qed.

Theorem forms_agree bs hist evs fin t i p :
  (forall vt, kind_ok vt (fix_value cfg vt)) ->
  deliver parse_float parse_dt cfg FPd filter raising bs hist = (evs, fin) ->
  In (EBlock t i (CtTable p)) evs ->
  table_to_json (p_name p) (p_dests p) (frame_cols render_dt float_repr p) = Some (json_of_ptable render_dt p).
Proof.
  intros Hfix H Hin. destruct (deliver_tables _ _ _ _ _ _ _ H Hin) as (rows & _ & Hp).
  exact (forms_agree_on_table render_dt float_repr parse_float parse_dt cfg ltac:(intro vt; eapply kind_ok_stock; apply Hfix) _ _ _ Hp).
Qed.
End Stream.
