(* Table.equals with the concrete cell comparison _equal_or_same (Model/PyEq.v) and on python
   objects: the hypotheses of EqualsProofs (reflexive / symmetric cell comparison) discharged,
   origin and orientation ignored, anything that is not a Table unequal. *)
From Coq Require Import Lia.
From PdV Require Import Equals PyEq EqualsProofs PyEqProofs.

Notation ptable := (table pyval).
Notation cell_equals := (equals equal_or_same).

Theorem cells_refl (a : ptable) : cell_equals a a = true.
Proof. apply equals_refl. exact eos_refl. Qed.

Theorem cells_sym (a b : ptable) : cell_equals a b = cell_equals b a.
Proof. apply equals_sym. exact eos_sym. Qed.

Theorem cells_iff (a b : ptable) :
  wf a -> wf b ->
  (cell_equals a b = true <->
   t_name a = t_name b /\ (forall s, In s (t_dests a) <-> In s (t_dests b)) /\
   t_colnames a = t_colnames b /\ t_units a = t_units b /\
   length (t_rows a) = length (t_rows b) /\ Forall2 (row_eqv equal_or_same) (t_rows a) (t_rows b)).
Proof. apply equals_iff. Qed.

(* the method on objects *)
Theorem method_ignores_origin_orientation (c1 c2 o1 o2 o1' o2' : N) (t1 t2 t1' t2' : bool) (a b : ptable) :
  method_equals equal_or_same (OTable c1 o1 t1 a) (OTable c2 o2 t2 b)
  = method_equals equal_or_same (OTable c1 o1' t1' a) (OTable c2 o2' t2' b).
Proof. reflexivity. Qed.

Theorem method_not_table (self : pyobj pyval) (tag : N) : method_equals equal_or_same self (ONotTable tag) = false.
Proof. destruct self; reflexivity. Qed.

Theorem method_refl (c o : N) (t : bool) (a : ptable) :
  method_equals equal_or_same (OTable c o t a) (OTable c o t a) = true.
Proof. apply cells_refl. Qed.

Theorem method_sym (x y : pyobj pyval) : method_equals equal_or_same x y = method_equals equal_or_same y x.
Proof. destruct x, y; cbn; try reflexivity. apply cells_sym. Qed.

(* before the repair a Table and an instance of a subclass with the same content compared equal in
   one direction only *)
Theorem method_unrepaired_asymmetric :
  exists x y : pyobj pyval,
    method_equals_unrepaired equal_or_same x y = true /\ method_equals_unrepaired equal_or_same y x = false /\
    method_equals equal_or_same x y = true /\ method_equals equal_or_same y x = true.
Proof.
  exists (OTable 0 0 false {| t_name := []; t_dests := []; t_colnames := []; t_units := []; t_rows := [] |}),
         (OTable 1 0 false {| t_name := []; t_dests := []; t_colnames := []; t_units := []; t_rows := [] |}).
  repeat split; vm_compute; reflexivity.
Qed.
