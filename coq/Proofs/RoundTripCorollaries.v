(* Corollaries tying the round-trip theorems to input-level conditions: the destinations read back
   are the destinations written, and for tables with rows the block-shape hypothesis of the general
   bundle theorem follows from the first-cell conditions. *)
From Coq Require Import Lia.
From PdV Require Import ParseTable TextProofs LayoutProofs WriteProofs DestsRoundTrip RoundTrip RoundTripZero PlainLines JsonRoundTrip.
From PdV.Model Require Import WriteCsv Segment Reader.
Local Open Scope nat_scope.

Lemma read_back_dests nm ds cols fx tr :
  ds <> [] -> Forall dest_ok ds -> p_dests (read_back nm ds cols fx tr) = ds.
Proof. intros H1 H2. unfold read_back. cbn [p_dests]. now apply dests_roundtrip. Qed.

Lemma table_read_back_dests t :
  w_dests t <> [] -> Forall dest_ok (w_dests t) -> p_dests (table_read_back t) = w_dests t.
Proof. intros H1 H2. unfold table_read_back. now apply read_back_dests. Qed.

Lemma json_read_back_dests name dests cols fx :
  dests <> [] -> Forall dest_ok dests -> p_dests (json_read_back name dests cols fx) = dests.
Proof. intros H1 H2. unfold json_read_back. cbn [p_dests]. now apply dests_roundtrip. Qed.

Section PC.
Variable parse_float : str -> option ftok.
Variable parse_dt : str -> dres.
Variable sep : N.

Lemma wf_table_no_extra t : wf_table parse_float parse_dt sep t -> n_extra t = 0.
Proof.
  intros (m & Hm & Hrect & Hc & _). unfold n_extra. destruct (w_cols t) as [|c cs] eqn:Ec; [congruence|].
  destruct (w_transposed t); [reflexivity|]. cbn [negb andb n_rows]. inversion Hrect as [|? ? Hl ?]. rewrite Hl.
  destruct m; [lia|reflexivity].
Qed.

Lemma plain_core_of_plain_lines t :
  wf_table parse_float parse_dt sep t -> plain_lines sep t -> plain_core sep t.
Proof.
  intros Hw Hp. unfold plain_core, core_rows, all_rows. rewrite (wf_table_no_extra t Hw), Nat.sub_0_r, firstn_all.
  exact Hp.
Qed.

(* tables with rows: the general bundle theorem needs only the input-level conditions *)
Theorem plain_core_from_first_cells t :
  wf_table parse_float parse_dt sep t -> first_cells_plain t -> plain_core sep t.
Proof. intros Hw Hf. apply plain_core_of_plain_lines; [assumption|]. now apply (plain_lines_intro parse_float parse_dt). Qed.
End PC.
