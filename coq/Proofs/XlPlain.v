(* xl_plain (the block-shape hypothesis of C09_sheet_table_roundtrip) from conditions on first cells. *)
From Coq Require Import Lia.
From PdV Require Import ParseTable TextProofs LayoutProofs RoundTrip BlockEndProofs PlainLines XlRoundTrip.
From PdV.Model Require Import WriteCsv WriteXl Segment Marker.
Local Open Scope nat_scope.

(* a native cell that is neither blank nor a block marker *)
Definition xcell_plain (c : cell) : Prop :=
  match c with CStr s => cell_plain s | CNone => False | _ => True end.

Lemma row_kind_xplain c rest : xcell_plain c -> row_kind (c :: rest) = KPlain.
Proof.
  destruct c; cbn [xcell_plain]; intro H; try contradiction; try reflexivity.
  now apply row_kind_plain.
Qed.

Lemma pad_row_cons w c r : pad_row w (c :: r) = c :: (r ++ repeat CNone (w - S (length r))).
Proof. reflexivity. Qed.

Definition first_cells_plain_xl (t : wtable) : Prop :=
  no_lead_star (w_name t) /\
  cell_plain (join [32%N] (w_dests t)) /\
  Forall (fun c => cell_plain (wc_name c)) (w_cols t) /\
  match w_cols t with
  | c0 :: _ => cell_plain (wc_unit c0) /\ Forall (fun v => xcell_plain (xl_cell (wc_unit c0) true v)) (wc_vals c0)
  | [] => True
  end.

Theorem xl_plain_intro sep_lines pre post t :
  w_cols t <> [] -> first_cells_plain_xl t -> xl_plain sep_lines pre post t.
Proof.
  destruct t as [nm ds tr cols]. unfold first_cells_plain_xl, xl_plain, xl_core_rows.
  cbn [w_name w_dests w_transposed w_cols]. intros Hc (Pn & Pd & Pnames & Pfirst).
  set (w := width sep_lines pre post _). clearbody w.
  destruct cols as [|c0 rest]; [exfalso; now apply Hc|]. destruct Pfirst as [Pu Pv].
  inversion Pnames as [|? ? Pn0 Prest]; subst.
  cbn [map]. rewrite !pad_row_cons. split.
  - destruct tr; cbv iota; now apply row_kind_table.
  - constructor; [unfold is_plain; now apply row_kind_plain|].
    destruct tr.
    + (* transposed: one line per column, each starting with the column's name *)
      cbn [map]. constructor; [rewrite pad_row_cons; unfold is_plain; now apply row_kind_plain|].
      apply Forall_forall. intros r Hr. apply in_map_iff in Hr as (r0 & <- & Hr0).
      apply in_map_iff in Hr0 as (c & <- & Hcin). rewrite pad_row_cons. unfold is_plain. apply row_kind_plain.
      rewrite Forall_forall in Prest. now apply Prest.
    + (* row-wise: names, units, then the data rows starting with the first column's value *)
      cbn [map]. constructor; [rewrite pad_row_cons; unfold is_plain; now apply row_kind_plain|].
      constructor; [rewrite pad_row_cons; unfold is_plain; now apply row_kind_plain|].
      apply Forall_forall. intros r Hr. apply in_map_iff in Hr as (r0 & <- & Hr0).
      apply in_map_iff in Hr0 as (i & <- & Hi). apply in_seq in Hi. cbn [n_rows] in Hi.
      unfold xl_row_cells. rewrite (nth_error_nth' _ dval) by lia. cbn [app]. rewrite pad_row_cons.
      unfold is_plain. apply row_kind_xplain. rewrite Forall_forall in Pv. apply Pv. apply nth_In. lia.
Qed.
