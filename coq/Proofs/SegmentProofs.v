(* Proofs about M-Seg (Model/Segment.v): the segmentation automaton of parse_blocks_stable. *)
From Coq Require Import Lia.
From PdV Require Import Segment.

Set Implicit Arguments.
Local Open Scope nat_scope.

(* ---------- generic list helpers ---------- *)
Lemma number_app {A} (l1 l2 : list A) i :
  number i (l1 ++ l2) = number i l1 ++ number (i + length l1) l2.
Proof.
  revert i; induction l1 as [|x l1 IH]; intro i; cbn.
  - now rewrite Nat.add_0_r.
  - rewrite IH. do 3 f_equal. lia.
Qed.

Lemma number_map {A B} (f : A -> B) (l : list A) i :
  number i (map f l) = map (fun p => (fst p, f (snd p))) (number i l).
Proof. revert i; induction l as [|x l IH]; intro i; cbn; [reflexivity|now rewrite IH]. Qed.

Inductive sublist {A} : list A -> list A -> Prop :=
| sub_nil : sublist [] []
| sub_skip x l1 l2 : sublist l1 l2 -> sublist l1 (x :: l2)
| sub_keep x l1 l2 : sublist l1 l2 -> sublist (x :: l1) (x :: l2).

Lemma sublist_refl {A} (l : list A) : sublist l l.
Proof. induction l; [apply sub_nil|apply sub_keep; auto]. Qed.

Lemma sublist_nil_l {A} (l : list A) : sublist [] l.
Proof. induction l; [apply sub_nil|apply sub_skip; auto]. Qed.

Lemma sublist_app {A} (a b c d : list A) : sublist a b -> sublist c d -> sublist (a ++ c) (b ++ d).
Proof. induction 1; cbn; intros; auto; [apply sub_skip|apply sub_keep]; auto. Qed.

Lemma sublist_trans {A} (a b c : list A) : sublist a b -> sublist b c -> sublist a c.
Proof.
  intros Hab Hbc. revert a Hab. induction Hbc; intros a Hab.
  - assumption.
  - apply sub_skip. auto.
  - inversion Hab; subst; [apply sub_skip|apply sub_keep]; auto.
Qed.

Lemma sublist_app_skip_last {A} (a b : list A) x : sublist a b -> sublist a (b ++ [x]).
Proof.
  intro H. rewrite <- (app_nil_r a). apply sublist_app; [assumption|]. apply sub_skip, sub_nil.
Qed.

Lemma sublist_app_keep_last {A} (a b : list A) x : sublist a b -> sublist (a ++ [x]) (b ++ [x]).
Proof. intro H. apply sublist_app; [assumption|apply sublist_refl]. Qed.

(* ---------- section over an abstract classifier ---------- *)
Section P.
Variable R : Type.
Variable kind_of : R -> kind.
Notation step := (step kind_of).
Notation run := (run kind_of).
Notation segment := (segment kind_of).

Definition is_blank_kind (k : kind) : bool :=
  match k with KBlank0 | KBlankP => true | _ => false end.

(* out only grows at the front: emitted blocks are never revised *)
Lemma step_out_ext (s : st R) ir : exists d, out (step s ir) = d ++ out s.
Proof.
  destruct ir as [i r]; unfold Segment.step; destruct (kind_of r); cbn;
  repeat match goal with |- context[if ?b then _ else _] => destruct b end; cbn;
  try (exists []; reflexivity);
  unfold emit; destruct (grid s); cbn; solve [exists []; reflexivity | eexists [_]; reflexivity].
Qed.

Lemma fold_out_ext l (s : st R) : exists d, out (fold_left step l s) = d ++ out s.
Proof.
  revert s; induction l as [|x l IH]; intro s; cbn.
  - exists []; reflexivity.
  - destruct (IH (step s x)) as [d Hd]. destruct (step_out_ext s x) as [d' Hd'].
    exists (d ++ d'). rewrite Hd, Hd', app_assoc. reflexivity.
Qed.

Lemma emit_ext (s : st R) : exists d, emit s = d ++ out s /\ length d <= 1.
Proof.
  unfold emit; destruct (grid s).
  - exists []; split; auto.
  - eexists [_]; split; [reflexivity|cbn; lia].
Qed.

Definition prefix {A} (p l : list A) := exists t, l = p ++ t.

Lemma fold_number_app l1 l2 i (s : st R) :
  fold_left step (number i (l1 ++ l2)) s =
  fold_left step (number (i + length l1) l2) (fold_left step (number i l1) s).
Proof. rewrite number_app, fold_left_app. reflexivity. Qed.

(* C03: the blocks of a prefix, minus the last, are a prefix of the blocks of the whole *)
Theorem prefix_stable rs1 rs2 : prefix (removelast (segment rs1)) (segment (rs1 ++ rs2)).
Proof.
  unfold Segment.segment, Segment.run. rewrite fold_number_app. cbn.
  set (s1 := fold_left step (number 0 rs1) init).
  set (s2 := fold_left step _ s1).
  destruct (emit_ext s1) as [d1 [H1 L1]]. destruct (emit_ext s2) as [d2 [H2 _]].
  destruct (fold_out_ext (number (length rs1) rs2) s1) as [d Hd]. fold s2 in Hd.
  rewrite H1, H2, Hd. rewrite !rev_app_distr.
  assert (prefix (removelast (rev (out s1) ++ rev d1)) (rev (out s1))) as [t Ht].
  { destruct d1 as [|x [|y d1]]; cbn in *.
    - rewrite app_nil_r. destruct (rev (out s1)) eqn:E using rev_ind.
      + exists []; reflexivity.
      + rewrite removelast_last. eexists; reflexivity.
    - rewrite removelast_last. exists []; now rewrite app_nil_r.
    - lia. }
  unfold prefix. exists (t ++ rev d ++ rev d2). rewrite app_assoc, <- Ht.
  rewrite <- !app_assoc. reflexivity.
Qed.

(* ---------- rows preserved ---------- *)
(* all rows held by a state, in input order *)
Definition held (s : st R) : list R :=
  concat (map (fun b : block R => snd b) (rev (out s))) ++ rev (grid s).

Lemma held_emit (s : st R) :
  concat (map (fun b : block R => snd b) (rev (emit s))) = held s.
Proof.
  unfold held, emit. destruct (grid s) as [|g gs] eqn:E.
  - cbn. now rewrite app_nil_r.
  - cbn [rev]. rewrite map_app, concat_app. cbn. now rewrite app_nil_r.
Qed.

Definition keeps (s : st R) (r : R) : bool :=
  match kind_of r with
  | KBlank0 => false
  | KBlankP => negb (btype_eqb (cur s) BBlank)
  | _ => true
  end.

Lemma held_step (s : st R) i r :
  held (step s (i, r)) = if keeps s r then held s ++ [r] else held s.
Proof.
  unfold Segment.step, keeps.
  destruct (kind_of r) eqn:K; cbn;
  repeat match goal with |- context[btype_eqb ?a ?b] => destruct (btype_eqb a b) eqn:? end; cbn;
  try reflexivity;
  try (unfold held at 1; cbn [out grid]; rewrite held_emit; cbn; now rewrite ?app_nil_r);
  try (unfold held; cbn [out grid rev]; now rewrite app_assoc).
Qed.

Lemma held_fold_sublist l (s : st R) :
  sublist (held (fold_left step l s)) (held s ++ map snd l) /\
  filter (fun r => negb (is_blank_kind (kind_of r))) (held (fold_left step l s)) =
  filter (fun r => negb (is_blank_kind (kind_of r))) (held s ++ map snd l).
Proof.
  revert s; induction l as [|[i r] l IH]; intro s; cbn [fold_left map snd].
  - rewrite app_nil_r. split; [apply sublist_refl|reflexivity].
  - destruct (IH (step s (i, r))) as [IH1 IH2]. rewrite held_step in IH1, IH2.
    replace (held s ++ r :: map snd l) with ((held s ++ [r]) ++ map snd l)
      by (rewrite <- app_assoc; reflexivity).
    destruct (keeps s r) eqn:Kp.
    + split; assumption.
    + split.
      * eapply sublist_trans; [exact IH1|].
        apply sublist_app; [apply sublist_app_skip_last, sublist_refl|apply sublist_refl].
      * rewrite IH2. rewrite !filter_app. cbn [filter].
        unfold keeps in Kp. destruct (kind_of r); cbn; try discriminate; now rewrite app_nil_r.
Qed.

Definition grids (bs : list (block R)) : list R := concat (map (fun b : block R => snd b) bs).

Theorem rows_preserved rs :
  sublist (grids (segment rs)) rs /\
  filter (fun r => negb (is_blank_kind (kind_of r))) (grids (segment rs)) =
  filter (fun r => negb (is_blank_kind (kind_of r))) rs.
Proof.
  unfold grids, Segment.segment. rewrite held_emit. unfold Segment.run.
  destruct (held_fold_sublist (number 0 rs) init) as [H1 H2].
  assert (map snd (number 0 rs) = rs) as E.
  { clear. generalize 0%nat. induction rs as [|x l IH]; intro n; cbn; [reflexivity|]. f_equal. apply IH. }
  unfold held in H1 at 2. unfold held in H2 at 2. cbn in H1, H2. rewrite E in H1, H2. split; assumption.
Qed.

(* rows held in blocks never are payload-free blank rows *)
Lemma held_fold_kinds l (s : st R) :
  Forall (fun r => kind_of r <> KBlank0) (held s) ->
  Forall (fun r => kind_of r <> KBlank0) (held (fold_left step l s)).
Proof.
  revert s; induction l as [|[i r] l IH]; intros s H; cbn [fold_left]; [assumption|].
  apply IH. rewrite held_step. destruct (keeps s r) eqn:K; [|assumption].
  apply Forall_app. split; [assumption|]. constructor; [|constructor].
  unfold keeps in K. intro C. rewrite C in K. discriminate.
Qed.

Theorem block_rows_kept rs t i g r :
  In (t, i, g) (segment rs) -> In r g -> kind_of r <> KBlank0.
Proof.
  intros Hb Hr.
  assert (Forall (fun r => kind_of r <> KBlank0) (grids (segment rs))) as F.
  { unfold grids, Segment.segment. rewrite held_emit. apply held_fold_kinds. constructor. }
  rewrite Forall_forall in F. apply F. unfold grids. apply in_concat. exists g. split; [|assumption].
  apply in_map_iff. exists (t, i, g). split; [reflexivity|assumption].
Qed.

(* ---------- origins ---------- *)
Definition type_ok (t : btype) (i : nat) (k : kind) : Prop :=
  match t with
  | BTable => k = KTable
  | BDir => k = KDir
  | BTempl => k = KTempl
  | BBlank => k = KBlank0 \/ k = KBlankP \/ k = KKey
  | BMeta => i = 0%nat /\ (k = KKey \/ k = KPlain)
  end.

(* what is known about a block (t, i, g) cut from the rows [rs] *)
Definition origin_ok (rs : list R) (t : btype) (i : nat) (g : list R) : Prop :=
  exists r0, nth_error rs i = Some r0 /\ type_ok t i (kind_of r0) /\
             ((exists g', g = r0 :: g') \/ (t = BBlank /\ kind_of r0 = KBlank0)).

Definition block_ok (rs : list R) (b : block R) : Prop :=
  let '(t, i, g) := b in origin_ok rs t i g /\ g <> [].

Fixpoint desc (bound : nat) (bs : list (block R)) : Prop :=
  match bs with
  | [] => True
  | b :: rest => snd (fst b) <= bound /\ desc (snd (fst b)) rest
  end.

Lemma desc_mono b b' l : desc b l -> b <= b' -> desc b' l.
Proof. destruct l as [|x l]; cbn; [auto|]. intros [H1 H2] Hle. split; [lia|assumption]. Qed.

Definition st_ok (rs : list R) (s : st R) : Prop :=
  (grid s <> [] -> origin_ok rs (cur s) (first s) (rev (grid s))) /\
  (forall b, In b (out s) -> block_ok rs b) /\
  (first s <= length rs) /\
  desc (first s) (out s) /\
  (grid s = [] -> cur s = BMeta -> rs = []) /\
  (grid s = [] -> cur s <> BMeta -> exists r0, nth_error rs (first s) = Some r0 /\
                  cur s = BBlank /\ kind_of r0 = KBlank0).

Lemma nth_error_snoc_old {A} (l : list A) x i r : nth_error l i = Some r -> nth_error (l ++ [x]) i = Some r.
Proof. intro H. rewrite nth_error_app1; [assumption|]. apply nth_error_Some. congruence. Qed.

Lemma nth_error_snoc {A} (l : list A) x : nth_error (l ++ [x]) (length l) = Some x.
Proof. rewrite nth_error_app2 by lia. now rewrite Nat.sub_diag. Qed.

Lemma origin_ok_snoc rs x t i g : origin_ok rs t i g -> origin_ok (rs ++ [x]) t i g.
Proof.
  intros [r0 [Hn H]]. exists r0. split; [|assumption]. now apply nth_error_snoc_old.
Qed.

Lemma block_ok_snoc rs x b : block_ok rs b -> block_ok (rs ++ [x]) b.
Proof. destruct b as [[t i] g]. intros [H1 H2]. split; [now apply origin_ok_snoc|assumption]. Qed.

Lemma origin_ok_grow rs t i g x : origin_ok rs t i g -> origin_ok rs t i (g ++ [x]).
Proof.
  intros [r0 [Hn [Ht [[g' ->]|H]]]]; exists r0; (split; [assumption|split; [assumption|]]).
  - left. exists (g' ++ [x]). reflexivity.
  - right. assumption.
Qed.

Lemma rev_cons_ne {A} (x : A) l : rev (x :: l) <> [].
Proof. cbn. intro C. apply app_eq_nil in C. destruct C; discriminate. Qed.

Lemma emit_ok rs x (s : st R) :
  st_ok rs s -> forall b, In b (emit s) -> block_ok (rs ++ [x]) b.
Proof.
  intros (Hg & Ho & _) b Hb. unfold emit in Hb. destruct (grid s) as [|g0 gs] eqn:E.
  - apply block_ok_snoc. now apply Ho.
  - destruct Hb as [<-|Hb]; [|apply block_ok_snoc; now apply Ho].
    split; [|apply rev_cons_ne]. apply origin_ok_snoc. apply Hg. discriminate.
Qed.

Lemma emit_desc (s : st R) n : desc (first s) (out s) -> first s <= n -> desc n (emit s).
Proof.
  intros Hd Hf. unfold emit. destruct (grid s).
  - eapply desc_mono; eassumption.
  - cbn. split; assumption.
Qed.

Lemma step_ok rs (s : st R) x : st_ok rs s -> st_ok (rs ++ [x]) (step s (length rs, x)).
Proof.
  intros Hs. pose proof Hs as (Hg & Ho & Hf & Hd & Hm & Hb).
  assert (Hlen : length (rs ++ [x]) = S (length rs)) by (rewrite app_length; cbn; lia).
  (* a row appended to the open block *)
  assert (Happend : kind_of x = KKey \/ kind_of x = KPlain ->
            (kind_of x = KKey -> cur s = BMeta) ->
            st_ok (rs ++ [x])
              {| cur := cur s; grid := x :: grid s; first := first s; out := out s |}).
  { intros Kx Kk. destruct (grid s) as [|g0 gs] eqn:E.
    - destruct (btype_eqb (cur s) BMeta) eqn:Em.
      + assert (cur s = BMeta) as Cm by (destruct (cur s); cbn in Em; congruence).
        specialize (Hm eq_refl Cm). subst rs. cbn in *.
        assert (first s = 0)%nat as F0 by lia.
        repeat split; cbn; try discriminate; try lia.
        * intros _. exists x. rewrite F0, Cm. cbn. split; [reflexivity|]. split; [auto|].
          left. exists []. reflexivity.
        * intros b Hb'. apply (@block_ok_snoc [] x). now apply Ho.
        * assumption.
      + assert (cur s <> BMeta) as Cm by (intro C; rewrite C in Em; discriminate).
        destruct (Hb eq_refl Cm) as [r0 [Hn [Cb K0]]].
        repeat split; cbn; try discriminate; try lia.
        * intros _. exists r0. split; [now apply nth_error_snoc_old|]. rewrite Cb. cbn. split; [auto|].
          right. split; auto.
        * intros b Hb'. apply block_ok_snoc. now apply Ho.
        * assumption.
    - repeat split; cbn; try discriminate; try lia.
      + intros _. apply origin_ok_grow. apply origin_ok_snoc. apply Hg. discriminate.
      + intros b Hb'. apply block_ok_snoc. now apply Ho.
      + assumption. }
  (* a row that closes the open block and opens a new one *)
  assert (Hswitch : forall t keep, type_ok t (length rs) (kind_of x) -> t <> BMeta ->
            (keep = false -> t = BBlank /\ kind_of x = KBlank0) ->
            st_ok (rs ++ [x])
              {| cur := t; grid := if keep then [x] else []; first := length rs; out := emit s |}).
  { intros t keep Ht Hne Hk. repeat split; cbn.
    - destruct keep; [|congruence]. intros _. exists x. split; [apply nth_error_snoc|].
      split; [assumption|]. left. exists []. reflexivity.
    - intros b Hb'. exact (emit_ok x Hs b Hb').
    - lia.
    - now apply emit_desc.
    - intros _ C. congruence.
    - destruct keep; [discriminate|]. intros _ _. exists x. split; [apply nth_error_snoc|]. now apply Hk. }
  (* a blank row while already in state BLANK: nothing changes *)
  assert (Hsame : btype_eqb (cur s) BBlank = true -> st_ok (rs ++ [x]) s).
  { intro Eb. assert (cur s = BBlank) as Cb by (destruct (cur s); cbn in Eb; congruence).
    repeat split.
    - intro Hne. apply origin_ok_snoc. now apply Hg.
    - intros b Hb'. apply block_ok_snoc. now apply Ho.
    - lia.
    - assumption.
    - intros _ C. congruence.
    - intros E Hc. destruct (Hb E Hc) as [r0 [Hn H]]. exists r0. split; [now apply nth_error_snoc_old|assumption]. }
  unfold Segment.step. destruct (kind_of x) eqn:K.
  - destruct (btype_eqb (cur s) BBlank) eqn:Eb; [now apply Hsame|].
    apply (Hswitch BBlank false); cbn; auto; discriminate.
  - destruct (btype_eqb (cur s) BBlank) eqn:Eb; [now apply Hsame|].
    apply (Hswitch BBlank true); cbn; auto; discriminate.
  - apply (Hswitch BTable true); cbn; auto; discriminate.
  - apply (Hswitch BDir true); cbn; auto; discriminate.
  - apply (Hswitch BTempl true); cbn; auto; discriminate.
  - destruct (btype_eqb (cur s) BMeta) eqn:Em.
    + apply Happend; auto. intros _. destruct (cur s); cbn in Em; congruence.
    + apply (Hswitch BBlank true); cbn; auto; discriminate.
  - apply Happend; auto. discriminate.
Qed.

Lemma run_ok_gen rs1 rs2 (s : st R) :
  st_ok rs1 s -> st_ok (rs1 ++ rs2) (fold_left step (number (length rs1) rs2) s).
Proof.
  revert rs1 s; induction rs2 as [|x rs2 IH]; intros rs1 s Hs; cbn.
  - now rewrite app_nil_r.
  - replace (rs1 ++ x :: rs2) with ((rs1 ++ [x]) ++ rs2) by (rewrite <- app_assoc; reflexivity).
    replace (S (length rs1)) with (length (rs1 ++ [x])) by (rewrite app_length; cbn; lia).
    apply IH. now apply step_ok.
Qed.

Lemma init_ok : st_ok [] (@init R).
Proof. repeat split; cbn; try contradiction; try congruence; try lia. Qed.

Lemma run_ok rs : st_ok rs (run rs).
Proof. exact (run_ok_gen rs init_ok). Qed.

(* C03: each block's origin row is the index of its first row (or, for a BLANK block opened by a
   blank line without payload, the index of that line), and the block type is the one the
   kind of that row dictates *)
Theorem origin_row rs t i g :
  In (t, i, g) (segment rs) -> origin_ok rs t i g /\ g <> [].
Proof.
  intro H. unfold Segment.segment in H. apply in_rev in H.
  destruct (run_ok rs) as (Hg & Ho & _).
  unfold emit in H. destruct (grid (run rs)) eqn:E.
  - exact (Ho _ H).
  - destruct H as [H|H]; [|exact (Ho _ H)]. inversion H; subst. split.
    + apply Hg. discriminate.
    + apply rev_cons_ne.
Qed.

(* a TABLE block's origin row is the index of its table-marker row *)
Theorem table_origin_row rs i g :
  In (BTable, i, g) (segment rs) ->
  exists r0 g', nth_error rs i = Some r0 /\ kind_of r0 = KTable /\ g = r0 :: g'.
Proof.
  intro H. destruct (origin_row rs _ _ _ H) as [(r0 & Hn & Ht & Hg) _].
  destruct Hg as [[g' ->]|[C _]]; [|discriminate]. exists r0, g'. auto.
Qed.

(* blocks come out in input order *)
Lemma desc_split b l l1 x l2 : desc b l -> l = l1 ++ x :: l2 ->
  forall y, In y l2 -> snd (fst y) <= snd (fst x).
Proof.
  revert b l; induction l1 as [|z l1 IH]; intros b l Hd -> y Hy; cbn in Hd.
  - destruct Hd as [_ Hd]. clear -Hd Hy. revert Hd. generalize (snd (fst x)).
    induction l2 as [|w l2 IH2]; intros n Hd; [contradiction|]. cbn in Hd. destruct Hd as [H1 H2].
    destruct Hy as [<-|Hy]; [assumption|]. specialize (IH2 Hy _ H2). lia.
  - destruct Hd as [_ Hd]. eapply IH; [exact Hd|reflexivity|assumption].
Qed.

Theorem origins_ordered rs l1 b1 l2 b2 :
  segment rs = l1 ++ b1 :: l2 -> In b2 l2 -> snd (fst b1) <= snd (fst b2).
Proof.
  intros E Hin. unfold Segment.segment in E.
  assert (emit (run rs) = rev l2 ++ b1 :: rev l1) as E'.
  { rewrite <- (rev_involutive (emit (run rs))), E. rewrite rev_app_distr. cbn.
    now rewrite <- app_assoc. }
  destruct (run_ok rs) as (_ & _ & Hf & Hd & _).
  pose proof (emit_desc (run rs) Hd (le_n _)) as Hd'.
  assert (forall y, In y (rev l1) -> snd (fst y) <= snd (fst b1)) as _ by
    (intros y Hy; eapply desc_split; [exact Hd'|exact E'|exact Hy]).
  clear -Hd' E' Hin. apply in_rev in Hin.
  apply in_split in Hin. destruct Hin as [m1 [m2 Em]]. rewrite Em in E'.
  rewrite <- app_assoc in E'. cbn in E'.
  eapply desc_split; [exact Hd'|exact E'|]. apply in_or_app. right. now left.
Qed.

End P.

(* ---------- the segmentation depends on the rows only through their kinds ---------- *)
Section Param.
Variables R R' : Type.
Variable f : R -> R'.
Variable k' : R' -> kind.

Definition bmap (b : block R) : block R' := let '(t, i, g) := b in (t, i, map f g).
Definition stmap (s : st R) : st R' :=
  {| cur := cur s; grid := map f (grid s); first := first s; out := map bmap (out s) |}.

Lemma emit_map (s : st R) : emit (stmap s) = map bmap (emit s).
Proof. unfold emit, stmap; cbn. destruct (grid s); cbn; [reflexivity|]. now rewrite map_app, map_rev. Qed.

Lemma step_map (s : st R) i r :
  step k' (stmap s) (i, f r) = stmap (step (fun x => k' (f x)) s (i, r)).
Proof.
  unfold Segment.step. destruct (k' (f r)); cbn [cur stmap];
  repeat match goal with |- context[btype_eqb ?a ?b] => destruct (btype_eqb a b) end;
  try reflexivity; unfold stmap; cbn; now rewrite <- emit_map.
Qed.

Lemma run_map rs : run k' (map f rs) = stmap (run (fun x => k' (f x)) rs).
Proof.
  unfold Segment.run. rewrite number_map. change (@init R') with (stmap (@init R)).
  generalize (@init R). generalize 0%nat.
  induction rs as [|r rs IH]; intros n s; [reflexivity|].
  cbn [number map fold_left fst snd]. rewrite step_map. apply IH.
Qed.

Lemma segment_map rs : segment k' (map f rs) = map bmap (segment (fun x => k' (f x)) rs).
Proof. unfold Segment.segment. rewrite run_map, emit_map, map_rev. reflexivity. Qed.
End Param.

(* C03: block types, origin rows and the kinds of the rows inside each block are a function of
   the sequence of row kinds alone *)
Theorem kinds_only (R R' : Type) (k : R -> kind) (k' : R' -> kind) rs rs' :
  map k rs = map k' rs' ->
  map (bmap k) (segment k rs) = map (bmap k') (segment k' rs').
Proof.
  intro E.
  transitivity (segment (fun x : kind => x) (map k rs)).
  - symmetry. exact (segment_map k (fun x => x) rs).
  - rewrite E. exact (segment_map k' (fun x => x) rs').
Qed.
