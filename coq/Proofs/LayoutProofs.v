(* The layout lemmas behind C10, C01 (per table) and C08: what make_table_json_precursor recovers
   from a table laid out row-wise or transposed, with any amount of harmless noise (trailing cells,
   blanks around header cells, comment cells after a blank cell on the name row).
   The cells of the table are given as a function  cellat j i  (column j, row i). *)
From Coq Require Import Lia.
From PdV Require Import ParseTable TextProofs ParseProofs.
Local Open Scope nat_scope.

(* ---------- small list facts ---------- *)
Lemma nth_error_map_seq {A} (f : nat -> A) n j : j < n -> nth_error (map f (seq 0 n)) j = Some (f j).
Proof.
  intro H. rewrite nth_error_map. rewrite (nth_error_nth' _ 0) by (rewrite seq_length; lia).
  rewrite seq_nth by lia. reflexivity.
Qed.

Lemma firstn_app_exact {A} (a b : list A) n : length a = n -> firstn n (a ++ b) = a.
Proof. intros <-. rewrite firstn_app, Nat.sub_diag, firstn_all. cbn. now rewrite app_nil_r. Qed.

Lemma map_ext_seq {A} (f g : nat -> A) n : (forall i, i < n -> f i = g i) -> map f (seq 0 n) = map g (seq 0 n).
Proof. intro H. apply map_ext_in. intros i Hi. apply in_seq in Hi. apply H. lia. Qed.

Section Layout.
Variable parse_float : str -> option ftok.
Variable parse_dt : str -> dres.
Variable cfg : fixer_cfg.
Notation parse_table := (parse_table parse_float parse_dt cfg).
Notation cell_parser := (cell_parser parse_float parse_dt).

(* ---------- header pieces ---------- *)
(* column-name cells: text cells whose stripped text is the name; then nothing, or a blank cell
   followed by anything (comments) *)
Lemma column_names_spec ws tail :
  Forall (fun w => is_blank w = false) ws ->
  (tail = [] \/ exists c t, tail = c :: t /\ cell_blank c = true) ->
  column_names (map CStr ws ++ tail) = Some (map strip ws).
Proof.
  intros Hw Ht. induction ws as [|w ws IH]; cbn.
  - destruct Ht as [->|(c & t & -> & Hc)]; cbn; [reflexivity|now rewrite Hc].
  - inversion Hw as [|? ? Hb Hw']; subst. rewrite Hb. now rewrite (IH Hw').
Qed.

Lemma strip_units_spec us : strip_units (map CStr us) = Some (map strip us).
Proof. induction us as [|u us IH]; cbn; [reflexivity|now rewrite IH]. Qed.

(* ---------- data pieces ---------- *)
Definition val_of (p : cell -> cres) (c : cell) : value :=
  match p c with CVal v => v | _ => VNaT end.

(* a column all of whose cells parse (no defect): the fixer is not touched *)
Lemma parse_cells_clean p cs fx :
  Forall (fun c => exists v, p c = CVal v) cs ->
  parse_cells cfg p cs fx = Ok (map (val_of p) cs, fx).
Proof.
  induction cs as [|c cs IH]; intro H; cbn; [reflexivity|].
  inversion H as [|? ? [v Hv] H']; subst. unfold val_of at 1. rewrite Hv, (IH H'). reflexivity.
Qed.

Lemma parse_columns_seq (l : list nat) (uf : nat -> str) (cf : nat -> list cell) fx :
  (forall j, In j l -> Forall (fun c => exists v, cell_parser (uf j) c = CVal v) (cf j)) ->
  parse_columns parse_float parse_dt cfg (map uf l) (map cf l) fx
  = Ok (map (fun j => map (val_of (cell_parser (uf j))) (cf j)) l, fx).
Proof.
  induction l as [|j l IH]; intro H; cbn; [reflexivity|].
  rewrite (parse_cells_clean _ _ _ (H j (or_introl eq_refl))).
  rewrite IH by (intros k Hk; apply H; now right). reflexivity.
Qed.

Lemma seq_nth_map {A} (l : list A) d : map (fun j => nth j l d) (seq 0 (length l)) = l.
Proof.
  induction l as [|a l IH]; cbn; [reflexivity|]. f_equal. rewrite <- seq_shift, map_map. exact IH.
Qed.

Lemma parse_columns_nil us fx : parse_columns parse_float parse_dt cfg us [] fx = Ok ([], fx).
Proof. destruct us; reflexivity. Qed.

Lemma map_const {A B} (x : B) (l : list A) : map (fun _ => x) l = repeat x (length l).
Proof. induction l; cbn; congruence. Qed.

Lemma fill_rows_full n rows : forall i fx,
  Forall (fun r => length r = n) rows -> fill_rows n rows i fx = (rows, fx).
Proof.
  induction rows as [|r rs IH]; intros i fx H; cbn [fill_rows]; [reflexivity|].
  inversion H as [|? ? Hr H']. rewrite Hr, Nat.ltb_irrefl. now rewrite (IH (S i) fx H').
Qed.

(* the matrix of cells *)
Variable cellat : nat -> nat -> cell.    (* column j, row i *)
Variable n m : nat.                      (* columns, rows *)

Definition row_of (i : nat) : list cell := map (fun j => cellat j i) (seq 0 n).
Definition col_of (j : nat) : list cell := map (fun i => cellat j i) (seq 0 m).

Lemma columns_of_rows :
  0 < m -> columns_of n (map row_of (seq 0 m)) = map col_of (seq 0 n).
Proof.
  intro Hm. unfold columns_of. destruct (map row_of (seq 0 m)) eqn:E.
  - destruct m; [lia|discriminate].
  - rewrite <- E. apply map_ext_in. intros j Hj. apply in_seq in Hj. unfold col_of. rewrite map_map.
    apply map_ext_in. intros i Hi. unfold row_of. rewrite nth_error_map_seq by lia. reflexivity.
Qed.

(* duplicates repair leaves distinct non-empty names alone *)
Lemma fix_duplicates_clean raw : forall pos acc fx,
  NoDup (acc ++ raw) -> Forall (fun c => c <> []) raw ->
  fix_duplicates raw pos acc fx = Ok (acc ++ raw, fx).
Proof.
  induction raw as [|c rest IH]; intros pos acc fx Hnd Hne; cbn [fix_duplicates].
  - now rewrite app_nil_r.
  - inversion Hne as [|? ? Hc Hne']; subst.
    assert (mem_str c acc = false) as Hm.
    { destruct (mem_str c acc) eqn:E; [|reflexivity]. apply mem_str_In in E.
      exfalso. apply NoDup_remove_2 in Hnd. apply Hnd. apply in_or_app. now left. }
    rewrite Hm. destruct c as [|c0 ct]; [congruence|]. cbn [negb andb].
    rewrite IH; [now rewrite <- app_assoc| now rewrite <- app_assoc | assumption].
Qed.

Lemma fix_duplicates_clean0 raw fx :
  NoDup raw -> Forall (fun c => c <> []) raw -> fix_duplicates raw 0 (@nil str) fx = Ok (raw, fx).
Proof. intros H1 H2. exact (fix_duplicates_clean raw 0 (@nil str) fx H1 H2). Qed.

(* ---------- the row-wise layout ---------- *)
(* r0: "**name" then anything;  r1: destinations cell then anything;
   r2: the name cells (blanks around the names allowed), then nothing or a blank cell and anything;
   r3: the unit cells, then anything;  data row i: the n cells of row i, then anything. *)
Variable c00 name : str.
Variable x0 : list cell.
Variable d0 : cell.
Variable x1 : list cell.
Variable ws us : list str.
Variable tail2 tail3 : list cell.
Variable tails : nat -> list cell.
Variable fx : fixer_st.

Definition names := map strip ws.
Definition units := map strip us.

Definition rowwise_grid : list row :=
  (CStr c00 :: x0) :: (d0 :: x1) :: (map CStr ws ++ tail2) :: (map CStr us ++ tail3)
  :: map (fun i => row_of i ++ tails i) (seq 0 m).

Definition parsed_cols : list (list value) :=
  map (fun j => map (val_of (cell_parser (nth j units []))) (col_of j)) (seq 0 n).

Hypothesis H_n : length ws = n.
Hypothesis H_us : length us = n.
Hypothesis H_ws : Forall (fun w => is_blank w = false) ws.
Hypothesis H_tail2 : tail2 = [] \/ exists c t, tail2 = c :: t /\ cell_blank c = true.
Hypothesis H_nodup : NoDup names.
Hypothesis H_nonempty : Forall (fun c => c <> []) names.
Hypothesis H_fx : fx_fixes fx = 0.
Hypothesis H_cells : forall j i, j < n -> i < m ->
  exists v, cell_parser (nth j units []) (cellat j i) = CVal v.

Lemma length_names : length names = n.
Proof. unfold names. now rewrite map_length. Qed.
Lemma length_units : length units = n.
Proof. unfold units. now rewrite map_length. Qed.

Lemma parse_clean_columns :
  parse_columns parse_float parse_dt cfg units (map col_of (seq 0 n)) fx = Ok (parsed_cols, fx).
Proof.
  rewrite <- (seq_nth_map units []) at 1. rewrite length_units.
  rewrite parse_columns_seq; [reflexivity|].
  intros j Hj. apply in_seq in Hj. apply Forall_forall. intros c Hc. unfold col_of in Hc.
  apply in_map_iff in Hc as (i & <- & Hi). apply in_seq in Hi. apply H_cells; lia.
Qed.

Lemma parsed_cols_length : length parsed_cols = n.
Proof. unfold parsed_cols. now rewrite map_length, seq_length. Qed.

Definition expected (transposed : bool) : ptable :=
  {| p_name := name; p_transposed := transposed; p_dests := destinations d0;
     p_names := names; p_units := units; p_cols := parsed_cols; p_fx := fx |}.

Definition cols_raw : list (list value) := if Nat.eqb m 0 then [] else parsed_cols.

Lemma fill_rows_rows : fill_rows n (map row_of (seq 0 m)) 0 fx = (map row_of (seq 0 m), fx).
Proof.
  apply fill_rows_full. apply Forall_forall. intros r Hr. apply in_map_iff in Hr as (i & <- & _).
  unfold row_of. now rewrite map_length, seq_length.
Qed.

Lemma parse_data :
  parse_columns parse_float parse_dt cfg units (columns_of n (map row_of (seq 0 m))) fx = Ok (cols_raw, fx).
Proof.
  unfold cols_raw. destruct (Nat.eqb_spec m 0) as [Hm|Hm].
  - rewrite Hm. cbn [seq map columns_of]. apply parse_columns_nil.
  - rewrite columns_of_rows by lia. apply parse_clean_columns.
Qed.

Lemma cols_fill : cols_raw ++ repeat [] (n - length cols_raw) = parsed_cols.
Proof.
  unfold cols_raw. destruct (Nat.eqb_spec m 0) as [Hm|Hm].
  - cbn [length app]. rewrite Nat.sub_0_r. unfold parsed_cols, col_of. rewrite Hm. cbn [seq map].
    rewrite map_const. now rewrite seq_length.
  - rewrite parsed_cols_length, Nat.sub_diag. cbn [repeat]. now rewrite app_nil_r.
Qed.

Section RowWise.
Hypothesis H_name : drop_last_star (skipn 2 c00) = (name, false).

Theorem rowwise_spec : parse_table rowwise_grid fx = Ok (expected false).
Proof.
  unfold rowwise_grid, ParseTable.parse_table. cbv beta iota zeta. rewrite H_name. cbv beta iota zeta.
  rewrite (column_names_spec ws tail2 H_ws H_tail2). cbv beta iota zeta.
  fold names. rewrite (fix_duplicates_clean0 names fx H_nodup H_nonempty). cbv beta iota zeta.
  rewrite length_names.
  rewrite (firstn_app_exact (map CStr us) tail3 n) by (now rewrite map_length).
  rewrite map_length, H_us, Nat.ltb_irrefl. rewrite strip_units_spec. fold units.
  rewrite map_map.
  assert (map (fun i => firstn n (row_of i ++ tails i)) (seq 0 m) = map row_of (seq 0 m)) as ->.
  { apply map_ext. intro i. apply firstn_app_exact. unfold row_of. now rewrite map_length, seq_length. }
  rewrite fill_rows_rows, parse_data, H_fx. cbn [Nat.ltb Nat.leb andb]. rewrite cols_fill. reflexivity.
Qed.
End RowWise.

(* ---------- the transposed layout ---------- *)
(* line j: name cell, unit cell, the m cells of column j, then any number of blank cells *)
Variable ttails : nat -> list cell.
Definition tline (j : nat) : list cell :=
  CStr (nth j ws []) :: CStr (nth j us []) :: col_of j ++ ttails j.
Definition transposed_grid : list row :=
  (CStr c00 :: x0) :: (d0 :: x1) :: map tline (seq 0 n).

Section Transposed.
Hypothesis H_nameT : drop_last_star (skipn 2 c00) = (name, true).
Hypothesis H_npos : 0 < n.
Hypothesis H_ttails : forall j, Forall (fun c => cell_blank c = true) (ttails j).
(* no data row is entirely blank: such a row ends the table in this layout *)
Hypothesis H_rows : forall i, i < m -> exists j, j < n /\ cell_blank (cellat j i) = false.

Lemma existsb_map_false {A B} (f : B -> bool) (g : A -> B) l :
  (forall x, f (g x) = false) -> existsb f (map g l) = false.
Proof. intro H. induction l; cbn; [reflexivity|]. now rewrite H, IHl. Qed.

Lemma longest_ge l ls : In l ls -> length l <= longest ls.
Proof.
  induction ls as [|a ls IH]; [contradiction|]. unfold longest in *. cbn [fold_right].
  intros [->|H]; [lia|]. specialize (IH H). lia.
Qed.

Lemma count_rows_spec lines target : forall fuel i,
  i <= target -> target - i <= fuel ->
  (forall k, i <= k < target -> forallb (nth_blank k) lines = false) ->
  forallb (nth_blank target) lines = true ->
  count_rows lines i fuel = target.
Proof.
  induction fuel as [|f IH]; intros i Hi Hf Hlt Hat; cbn [count_rows]; [lia|].
  destruct (Nat.eq_dec i target) as [->|Hne].
  - now rewrite Hat.
  - rewrite Hlt by lia. apply IH; [lia|lia| |assumption]. intros k Hk. apply Hlt. lia.
Qed.

Lemma pad_to_app a b : pad_to (length a) (a ++ b) = a.
Proof. induction a as [|c a IH]; cbn; [reflexivity|]. now rewrite IH. Qed.

Lemma transpose_spec (js : list nat) : forall len k,
  transpose len (map (fun j => map (fun i => cellat j i) (seq k len)) js)
  = map (fun i => map (fun j => cellat j i) js) (seq k len).
Proof.
  induction len as [|len IH]; intro k; [reflexivity|]. cbn [transpose seq map]. f_equal.
  - rewrite map_map. reflexivity.
  - rewrite map_map. cbn [map]. apply IH.
Qed.

Lemma col_of_length j : length (col_of j) = m.
Proof. unfold col_of. now rewrite map_length, seq_length. Qed.

Lemma data_lines_rows :
  forallb (nth_blank m) (map (fun j => col_of j ++ ttails j) (seq 0 n)) = true /\
  forall k, k < m -> forallb (nth_blank k) (map (fun j => col_of j ++ ttails j) (seq 0 n)) = false.
Proof.
  split.
  - apply forallb_forall. intros l Hl. apply in_map_iff in Hl as (j & <- & _). unfold nth_blank.
    rewrite nth_error_app2 by (rewrite col_of_length; lia). rewrite col_of_length, Nat.sub_diag.
    specialize (H_ttails j). destruct (ttails j) as [|c t]; cbn; [reflexivity|]. now inversion H_ttails.
  - intros k Hk. destruct (H_rows k Hk) as (j & Hj & Hb).
    destruct (forallb _ _) eqn:E; [|reflexivity]. exfalso.
    rewrite forallb_forall in E.
    assert (nth_blank k (col_of j ++ ttails j) = true) as Hn
      by (apply E; apply in_map_iff; exists j; split; [reflexivity|apply in_seq; lia]).
    unfold nth_blank in Hn. rewrite nth_error_app1 in Hn by (rewrite col_of_length; lia).
    unfold col_of in Hn. rewrite nth_error_map_seq in Hn by lia. congruence.
Qed.

Lemma hd_lines : map (fun l => match l with c :: _ => c | [] => CNone end) (map tline (seq 0 n)) = map CStr ws.
Proof.
  rewrite map_map. cbn [tline]. rewrite <- (map_map (fun j => nth j ws []) CStr).
  rewrite <- H_n. now rewrite seq_nth_map.
Qed.

Lemma unit_lines :
  map (fun l => match l with _ :: u :: _ => u | _ => CNone end) (map tline (seq 0 n)) = map CStr us.
Proof.
  rewrite map_map. cbn [tline]. rewrite <- (map_map (fun j => nth j us []) CStr).
  rewrite <- H_us. now rewrite seq_nth_map.
Qed.

Theorem transposed_spec : parse_table transposed_grid fx = Ok (expected true).
Proof.
  unfold transposed_grid, ParseTable.parse_table. cbv beta iota zeta. rewrite H_nameT. cbv beta iota zeta.
  destruct (map tline (seq 0 n)) as [|r2 rest2] eqn:E.
  { apply (f_equal (@length _)) in E. rewrite map_length, seq_length in E. cbn in E. lia. }
  rewrite <- E. clear E r2 rest2.
  rewrite hd_lines. rewrite <- (app_nil_r (map CStr ws)).
  rewrite (column_names_spec ws [] H_ws (or_introl eq_refl)). cbv beta iota zeta.
  fold names. rewrite (fix_duplicates_clean0 names fx H_nodup H_nonempty). cbv beta iota zeta.
  rewrite length_names.
  rewrite firstn_all2 by (rewrite map_length, seq_length; lia).
  rewrite existsb_map_false by (intro j; reflexivity).
  rewrite unit_lines, strip_units_spec. fold units.
  rewrite map_map. cbn [tline skipn].
  destruct data_lines_rows as [Hat Hlt].
  rewrite (count_rows_spec _ m).
  - assert (map (pad_to m) (map (fun j => col_of j ++ ttails j) (seq 0 n)) = map (fun j => col_of j) (seq 0 n)) as ->.
    { rewrite map_map. apply map_ext. intro j. rewrite <- (col_of_length j) at 1. apply pad_to_app. }
    unfold col_of at 1. rewrite transpose_spec. fold row_of.
    rewrite fill_rows_rows, parse_data, H_fx. cbn [Nat.ltb Nat.leb andb]. rewrite cols_fill. reflexivity.
  - lia.
  - rewrite Nat.sub_0_r. apply (Nat.le_trans _ (length (col_of 0 ++ ttails 0))).
    + rewrite app_length, col_of_length. lia.
    + apply longest_ge. apply in_map_iff. exists 0. split; [reflexivity|apply in_seq; lia].
  - intros k Hk. apply Hlt. lia.
  - exact Hat.
Qed.
End Transposed.
End Layout.

(* ---------- the two layouts agree, whatever the noise ---------- *)
Definition with_flag (p : ptable) (t : bool) : ptable :=
  {| p_name := p_name p; p_transposed := t; p_dests := p_dests p; p_names := p_names p;
     p_units := p_units p; p_cols := p_cols p; p_fx := p_fx p |}.

Theorem layouts_agree
  (parse_float : str -> option ftok) (parse_dt : str -> dres) (cfg : fixer_cfg)
  (cellat : nat -> nat -> cell) (n m : nat) (name : str) (d0 : cell) (fx : fixer_st)
  (* row-wise text and its noise *)
  (c00 : str) (x0 x1 : list cell) (ws us : list str) (tail2 tail3 : list cell) (tails : nat -> list cell)
  (* transposed text and its noise *)
  (c00' : str) (x0' x1' : list cell) (ws' us' : list str) (ttails : nat -> list cell) :
  length ws = n -> length us = n -> length ws' = n -> length us' = n ->
  Forall (fun w => is_blank w = false) ws -> Forall (fun w => is_blank w = false) ws' ->
  map strip ws' = map strip ws -> map strip us' = map strip us ->
  (tail2 = [] \/ exists c t, tail2 = c :: t /\ cell_blank c = true) ->
  NoDup (map strip ws) -> Forall (fun c => c <> []) (map strip ws) ->
  fx_fixes fx = 0 ->
  (forall j i, j < n -> i < m ->
     exists v, cell_parser parse_float parse_dt (nth j (map strip us) []) (cellat j i) = CVal v) ->
  drop_last_star (skipn 2 c00) = (name, false) ->
  drop_last_star (skipn 2 c00') = (name, true) ->
  0 < n ->
  (forall j, Forall (fun c => cell_blank c = true) (ttails j)) ->
  (forall i, i < m -> exists j, j < n /\ cell_blank (cellat j i) = false) ->
  exists p,
    parse_table parse_float parse_dt cfg (rowwise_grid cellat n m c00 x0 d0 x1 ws us tail2 tail3 tails) fx = Ok p /\
    parse_table parse_float parse_dt cfg (transposed_grid cellat n m c00' x0' d0 x1' ws' us' ttails) fx
      = Ok (with_flag p true) /\
    p_name p = name /\ p_transposed p = false /\ p_dests p = destinations d0 /\
    p_names p = map strip ws /\ p_units p = map strip us /\
    p_cols p = map (fun j => map (val_of (cell_parser parse_float parse_dt (nth j (map strip us) [])))
                                 (map (fun i => cellat j i) (seq 0 m))) (seq 0 n) /\
    p_fx p = fx.
Proof.
  intros Hn Hu Hn' Hu' Hw Hw' Ews Eus Ht2 Hnd Hne Hfx Hcells Hname Hname' Hpos Htt Hrows.
  exists (expected parse_float parse_dt cellat n m name d0 ws us fx false). split; [|split].
  - apply rowwise_spec; assumption.
  - rewrite (transposed_spec parse_float parse_dt cfg cellat n m c00' name x0' d0 x1' ws' us' tails fx); try assumption.
    + unfold with_flag, expected, parsed_cols, names, units. cbn. now rewrite Ews, Eus.
    + unfold names. now rewrite Ews.
    + unfold names. now rewrite Ews.
    + unfold units. now rewrite Eus.
  - repeat split; reflexivity.
Qed.

