(* Proofs about M-Bundle (Model/Bundle.v). *)
From Coq Require Import Lia.
From PdV Require Import Bundle TextProofs.

Section P.
Variable T : Type.
Variable name_of : T -> option str.
Notation bundle := (bundle T).

Definition has_name (n : str) (t : T) : bool :=
  match name_of t with Some m => str_eqb m n | None => false end.

Definition tables (bs : list (blk T)) : list T := map snd (filter fst bs).

Definition nonempty_opt (l : list T) : option (list T) := match l with [] => None | _ => Some l end.

Definition get_or_nil (n : str) (d : list (str * list T)) : list T :=
  match named_get n d with Some l => l | None => [] end.

Lemma named_get_add m n t d :
  named_get m (named_add n t d) =
  if str_eqb n m then Some (get_or_nil n d ++ [t]) else named_get m d.
Proof.
  unfold get_or_nil. induction d as [|[k l] d IH]; cbn.
  - destruct (str_eqb n m); reflexivity.
  - destruct (str_eqb k n) eqn:E; cbn.
    + apply str_eqb_eq in E. subst k. destruct (str_eqb n m); reflexivity.
    + destruct (str_eqb k m) eqn:E2.
      * apply str_eqb_eq in E2. subst k. rewrite (str_eqb_sym n m), E. reflexivity.
      * exact IH.
Qed.

(* the dict view is the filter view of the ordered list *)
Definition Inv (b : bundle) : Prop :=
  forall n, named_get n (named b) = nonempty_opt (filter (has_name n) (in_order b)).

Lemma inv_add b n t : Inv b -> name_of t = Some n ->
  Inv {| named := named_add n t (named b); in_order := in_order b ++ [t] |}.
Proof.
  intros I Hn m. cbn. rewrite named_get_add, filter_app. cbn. unfold has_name at 2. rewrite Hn.
  destruct (str_eqb n m) eqn:E.
  - apply str_eqb_eq in E. subst m. unfold get_or_nil. rewrite (I n).
    destruct (filter (has_name n) (in_order b)); reflexivity.
  - rewrite app_nil_r. apply I.
Qed.

Lemma build_from_spec bs : forall b b',
  Inv b -> build_from name_of b bs = Some b' ->
  Inv b' /\ in_order b' = in_order b ++ tables bs.
Proof.
  induction bs as [|[[|] t] bs IH]; intros b b' I H; cbn in H.
  - inversion H; subst. split; [assumption|]. unfold tables. cbn. now rewrite app_nil_r.
  - destruct (name_of t) as [n|] eqn:Hn; [|discriminate].
    destruct (IH _ _ (inv_add b n t I Hn) H) as [I' E]. split; [assumption|].
    rewrite E. cbn. unfold tables. cbn. now rewrite <- app_assoc.
  - exact (IH _ _ I H).
Qed.

Lemma inv_empty : Inv {| named := []; in_order := [] |}.
Proof. intro n. reflexivity. Qed.

(* C20: the bundle holds exactly the TABLE blocks, in input order *)
Theorem contents bs b : build name_of bs = Some b -> iter b = tables bs.
Proof. intro H. destruct (build_from_spec bs _ _ inv_empty H) as [_ E]. exact E. Qed.

Theorem build_inv bs b : build name_of bs = Some b -> Inv b.
Proof. intro H. exact (proj1 (build_from_spec bs _ _ inv_empty H)). Qed.

(* building fails exactly when some TABLE block has no extractable name *)
Theorem build_none bs :
  build name_of bs = None <-> exists t, In t (tables bs) /\ name_of t = None.
Proof.
  unfold build. generalize {| named := @nil (str * list T); in_order := @nil T |}.
  induction bs as [|[[|] t] bs IH]; intro b; cbn.
  - split; [discriminate|]. intros [t [[] _]].
  - destruct (name_of t) as [n|] eqn:Hn.
    + rewrite IH. unfold tables. cbn. split.
      * intros [t' [Hin H']]. exists t'. auto.
      * intros [t' [[<-|Hin] H']]; [congruence|]. exists t'. auto.
    + split; [|reflexivity]. intros _. exists t. unfold tables. cbn. auto.
  - apply IH.
Qed.

Lemma len_inv_aux (d : list (str * list T)) :
  fold_right (fun kl acc => length (snd kl) + acc) 0 d = length (concat (map snd d)).
Proof. induction d as [|[k l] d IH]; cbn; [reflexivity|]. rewrite app_length, IH. reflexivity. Qed.

(* all(name): every table of that name, in order *)
Theorem all_spec bs b n : build name_of bs = Some b -> all b n = filter (has_name n) (tables bs).
Proof.
  intro H. rewrite <- (contents bs b H). unfold all, iter. rewrite (build_inv bs b H n).
  destruct (filter (has_name n) (in_order b)); reflexivity.
Qed.

Theorem contains_spec bs b n :
  build name_of bs = Some b -> (contains b n = true <-> exists t, In t (tables bs) /\ has_name n t = true).
Proof.
  intro H. rewrite <- (contents bs b H). unfold contains, iter. rewrite (build_inv bs b H n).
  destruct (filter (has_name n) (in_order b)) as [|t l] eqn:E; cbn.
  - split; [discriminate|]. intros [t [Hin Ht]].
    assert (In t (filter (has_name n) (in_order b))) as C by (apply filter_In; auto). rewrite E in C. destruct C.
  - split; [|reflexivity]. intros _. exists t.
    assert (In t (filter (has_name n) (in_order b))) as C by (rewrite E; now left).
    apply filter_In in C. exact C.
Qed.

(* unique(name) / bundle[name] / bundle.name *)
Theorem unique_spec bs b n :
  build name_of bs = Some b ->
  unique b n = match filter (has_name n) (tables bs) with
               | [] => Missing
               | [t] => Found t
               | _ => NotUnique
               end.
Proof.
  intro H. rewrite <- (contents bs b H). unfold unique, iter. rewrite (build_inv bs b H n).
  destruct (filter (has_name n) (in_order b)) as [|t [|t' l]]; reflexivity.
Qed.

Lemma named_add_concat_len n t (d : list (str * list T)) :
  length (concat (map snd (named_add n t d))) = S (length (concat (map snd d))).
Proof.
  induction d as [|[k l] d IH]; cbn; [reflexivity|].
  destruct (str_eqb k n); cbn; rewrite !app_length; cbn; [lia|]. rewrite IH. lia.
Qed.

Lemma build_from_len bs : forall b b',
  len b = length (in_order b) -> build_from name_of b bs = Some b' -> len b' = length (in_order b').
Proof.
  induction bs as [|[[|] t] bs IH]; intros b b' L H; cbn in H.
  - inversion H; subst. assumption.
  - destruct (name_of t) as [n|]; [|discriminate]. refine (IH _ _ _ H). unfold len in *. cbn.
    rewrite len_inv_aux in *. rewrite named_add_concat_len, app_length. cbn. lia.
  - exact (IH _ _ L H).
Qed.

(* len(bundle) = number of TABLE blocks *)
Theorem len_spec bs b : build name_of bs = Some b -> len b = length (tables bs).
Proof.
  intro H. rewrite <- (contents bs b H). unfold iter. refine (build_from_len bs _ _ _ H). reflexivity.
Qed.

(* bundle[i]: python list indexing into the ordered tables *)
Theorem getitem_spec bs b (i : Z) :
  build name_of bs = Some b ->
  let n := Z.of_nat (length (tables bs)) in
  getitem_int b i =
    if ((0 <=? i) && (i <? n))%Z then nth_error (tables bs) (Z.to_nat i)
    else if ((i <? 0) && (- n <=? i))%Z then nth_error (tables bs) (Z.to_nat (n + i))
    else None.
Proof. intro H. unfold getitem_int. rewrite <- (contents bs b H). reflexivity. Qed.

(* findable by name: every TABLE block of a bundle that could be built has a name, and is among the
   tables the bundle returns for that name (and the bundle says it contains that name) *)
Theorem findable bs b t :
  build name_of bs = Some b -> In t (tables bs) ->
  exists n, name_of t = Some n /\ In t (all b n) /\ contains b n = true.
Proof.
  intros H Hin. destruct (name_of t) as [n|] eqn:Hn.
  - exists n. split; [reflexivity|].
    assert (has_name n t = true) as Hh by (unfold has_name; rewrite Hn; apply str_eqb_refl).
    split.
    + rewrite (all_spec bs b n H). apply filter_In. auto.
    + apply (contains_spec bs b n H). exists t. auto.
  - assert (build name_of bs = None) as C by (apply build_none; exists t; auto). congruence.
Qed.

(* and only under its own name: what all(n) returns are TABLE blocks of the input named n *)
Theorem all_sound bs b n t :
  build name_of bs = Some b -> In t (all b n) -> In t (tables bs) /\ name_of t = Some n.
Proof.
  intros H Hin. rewrite (all_spec bs b n H) in Hin. apply filter_In in Hin. destruct Hin as [Hin Hh].
  split; [exact Hin|]. unfold has_name in Hh. destruct (name_of t) as [m|]; [|discriminate].
  apply str_eqb_eq in Hh. now subst.
Qed.
End P.
Arguments tables {T}. Arguments has_name {T}.
