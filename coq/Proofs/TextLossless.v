(* The text layer loses nothing: cells re-joined give the line, lines re-joined give the text. *)
From Coq Require Import Lia.
From PdV Require Import Text TextProofs WriteProofs.
Local Open Scope nat_scope.

Lemma join_cons sep p ps : ps <> [] -> join sep (p :: ps) = p ++ sep ++ join sep ps.
Proof. destruct ps; [congruence|reflexivity]. Qed.

(* splitting loses nothing: joining the pieces with the separator gives the text back *)
Lemma join_split sep s : join [sep] (split_on sep s) = s.
Proof.
  induction s as [|c t IH]; [reflexivity|]. cbn [split_on]. destruct (N.eqb_spec c sep) as [->|Hne].
  - rewrite join_cons by apply split_on_nonempty. cbn [app]. now rewrite IH.
  - pose proof (split_on_nonempty sep t) as Hn. destruct (split_on sep t) as [|p ps] eqn:E; [congruence|].
    destruct ps as [|q qs].
    + cbn [join] in *. now rewrite IH.
    + rewrite join_cons by discriminate. rewrite join_cons in IH by discriminate. rewrite <- IH. reflexivity.
Qed.

(* reading line by line loses nothing: the lines, each followed by a line feed, are the text,
   plus one line feed when the text did not end in one *)
Lemma lines_aux_lossless s : forall cur,
  let r := flat_map (fun l => l ++ [10%N]) (lines_aux cur s) in
  r = rev cur ++ s \/ r = rev cur ++ s ++ [10%N].
Proof.
  induction s as [|c t IH]; intro cur; cbn [lines_aux].
  - destruct cur as [|x cur']; cbn [flat_map]; [left; reflexivity|right]. now rewrite app_nil_r.
  - destruct (N.eqb_spec c 10) as [->|Hne].
    + cbn [flat_map]. destruct (IH []) as [E|E]; cbn zeta in E; rewrite E; cbn [rev app]; rewrite <- app_assoc; cbn [app]; auto.
    + destruct (IH (c :: cur)) as [E|E]; cbn zeta in E; rewrite E; cbn [rev]; rewrite <- app_assoc; cbn [app]; auto.
Qed.

Theorem lines_lossless s :
  flat_map (fun l => l ++ [10%N]) (lines s) = s \/ flat_map (fun l => l ++ [10%N]) (lines s) = s ++ [10%N].
Proof. exact (lines_aux_lossless s []). Qed.

(* the line feed at the very end of the text is optional: a non-empty text that does not end in a line feed
   reads as the same lines with and without one appended (C10: a block may end at the end of input) *)
Lemma lines_aux_final_lf s : forall cur,
  last s 0%N <> 10%N -> (s <> [] \/ cur <> []) -> lines_aux cur (s ++ [10%N]) = lines_aux cur s.
Proof.
  induction s as [|c t IH]; intros cur Hl Hne.
  - destruct Hne as [Hne|Hne]; [congruence|]. cbn. destruct cur; [congruence|reflexivity].
  - cbn [app lines_aux]. destruct t as [|d t'].
    + cbn in Hl. destruct (N.eqb_spec c 10) as [->|Hc]; [congruence|]. cbn [app lines_aux].
      rewrite N.eqb_refl. reflexivity.
    + assert (last (d :: t') 0%N <> 10%N) as Hl' by exact Hl.
      destruct (N.eqb_spec c 10) as [->|Hc].
      * f_equal. apply IH; [exact Hl'|left; discriminate].
      * apply IH; [exact Hl'|right; discriminate].
Qed.

Theorem lines_final_lf s :
  s <> [] -> last s 0%N <> 10%N -> lines (s ++ [10%N]) = lines s.
Proof. intros Hne Hl. apply lines_aux_final_lf; auto. Qed.
