(* Proofs about M-Path and the file-system loader: containment under a root folder (C17). *)
From Coq Require Import Lia.
From PdV.Model Require Import Load.
From PdV Require Import TextProofs LoadProofs.
Local Open Scope nat_scope.

Lemma path_eqb_eq a b : path_eqb a b = true <-> a = b.
Proof.
  revert b; induction a as [|x a IH]; destruct b as [|y b]; cbn; split; try congruence; try discriminate.
  - intro H. apply andb_true_iff in H as [H1 H2]. apply str_eqb_eq in H1. apply IH in H2. congruence.
  - intro H. inversion H; subst. rewrite str_eqb_refl. cbn. now apply IH.
Qed.

(* a path is canonical when none of its non-empty prefixes is a symbolic link *)
Definition canonical (fs : fsys) (p : path) : Prop :=
  forall k, 0 < k <= length p -> forall t, fs_get fs (firstn k p) <> Some (NLink t).

Lemma canonical_nil fs : canonical fs [].
Proof. intros k Hk. cbn in Hk. lia. Qed.

Lemma canonical_removelast fs p : canonical fs p -> canonical fs (removelast p).
Proof.
  intros C k Hk t. destruct p as [|x p] using rev_ind; [cbn in Hk; lia|].
  rewrite removelast_last in *. specialize (C k). rewrite app_length in C. cbn in C.
  rewrite firstn_app in C. replace (k - length p) with 0 in C by lia. cbn in C. rewrite app_nil_r in C.
  apply C. lia.
Qed.

Lemma canonical_snoc fs p n :
  canonical fs p -> (forall t, fs_get fs (p ++ [n]) <> Some (NLink t)) -> canonical fs (p ++ [n]).
Proof.
  intros C Hn k Hk t. rewrite app_length in Hk. cbn in Hk.
  destruct (Nat.eq_dec k (length p + 1)) as [->|Hne].
  - rewrite firstn_all2 by (rewrite app_length; cbn; lia). apply Hn.
  - rewrite firstn_app. replace (k - length p) with 0 by lia. cbn. rewrite app_nil_r. apply C. lia.
Qed.

(* realpath only ever extends its result by components that are not links *)
Theorem realpath_canonical fs fuel : forall cur rest p,
  canonical fs cur -> realpath fs fuel cur rest = Some p -> canonical fs p.
Proof.
  induction fuel as [|f IH]; intros cur rest p C H; destruct rest as [|name rest']; cbn in H;
    try (inversion H; subst; assumption); try discriminate.
  destruct (str_eqb name s_dotdot).
  - eapply IH; [|exact H]. now apply canonical_removelast.
  - destruct (fs_get fs (cur ++ [name])) as [[| |t]|] eqn:G.
    + eapply IH; [|exact H]. apply canonical_snoc; [assumption|]. intros t'. rewrite G. discriminate.
    + eapply IH; [|exact H]. apply canonical_snoc; [assumption|]. intros t'. rewrite G. discriminate.
    + eapply IH; [|exact H]. destruct (is_abs t); [apply canonical_nil|assumption].
    + eapply IH; [|exact H]. apply canonical_snoc; [assumption|]. intros t'. rewrite G. discriminate.
Qed.

(* C17: with a root folder configured, a specification either resolves to a canonical path that has
   the root as a prefix - a physical node inside the root's subtree, no symlink on the way - or it is
   a load error *)
Theorem resolve_contained fs fuel r src spec p :
  resolve_item fs fuel (Some r) src spec = ROk p -> is_prefix r p = true /\ canonical fs p.
Proof.
  unfold resolve_item.
  set (spec' := if starts_with s_file_colon (lower spec) then skipn 5 spec else spec).
  set (leading := match spec' with c :: _ => _ | [] => false end).
  set (target := if leading then _ else _). set (odd := if leading then _ else false).
  destruct target as [parts|]; [|discriminate].
  destruct (realpath fs fuel [] parts) as [q|] eqn:R; [|discriminate].
  destruct (is_prefix r q && negb odd) eqn:P; [|discriminate].
  intro H. inversion H; subst. apply andb_true_iff in P as [P _]. split; [assumption|].
  eapply realpath_canonical; [apply canonical_nil|exact R].
Qed.

(* ---------- lifted to the loader: everything that is opened or listed lies inside the root ---------- *)
Section Lift.
Variable id : Type.
Variable id_eqb : id -> id -> bool.
Variable item : Type.
Variable resolve : item -> option id.
Variable pushes : id -> list item.
Variable blk : Type.
Variable blocks : id -> list blk.
Variable raising : bool.
Variable P : id -> Prop.
Hypothesis resolve_P : forall it i, resolve it = Some i -> P i.
Notation load := (load id id_eqb item resolve pushes blk blocks raising).

Definition ev_ok (e : ev id blk) : Prop :=
  match e with Visit i => P i | Yield i _ => P i | Dup i => P i end.

Definition evs_of (r : res id item blk) : list (ev id blk) :=
  match r with Done _ e => e | Aborted _ e => e | DupAbort _ e => e | OutOfFuel => [] end.

(* whatever way the load ends - completed, aborted by a load error, aborted by a repeated location -
   every location it opened, listed or read blocks from satisfies P *)
Theorem load_events_ok : forall fuel stack visited evs,
  Forall ev_ok evs -> Forall ev_ok (evs_of (load fuel stack visited evs)).
Proof.
  induction fuel as [|f IH]; intros stack visited evs F; cbn; [constructor|].
  destruct stack as [|it st]; [exact F|].
  destruct (resolve it) as [i|] eqn:R; [|exact F].
  pose proof (resolve_P _ _ R) as Pi.
  destruct (Load.mem id id_eqb i visited).
  - destruct raising; cbn.
    + apply Forall_app. split; [assumption|]. constructor; [exact Pi|constructor].
    + apply IH. apply Forall_app. split; [assumption|]. constructor; [exact Pi|constructor].
  - apply IH. apply Forall_app. split; [assumption|]. constructor; [exact Pi|].
    rewrite Forall_forall. intros e He. apply in_map_iff in He. destruct He as [b [<- _]]. exact Pi.
Qed.
End Lift.

(* the file-system loader with a root folder: every event concerns a canonical path under the root *)
Theorem fs_load_contained x rfuel r matches allow_include raising fuel roots :
  Forall (ev_ok path fblock (fun p => is_prefix r p = true /\ canonical (to_fs x) p))
         (evs_of path litem fblock (fs_load x rfuel (Some r) matches allow_include raising fuel roots)).
Proof.
  unfold fs_load, load_roots. apply load_events_ok; [|constructor].
  intros it i H. unfold fs_resolve in H.
  destruct (resolve_item (to_fs x) rfuel (Some r) (snd it) (fst it)) as [p| |] eqn:R; try discriminate.
  destruct (xget x p) as [[| |]|]; try discriminate; inversion H; subst; eapply resolve_contained; eauto.
Qed.
