(* Non-vacuity of C09_sheet_table_roundtrip: a sheet with a transposed and a row-wise table (numbers,
   a missing number, a timestamp, text, onoff; one table without rows), two separator lines. *)
From Coq Require Import Lia.
From PdV Require Import ParseTable LayoutProofs RoundTrip XlRoundTrip.
From PdV.Model Require Import WriteCsv WriteXl Segment Reader.
Local Open Scope N_scope.

Definition xx_cols : list wcol :=
  [ {| wc_name := [120]; wc_unit := [109]; wc_vals := [WNum one_tok [49; 46; 48]; WMissing [110; 97; 110]] |};
    {| wc_name := [100]; wc_unit := u_datetime; wc_vals := [WDate 86400000000000%Z [49]; WMissing [78; 97; 84]] |};
    {| wc_name := [115]; wc_unit := u_text; wc_vals := [WText [113]; WText []] |};
    {| wc_name := [98]; wc_unit := u_onoff; wc_vals := [WBool true; WBool false] |} ].
Definition xx_t (tr : bool) : wtable := {| w_name := [116]; w_dests := [[97]; [98]]; w_transposed := tr; w_cols := xx_cols |}.
Definition xx_empty : wtable :=
  {| w_name := [101]; w_dests := [[97]]; w_transposed := false; w_cols := [ {| wc_name := [120]; wc_unit := [109]; wc_vals := [] |} ] |}.
Definition xx_cfg : fixer_cfg := {| stop_on_errors := true; strict_types := true; fix_value := stock_fix |}.

Lemma xx_wf tr : wf_xtable (xx_t tr).
Proof.
  exists 2%nat. cbn [xx_t w_cols w_name].
  repeat match goal with |- _ /\ _ => split end; try reflexivity.
  - repeat constructor.
  - discriminate.
  - repeat constructor.
  - repeat constructor; cbn; intuition discriminate.
  - intros [|[|[|[|j]]]] [|[|i]] Hj Hi; cbn in Hj, Hi; try lia; unfold wf_xval; cbn;
      try (eexists; reflexivity); try (left; eexists _, _; reflexivity); try (right; eexists; reflexivity);
      try (eexists; split; [reflexivity|discriminate]).
  - intros [|[|i]] Hi; try lia; reflexivity.
Qed.

Lemma xx_wf_empty : wf_xtable xx_empty.
Proof.
  exists 0%nat. cbn [xx_empty w_cols w_name].
  repeat match goal with |- _ /\ _ => split end; try reflexivity; try (intros; lia).
  - repeat constructor.
  - discriminate.
  - repeat constructor.
  - repeat constructor; cbn; intuition discriminate.
Qed.

Example sheet_table_roundtrip_applies :
  let rows := map (pad_row 4) (xl_core_rows (xx_t false)) in
  In (BTable, 8%nat, rows) (segment_rows (sheet_rows 2 [xx_t true; xx_t false; xx_empty])) /\
  parse_table (fun _ => None) (fun _ => DBad) xx_cfg rows fx_init = Ok (table_read_back (xx_t false)) /\
  p_cols (table_read_back (xx_t false))
  = [[VNum one_tok; VNum nan_tok]; [VDate 86400000000000%Z; VNaT]; [VText [113]; VText []]; [VBool true; VBool false]].
Proof.
  cbv zeta.
  destruct (sheet_table_roundtrip (fun _ => None) (fun _ => DBad) xx_cfg 2 [xx_t true] (xx_t false) [xx_empty]) as [H1 H2].
  - lia.
  - apply xx_wf.
  - vm_compute. repeat constructor.
  - split; [exact H1|split; [exact H2|reflexivity]].
Qed.

Example empty_table_roundtrips :
  parse_table (fun _ => None) (fun _ => DBad) xx_cfg (map (pad_row 4) (xl_core_rows xx_empty)) fx_init
  = Ok (table_read_back xx_empty).
Proof. apply xl_table_roundtrip. apply xx_wf_empty. Qed.
