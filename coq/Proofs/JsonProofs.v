(* Proofs about M-Json (Model/Json.v). *)
From Coq Require Import Lia.
From PdV Require Import Json TextProofs.
Local Open Scope nat_scope.

Section P.
Variable render_dt : dtok -> str.

Definition pure_leaf (l : jleaf) : Prop := l <> JFloat nan_tok.

(* to_json_serializable never leaves a NaN in the data: missing numbers travel as null *)
Lemma leaf_of_value_pure v : pure_leaf (leaf_of_value render_dt v).
Proof.
  unfold pure_leaf. destruct v; cbn; try discriminate.
  destruct (N.eqb_spec f nan_tok); [discriminate|]. intro C. inversion C. contradiction.
Qed.

Lemma zip3_spec names units cols :
  length units = length names -> length cols = length names ->
  map (fun c => fst (fst c)) (zip3 render_dt names units cols) = names /\
  map (fun c => snd (fst c)) (zip3 render_dt names units cols) = units /\
  map snd (zip3 render_dt names units cols) = map (map (leaf_of_value render_dt)) cols.
Proof.
  revert units cols; induction names as [|n ns IH]; intros [|u us] [|c cs] Lu Lc; cbn in *; try discriminate; auto.
  destruct (IH us cs ltac:(lia) ltac:(lia)) as (A & B & C). now rewrite A, B, C.
Qed.

(* JsonData of a parsed table: columns in table order, each with its own unit; every leaf is a
   JSON value and none is NaN *)
Theorem json_of_ptable_spec p :
  length (p_units p) = length (p_names p) -> length (p_cols p) = length (p_names p) ->
  j_name (json_of_ptable render_dt p) = p_name p /\
  j_dests (json_of_ptable render_dt p) = p_dests p /\
  map (fun c => fst (fst c)) (j_cols (json_of_ptable render_dt p)) = p_names p /\
  map (fun c => snd (fst c)) (j_cols (json_of_ptable render_dt p)) = p_units p /\
  Forall (fun c => Forall pure_leaf (snd c)) (j_cols (json_of_ptable render_dt p)).
Proof.
  intros Lu Lc. unfold json_of_ptable. cbn. destruct (zip3_spec (p_names p) (p_units p) (p_cols p) Lu Lc) as (A & B & C).
  repeat split; auto. rewrite Forall_forall. intros c Hc.
  assert (In (snd c) (map snd (zip3 render_dt (p_names p) (p_units p) (p_cols p)))) as H by (apply in_map; exact Hc).
  rewrite C in H. apply in_map_iff in H. destruct H as [vs [E _]]. rewrite <- E.
  rewrite Forall_forall. intros l Hl. apply in_map_iff in Hl. destruct Hl as [v [<- _]]. apply leaf_of_value_pure.
Qed.

(* missing numbers travel as null, and only they (among numbers) *)
Lemma leaf_null_iff v :
  leaf_of_value render_dt v = JNull <-> v = VNum nan_tok \/ v = VNaT \/ exists k, v = VCustom k.
Proof.
  destruct v; cbn; split; try discriminate; try (intros [C|[C|[k C]]]; discriminate); eauto.
  - destruct (N.eqb_spec f nan_tok); [subst; auto|discriminate].
  - intros [C|[C|[k C]]]; try discriminate. inversion C; subst. now rewrite N.eqb_refl.
Qed.
End P.

(* table_to_json_data: pure JSON leaves, no NaN, columns in table order *)
Lemma leaf_of_scalar_pure c l : leaf_of_scalar c = Some l -> pure_leaf l.
Proof.
  unfold pure_leaf. destruct c; cbn; intro H; inversion H; subst; try discriminate.
  destruct (N.eqb_spec f nan_tok); [discriminate|]. intro C. inversion C. contradiction.
Qed.

Lemma leaves_of_pure cs ls : leaves_of cs = Some ls -> Forall pure_leaf ls /\ length ls = length cs.
Proof.
  revert ls; induction cs as [|c rest IH]; intros ls H; cbn in H.
  - inversion H. split; [constructor|reflexivity].
  - destruct (leaf_of_scalar c) as [l|] eqn:E; [|discriminate]. destruct (leaves_of rest) as [r|] eqn:R; [|discriminate].
    inversion H; subst. destruct (IH r eq_refl) as [A B]. split; [constructor; [now apply (leaf_of_scalar_pure c)|assumption]|cbn; lia].
Qed.

Theorem table_to_json_spec name dests cols j :
  table_to_json name dests cols = Some j ->
  j_name j = name /\ j_dests j = dests /\
  map (fun c => fst (fst c)) (j_cols j) = map (fun c => fst (fst c)) cols /\
  map (fun c => snd (fst c)) (j_cols j) = map (fun c => snd (fst c)) cols /\
  Forall (fun c => Forall pure_leaf (snd c)) (j_cols j).
Proof.
  unfold table_to_json. destruct (json_cols cols) as [c|] eqn:E; [|discriminate]. intro H; inversion H; subst; cbn.
  repeat split; auto; clear H; revert c E; induction cols as [|[[n u] vs] rest IH]; intros c E; cbn in E.
  - inversion E. reflexivity.
  - destruct (leaves_of vs) as [ls|]; [|discriminate]. destruct (json_cols rest) as [r|] eqn:R; [|discriminate].
    inversion E; subst. cbn. f_equal. now apply IH.
  - inversion E. reflexivity.
  - destruct (leaves_of vs) as [ls|]; [|discriminate]. destruct (json_cols rest) as [r|] eqn:R; [|discriminate].
    inversion E; subst. cbn. f_equal. now apply IH.
  - inversion E. constructor.
  - destruct (leaves_of vs) as [ls|] eqn:L; [|discriminate]. destruct (json_cols rest) as [r|] eqn:R; [|discriminate].
    inversion E; subst. constructor; [cbn; exact (proj1 (leaves_of_pure _ _ L))|now apply IH].
Qed.
