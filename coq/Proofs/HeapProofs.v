(* Proofs about M-Heap (Model/Heap.v): results of pandas operations and re-wrapped tables own only
   fresh objects, so no mutation through one frame is visible through another (C05). *)
From Coq Require Import Lia.
From PdV.Model Require Import Heap.
From PdV Require Import TextProofs.
Local Open Scope nat_scope.

(* ---------- the store ---------- *)
Definition wf_heap (h : heap) : Prop := forall id o, get h id = Some o -> id < nxt h.

Lemma hget_hset_same id o l : hget id (hset id o l) = Some o.
Proof.
  induction l as [|[k o'] l IH]; cbn; [now rewrite Nat.eqb_refl|].
  destruct (Nat.eqb k id) eqn:E; cbn; rewrite E; [reflexivity|exact IH].
Qed.

Lemma hget_hset_other id id' o l : id <> id' -> hget id (hset id' o l) = hget id l.
Proof.
  intro H. induction l as [|[k o'] l IH]; cbn.
  - destruct (Nat.eqb_spec id' id); [congruence|reflexivity].
  - destruct (Nat.eqb_spec k id'); cbn.
    + subst. destruct (Nat.eqb_spec id' id); [congruence|reflexivity].
    + destruct (Nat.eqb k id); [reflexivity|exact IH].
Qed.

Lemma get_put_same h id o : get (put h id o) id = Some o.
Proof. apply hget_hset_same. Qed.
Lemma get_put_other h id id' o : id <> id' -> get (put h id' o) id = get h id.
Proof. apply hget_hset_other. Qed.

Lemma get_alloc_new h o : get (fst (alloc h o)) (nxt h) = Some o.
Proof. unfold get, alloc. cbn. now rewrite Nat.eqb_refl. Qed.
Lemma get_alloc_old h o id : id <> nxt h -> get (fst (alloc h o)) id = get h id.
Proof. intro H. unfold get, alloc. cbn. destruct (Nat.eqb_spec (nxt h) id); [congruence|reflexivity]. Qed.

Lemma get_alloc_new' h o : get {| nxt := S (nxt h); objs := (nxt h, o) :: objs h |} (nxt h) = Some o.
Proof. exact (get_alloc_new h o). Qed.
Lemma get_alloc_old' h o id : id <> nxt h -> get {| nxt := S (nxt h); objs := (nxt h, o) :: objs h |} id = get h id.
Proof. exact (get_alloc_old h o id). Qed.

Lemma wf_alloc h o : wf_heap h -> wf_heap (fst (alloc h o)).
Proof.
  intros W id o' H. cbn. destruct (Nat.eq_dec id (nxt h)) as [->|Hn]; [lia|].
  rewrite get_alloc_old in H by assumption. apply W in H. lia.
Qed.

Lemma wf_put h id o : wf_heap h -> id < nxt h -> wf_heap (put h id o).
Proof.
  intros W L id' o' H. cbn. destruct (Nat.eq_dec id' id) as [->|Hn]; [assumption|].
  rewrite get_put_other in H by assumption. now apply W in H.
Qed.

(* ---------- observations depend only on the owned objects ---------- *)
Lemma observe_frame h h' i :
  (forall id, In id (owned h i) -> get h' id = get h id) ->
  observe h' i = observe h i /\ owned h' i = owned h i.
Proof.
  intro H.
  assert (meta_of h' i = meta_of h i) as Em.
  { unfold meta_of. rewrite H; [reflexivity|]. unfold owned. now left. }
  assert (dict_of h' i = dict_of h i) as Ed.
  { unfold dict_of. rewrite H; [reflexivity|]. unfold owned. right. now left. }
  assert (dests_of h' i = dests_of h i) as Es.
  { unfold dests_of. rewrite Em. destruct (meta_of h i) as [m|] eqn:M; [|reflexivity].
    rewrite H; [reflexivity|]. unfold owned. rewrite M. right. right. apply in_or_app. left. now left. }
  split.
  - unfold observe. rewrite Em, Ed, Es. f_equal. apply map_ext_in. intros [n c] Hin. cbn. f_equal. f_equal.
    unfold cm_of. rewrite H; [reflexivity|]. unfold owned. right. right. apply in_or_app. right.
    apply in_map_iff. exists (n, c). auto.
  - unfold owned. now rewrite Em, Ed.
Qed.

(* ---------- a mutation through one frame touches only what that frame owns ---------- *)
Definition bounded (h : heap) (i : info) : Prop := forall id, In id (owned h i) -> id < nxt h.

Lemma dict_get_in n d id : dict_get n d = Some id -> In id (map snd d).
Proof.
  induction d as [|[k v] d IH]; cbn; [discriminate|]. destruct (str_eqb k n).
  - intro H. inversion H. now left.
  - intro H. right. now apply IH.
Qed.

Lemma mutate_local h i m id :
  ~ In id (owned h i) -> id < nxt h -> get (mutate h i m) id = get h id.
Proof.
  intros Hn L. destruct m as [col u|d|n|col|col u]; cbn.
  - destruct (dict_get col (dict_of h i)) as [cid|] eqn:D; [|reflexivity].
    destruct (cm_of h cid); [|reflexivity]. apply get_put_other. intros ->. apply Hn.
    unfold owned. right. right. apply in_or_app. right. now apply dict_get_in in D.
  - destruct (meta_of h i) as [tm|] eqn:M; [|reflexivity]. apply get_put_other. intros ->. apply Hn.
    unfold owned. rewrite M. right. right. apply in_or_app. left. now left.
  - destruct (meta_of h i) as [tm|] eqn:M; [|reflexivity]. apply get_put_other. intros ->. apply Hn.
    unfold owned. now left.
  - apply get_put_other. intros ->. apply Hn. unfold owned. right. now left.
  - destruct (dict_get col (dict_of h i)); [reflexivity|].
    rewrite get_put_other.
    + apply get_alloc_old. lia.
    + intros ->. apply Hn. unfold owned. right. now left.
Qed.

(* C05: two frames that own disjoint objects do not interfere: whatever is changed through one
   (units, destinations, name, columns), every observation of the other stays the same *)
Theorem noninterference h a b m :
  (forall id, In id (owned h b) -> ~ In id (owned h a)) -> bounded h b ->
  observe (mutate h a m) b = observe h b /\ owned (mutate h a m) b = owned h b.
Proof.
  intros S B. apply observe_frame. intros id Hin. apply mutate_local; [now apply S|now apply B].
Qed.

(* ---------- results own only fresh objects ---------- *)
Lemma copy_cm_spec h cid h1 nid :
  wf_heap h -> copy_cm h cid = (h1, nid) ->
  nid = nxt h /\ nxt h1 = S (nxt h) /\ wf_heap h1 /\ (forall id, id <> nxt h -> get h1 id = get h id) /\
  (forall c, cm_of h cid = Some c -> cm_of h1 nid = Some c).
Proof.
  intros W H. unfold copy_cm in H. destruct (cm_of h cid) as [c|] eqn:C.
  - inversion H; subst. repeat split; auto.
    + apply (wf_alloc h (OCm c) W).
    + intros id Hne. now apply get_alloc_old'.
    + intros c' E. inversion E; subst. unfold cm_of. now rewrite get_alloc_new'.
  - inversion H; subst. repeat split; auto.
    + apply (wf_alloc h _ W).
    + intros id Hne. now apply get_alloc_old'.
    + discriminate.
Qed.

(* the invariant of the merging loops, relative to the store size N before the combination *)
Definition fresh_acc (N : nat) (h : heap) (acc : list (str * nat)) : Prop :=
  forall n id, In (n, id) acc -> N <= id < nxt h.

Lemma dict_get_in_pair n d id : dict_get n d = Some id -> exists k, In (k, id) d.
Proof.
  induction d as [|[k v] d IH]; cbn; [discriminate|]. destruct (str_eqb k n).
  - intro H. inversion H; subst. exists k. now left.
  - intro H. destruct (IH H) as [k' Hk]. exists k'. now right.
Qed.

Lemma merge_dict_fresh N out src : forall h acc h' acc' e,
  wf_heap h -> N <= nxt h -> fresh_acc N h acc ->
  merge_dict h out src acc = (h', acc', e) ->
  wf_heap h' /\ nxt h <= nxt h' /\ fresh_acc N h' acc' /\ (forall id, id < N -> get h' id = get h id).
Proof.
  induction src as [|[n cid] rest IH]; intros h acc h' acc' e W L F H; cbn in H.
  - inversion H; subst. split; [assumption|split; [lia|split; [assumption|reflexivity]]].
  - destruct (negb (mem_str n out)); [eapply IH; eauto|].
    destruct (dict_get n acc) as [aid|] eqn:D.
    + destruct (cm_of h aid) as [a|]; [|eapply IH; eauto].
      destruct (cm_of h cid) as [c|]; [|eapply IH; eauto].
      destruct (str_eqb (cm_unit a) (cm_unit c)).
      * destruct (dict_get_in_pair _ _ _ D) as [k Hk]. pose proof (F _ _ Hk) as Ha.
        assert (wf_heap (put h aid (OCm (update_from a c)))) as W' by (apply wf_put; [assumption|lia]).
        destruct (IH (put h aid (OCm (update_from a c))) acc h' acc' e W' L F H) as (A & B & C & D').
        split; [assumption|split; [exact B|split; [assumption|]]]. intros id Hid. rewrite D' by assumption. apply get_put_other. lia.
      * inversion H; subst. split; [assumption|split; [lia|split; [assumption|reflexivity]]].
    + destruct (copy_cm h cid) as [h1 nid] eqn:Cp.
      destruct (copy_cm_spec h cid h1 nid W Cp) as (-> & Nx & W1 & G & _).
      assert (fresh_acc N h1 (acc ++ [(n, nxt h)])) as F1.
      { intros n' id Hin. apply in_app_or in Hin. destruct Hin as [Hin|[Hin|[]]].
        - specialize (F _ _ Hin). lia.
        - inversion Hin; subst. lia. }
      destruct (IH h1 _ h' acc' e W1 ltac:(lia) F1 H) as (A & B & C & D').
      split; [assumption|split; [lia|split; [assumption|]]]. intros id Hid. rewrite D' by assumption. apply G. lia.
Qed.

Lemma merge_all_fresh N out srcs : forall h acc h' acc' e,
  wf_heap h -> N <= nxt h -> fresh_acc N h acc ->
  merge_all h out srcs acc = (h', acc', e) ->
  wf_heap h' /\ nxt h <= nxt h' /\ fresh_acc N h' acc' /\ (forall id, id < N -> get h' id = get h id).
Proof.
  induction srcs as [|s rest IH]; intros h acc h' acc' e W L F H; cbn in H.
  - inversion H; subst. split; [assumption|split; [lia|split; [assumption|reflexivity]]].
  - destruct (merge_dict h out (dict_of h s) acc) as [[h1 acc1] [e1|]] eqn:M.
    + inversion H; subst. eapply merge_dict_fresh; eauto.
    + destruct (merge_dict_fresh N out _ _ _ _ _ _ W L F M) as (W1 & L1 & F1 & G1).
      destruct (IH h1 acc1 h' acc' e W1 ltac:(lia) F1 H) as (A & B' & C & D).
      split; [assumption|split; [lia|split; [assumption|]]]. intros id Hid. rewrite D by assumption. now apply G1.
Qed.

(* C05: the metadata of a pandas result is made of new objects only, and building it leaves every
   existing object as it was: the result is separated from every frame that existed before *)
Theorem combine_fresh h srcs out method strict h' r :
  wf_heap h ->
  combine h srcs out method strict = (h', Some (inl r)) ->
  wf_heap h' /\ (forall id, In id (owned h' r) -> nxt h <= id < nxt h') /\
  (forall id, id < nxt h -> get h' id = get h id).
Proof.
  intros W H. unfold combine in H. destruct srcs as [|first rest]; [discriminate|].
  destruct (meta_of h first) as [m0|] eqn:M0; [|discriminate].
  cbn [alloc] in H.
  remember {| nxt := S (nxt h); objs := (nxt h, OSet (dests_of h first)) :: objs h |} as h1 eqn:E1.
  assert (wf_heap h1) as W1 by (subst h1; exact (wf_alloc h _ W)).
  assert (nxt h1 = S (nxt h)) as N1 by (subst h1; reflexivity).
  assert (forall id, id <> nxt h -> get h1 id = get h id) as G1
    by (intros id Hid; subst h1; now apply (get_alloc_old' h (OSet (dests_of h first)))).
  match type of H with context[merge_all ?hh _ _ _] => remember hh as h2 eqn:E2 end.
  assert (wf_heap h2) as W2 by (subst h2; exact (wf_alloc h1 _ W1)).
  assert (nxt h2 = S (S (nxt h))) as N2 by (subst h2; cbn; now rewrite N1).
  assert (forall id, id < nxt h -> get h2 id = get h id) as G2.
  { intros id Hid. subst h2. rewrite (get_alloc_old' h1) by lia. apply G1. lia. }
  assert (get h2 (nxt h1) = Some (OMeta {| tm_name := tm_name m0; tm_dests := nxt h;
            tm_origin := ODerived (s_pandas ++ method)
              (map (fun s => match meta_of h s with Some m => tm_origin m | None => OAbsent end) (first :: rest));
            tm_transposed := false; tm_strict := strict |})) as GM by (subst h2; apply get_alloc_new').
  assert (get h2 (nxt h) = Some (OSet (dests_of h first))) as GS.
  { subst h2. rewrite (get_alloc_old' h1) by lia. subst h1. apply get_alloc_new'. }
  destruct (merge_all h2 out (first :: rest) []) as [[h3 d] [e|]] eqn:MA; [inversion H|].
  assert (fresh_acc (nxt h2) h2 []) as F0 by (intros ? ? []).
  destruct (merge_all_fresh (nxt h2) out (first :: rest) h2 [] h3 d None W2 (le_n _) F0 MA) as (W3 & L3 & F3 & G3).
  inversion H; subst h' r. clear H.
  assert (wf_heap {| nxt := S (nxt h3); objs := (nxt h3, ODict d) :: objs h3 |}) as W4 by exact (wf_alloc h3 (ODict d) W3).
  split; [exact W4|]. split.
  - intros id Hin. unfold owned in Hin. cbn [i_meta i_dict] in Hin.
    assert (meta_of {| nxt := S (nxt h3); objs := (nxt h3, ODict d) :: objs h3 |} {| i_meta := nxt h1; i_dict := nxt h3 |} =
            Some {| tm_name := tm_name m0; tm_dests := nxt h; tm_origin := ODerived (s_pandas ++ method)
              (map (fun s => match meta_of h s with Some m => tm_origin m | None => OAbsent end) (first :: rest));
              tm_transposed := false; tm_strict := strict |}) as MM.
    { unfold meta_of. cbn [i_meta]. rewrite (get_alloc_old' h3) by lia. rewrite G3 by lia. now rewrite GM. }
    assert (dict_of {| nxt := S (nxt h3); objs := (nxt h3, ODict d) :: objs h3 |} {| i_meta := nxt h1; i_dict := nxt h3 |} = d) as DD.
    { unfold dict_of. cbn [i_dict]. now rewrite (get_alloc_new' h3). }
    rewrite MM, DD in Hin. cbn [tm_dests app In nxt] in *.
    destruct Hin as [<-|[<-|[<-|Hin]]]; try lia.
    apply in_map_iff in Hin. destruct Hin as [[n cid] [<- Hin]]. cbn [snd]. specialize (F3 _ _ Hin). lia.
  - intros id Hid. cbn [nxt] in *. rewrite (get_alloc_old' h3) by lia. rewrite G3 by lia. now apply G2.
Qed.

(* ---------- what the result says ---------- *)
(* name and destinations are the first source's, the origin is derived from all sources *)
Theorem combine_header h srcs out method strict h' r first rest m0 :
  wf_heap h -> srcs = first :: rest -> meta_of h first = Some m0 ->
  combine h srcs out method strict = (h', Some (inl r)) ->
  v_name (observe h' r) = Some (tm_name m0) /\
  v_dests (observe h' r) = dests_of h first /\
  v_origin (observe h' r) =
    Some (ODerived (s_pandas ++ method)
            (map (fun s => match meta_of h s with Some m => tm_origin m | None => OAbsent end) srcs)).
Proof.
  intros W -> M0 H. unfold combine in H. rewrite M0 in H. cbn [alloc] in H.
  remember {| nxt := S (nxt h); objs := (nxt h, OSet (dests_of h first)) :: objs h |} as h1 eqn:E1.
  assert (wf_heap h1) as W1 by (subst h1; exact (wf_alloc h _ W)).
  assert (nxt h1 = S (nxt h)) as N1 by (subst h1; reflexivity).
  match type of H with context[merge_all ?hh _ _ _] => remember hh as h2 eqn:E2 end.
  assert (wf_heap h2) as W2 by (subst h2; exact (wf_alloc h1 _ W1)).
  assert (nxt h2 = S (S (nxt h))) as N2 by (subst h2; cbn; now rewrite N1).
  assert (get h2 (nxt h1) = Some (OMeta {| tm_name := tm_name m0; tm_dests := nxt h;
            tm_origin := ODerived (s_pandas ++ method)
              (map (fun s => match meta_of h s with Some m => tm_origin m | None => OAbsent end) (first :: rest));
            tm_transposed := false; tm_strict := strict |})) as GM by (subst h2; apply get_alloc_new').
  assert (get h2 (nxt h) = Some (OSet (dests_of h first))) as GS.
  { subst h2. rewrite (get_alloc_old' h1) by lia. subst h1. apply get_alloc_new'. }
  destruct (merge_all h2 out (first :: rest) []) as [[h3 d] [e|]] eqn:MA; [inversion H|].
  assert (fresh_acc (nxt h2) h2 []) as F0 by (intros ? ? []).
  destruct (merge_all_fresh (nxt h2) out (first :: rest) h2 [] h3 d None W2 (le_n _) F0 MA) as (W3 & L3 & F3 & G3).
  inversion H; subst h' r. clear H.
  assert (meta_of {| nxt := S (nxt h3); objs := (nxt h3, ODict d) :: objs h3 |} {| i_meta := nxt h1; i_dict := nxt h3 |} =
          Some {| tm_name := tm_name m0; tm_dests := nxt h; tm_origin := ODerived (s_pandas ++ method)
            (map (fun s => match meta_of h s with Some m => tm_origin m | None => OAbsent end) (first :: rest));
            tm_transposed := false; tm_strict := strict |}) as MM.
  { unfold meta_of. cbn [i_meta]. rewrite (get_alloc_old' h3) by lia. rewrite G3 by lia. now rewrite GM. }
  unfold observe, dests_of. rewrite MM. cbn [option_map tm_name tm_origin tm_dests].
  repeat split. rewrite (get_alloc_old' h3) by lia. rewrite G3 by lia. now rewrite GS.
Qed.

(* the input ancestors of a derived origin are exactly its sources' input ancestors *)
Theorem derived_ancestors op ps : ancestors (ODerived op ps) = flat_map ancestors ps.
Proof. reflexivity. Qed.

(* a column shared by two sources with different units refuses the combination *)
Theorem merge_conflict h out n cid rest acc aid a c :
  mem_str n out = true -> dict_get n acc = Some aid ->
  cm_of h aid = Some a -> cm_of h cid = Some c -> str_eqb (cm_unit a) (cm_unit c) = false ->
  merge_dict h out ((n, cid) :: rest) acc = (h, acc, Some ECombine).
Proof. intros M D A C U. cbn. now rewrite M, D, A, C, U. Qed.

(* no source with metadata: no table metadata can be established (plain DataFrame + warning) *)
Theorem combine_no_source h out method strict : combine h [] out method strict = (h, None).
Proof. reflexivity. Qed.

(* ---------- a single source: every surviving column keeps its unit ---------- *)
Definition unit_view (h : heap) (d : list (str * nat)) : list (str * option str) :=
  map (fun nc => (fst nc, option_map cm_unit (cm_of h (snd nc)))) d.

Lemma dict_get_none_notin n (d : list (str * nat)) : ~ In n (map fst d) -> dict_get n d = None.
Proof.
  induction d as [|[k v] d IH]; cbn; intro H; [reflexivity|].
  destruct (str_eqb k n) eqn:E; [apply str_eqb_eq in E; subst; exfalso; apply H; now left|].
  apply IH. intro C. apply H. now right.
Qed.

Lemma unit_view_stable h h' d :
  (forall n id, In (n, id) d -> get h' id = get h id) -> unit_view h' d = unit_view h d.
Proof.
  intro H. unfold unit_view. apply map_ext_in. intros [n id] Hin. cbn. f_equal. f_equal. unfold cm_of.
  now rewrite (H n id Hin).
Qed.

Lemma merge_dict_single out src : forall h acc h' acc' e,
  wf_heap h -> NoDup (map fst src) ->
  (forall n, In n (map fst src) -> ~ In n (map fst acc)) ->
  (forall n id, In (n, id) acc -> id < nxt h) ->
  (forall n id, In (n, id) src -> id < nxt h /\ exists c, cm_of h id = Some c) ->
  merge_dict h out src acc = (h', acc', e) ->
  e = None /\ nxt h <= nxt h' /\ (forall id, id < nxt h -> get h' id = get h id) /\
  unit_view h' acc' = unit_view h acc ++ unit_view h (filter (fun nc => mem_str (fst nc) out) src).
Proof.
  induction src as [|[n cid] rest IH]; intros h acc h' acc' e W ND Dis Ba Bs H; cbn in H.
  - inversion H; subst. cbn. rewrite app_nil_r. repeat split; auto.
  - inversion ND as [|? ? Hn ND']; subst. cbn [filter fst].
    destruct (mem_str n out) eqn:Mo; cbn [negb] in H.
    + rewrite (dict_get_none_notin n acc (Dis n (or_introl eq_refl))) in H.
      destruct (copy_cm h cid) as [h1 nid] eqn:Cp.
      destruct (copy_cm_spec h cid h1 nid W Cp) as (-> & Nx & W1 & G & Cc).
      assert (forall id, id < nxt h -> get h1 id = get h id) as G' by (intros id Hid; apply G; lia).
      destruct (IH h1 (acc ++ [(n, nxt h)]) h' acc' e W1 ND') as (E & L & G2 & U); auto.
      * intros n' Hin C. rewrite map_app in C. apply in_app_or in C. destruct C as [C|[C|[]]].
        -- apply (Dis n' (or_intror Hin) C).
        -- cbn in C. subst n'. contradiction.
      * intros n' id Hin. apply in_app_or in Hin. destruct Hin as [Hin|[Hin|[]]].
        -- specialize (Ba _ _ Hin). lia.
        -- inversion Hin; subst. lia.
      * intros n' id Hin. destruct (Bs n' id (or_intror Hin)) as [B1 [c' B2]]. split; [lia|].
        exists c'. unfold cm_of in *. now rewrite G' by assumption.
      * split; [assumption|]. split; [lia|]. split; [intros id Hid; rewrite G2 by lia; now apply G'|].
        rewrite U. unfold unit_view at 1. rewrite map_app. cbn [map fst snd].
        fold (unit_view h1 acc). rewrite (unit_view_stable h h1 acc) by (intros ? ? Hin; apply G'; eapply Ba; eauto).
        rewrite <- app_assoc. f_equal. cbn [app unit_view map fst snd]. f_equal.
        -- f_equal. destruct (Bs n cid (or_introl eq_refl)) as [_ [c C0]].
           rewrite (Cc c C0), C0. reflexivity.
        -- apply unit_view_stable. intros n' id Hin. apply G'. apply filter_In in Hin. destruct Hin as [Hin _].
           apply (Bs n' id). right. exact Hin.
    + destruct (IH h acc h' acc' e W ND') as (E & L & G2 & U); auto.
      * intros n' Hin. apply Dis. now right.
      * intros n' id Hin. apply (Bs n' id). now right.
Qed.

(* ---------- re-wrapping: Table(df, name=..., units=...) ---------- *)
Lemma alloc_units_fresh names : forall h units h' d,
  wf_heap h -> alloc_units h names units = (h', d) ->
  wf_heap h' /\ nxt h <= nxt h' /\ (forall n id, In (n, id) d -> nxt h <= id < nxt h') /\
  (forall id, id < nxt h -> get h' id = get h id).
Proof.
  induction names as [|n ns IH]; intros h units h' d W H; cbn in H.
  - inversion H; subst. split; [assumption|split; [lia|split; [intros ? ? []|reflexivity]]].
  - destruct units as [|u us]; [inversion H; subst; split; [assumption|split; [lia|split; [intros ? ? []|reflexivity]]]|].
    remember {| nxt := S (nxt h); objs := (nxt h, OCm {| cm_unit := u; cm_display_unit := None; cm_format := None |}) :: objs h |} as h1.
    assert (wf_heap h1) as W1 by (subst h1; exact (wf_alloc h _ W)).
    assert (nxt h1 = S (nxt h)) as N1 by (subst h1; reflexivity).
    destruct (alloc_units h1 ns us) as [h2 rest] eqn:E. inversion H; subst h' d.
    destruct (IH h1 us h2 rest W1 E) as (A & B & C & D).
    split; [assumption|]. split; [lia|]. split.
    + intros n' id [Hin|Hin]; [inversion Hin; subst; lia|]. specialize (C _ _ Hin). lia.
    + intros id Hid. rewrite D by lia. subst h1. apply get_alloc_old'. lia.
Qed.

(* a re-wrapped table owns only new objects; the frame it was made from is untouched *)
Theorem rewrap_fresh h i nn nu h' r :
  wf_heap h -> rewrap h i nn nu = (h', Some r) ->
  wf_heap h' /\ (forall id, In id (owned h' r) -> nxt h <= id < nxt h') /\
  (forall id, id < nxt h -> get h' id = get h id).
Proof.
  intros W H. unfold rewrap in H. destruct (meta_of h i) as [m|] eqn:M; [|discriminate].
  cbn [alloc] in H.
  remember {| nxt := S (nxt h); objs := (nxt h, OSet (dests_of h i)) :: objs h |} as h1 eqn:E1.
  assert (wf_heap h1) as W1 by (subst h1; exact (wf_alloc h _ W)).
  assert (nxt h1 = S (nxt h)) as N1 by (subst h1; reflexivity).
  assert (forall id, id <> nxt h -> get h1 id = get h id) as G1
    by (intros id Hid; subst h1; now apply (get_alloc_old' h (OSet (dests_of h i)))).
  match type of H with context[alloc_units ?hh _ _] => remember hh as h2 eqn:E2 end.
  assert (wf_heap h2) as W2 by (subst h2; exact (wf_alloc h1 _ W1)).
  assert (nxt h2 = S (S (nxt h))) as N2 by (subst h2; cbn; now rewrite N1).
  match type of E2 with _ = {| nxt := _; objs := (_, OMeta ?mm) :: _ |} => set (newmeta := mm) in * end.
  assert (get h2 (nxt h1) = Some (OMeta newmeta)) as GM by (subst h2; apply get_alloc_new').
  assert (forall id, id < nxt h -> get h2 id = get h id) as G2.
  { intros id Hid. subst h2. rewrite (get_alloc_old' h1) by lia. apply G1. lia. }
  match type of H with context[alloc_units h2 ?a ?b] => destruct (alloc_units h2 a b) as [h3 d] eqn:AU end.
  destruct (alloc_units_fresh _ _ _ _ _ W2 AU) as (W3 & L3 & F3 & G3).
  inversion H; subst h' r. clear H.
  assert (wf_heap {| nxt := S (nxt h3); objs := (nxt h3, ODict d) :: objs h3 |}) as W4 by exact (wf_alloc h3 (ODict d) W3).
  split; [exact W4|]. split.
  - intros id Hin. unfold owned in Hin. cbn [i_meta i_dict] in Hin.
    assert (meta_of {| nxt := S (nxt h3); objs := (nxt h3, ODict d) :: objs h3 |} {| i_meta := nxt h1; i_dict := nxt h3 |}
            = Some newmeta) as MM.
    { unfold meta_of. cbn [i_meta]. rewrite (get_alloc_old' h3) by lia. rewrite G3 by lia. now rewrite GM. }
    assert (dict_of {| nxt := S (nxt h3); objs := (nxt h3, ODict d) :: objs h3 |} {| i_meta := nxt h1; i_dict := nxt h3 |} = d) as DD.
    { unfold dict_of. cbn [i_dict]. now rewrite (get_alloc_new' h3). }
    rewrite MM, DD in Hin. subst newmeta. cbn [tm_dests app In nxt] in *.
    destruct Hin as [<-|[<-|[<-|Hin]]]; try lia.
    apply in_map_iff in Hin. destruct Hin as [[n cid] [<- Hin]]. cbn [snd]. specialize (F3 _ _ Hin). lia.
  - intros id Hid. cbn [nxt] in *. rewrite (get_alloc_old' h3) by lia. rewrite G3 by lia. now apply G2.
Qed.

(* ---------- separation is an invariant ---------- *)
(* a population of frames: pairwise disjoint ownership, everything below the allocation pointer *)
Definition separated (h : heap) (fs : list info) : Prop :=
  wf_heap h /\ Forall (bounded h) fs /\
  forall a b, In a fs -> In b fs -> a <> b -> forall id, In id (owned h b) -> ~ In id (owned h a).

(* adding a frame that owns only fresh objects (a pandas result, a re-wrapped table) to a separated
   population keeps it separated *)
Theorem separated_add h fs h' r :
  separated h fs -> wf_heap h' -> nxt h <= nxt h' ->
  (forall id, In id (owned h' r) -> nxt h <= id < nxt h') ->
  (forall id, id < nxt h -> get h' id = get h id) ->
  separated h' (r :: fs).
Proof.
  intros (W & B & S) W' L Fr G.
  assert (forall f, In f fs -> owned h' f = owned h f /\ observe h' f = observe h f) as Same.
  { intros f Hf. rewrite Forall_forall in B. destruct (observe_frame h h' f) as [A1 A2]; [|auto].
    intros id Hid. apply G. now apply (B f Hf). }
  split; [assumption|]. split.
  - constructor.
    + intros id Hid. specialize (Fr id Hid). lia.
    + rewrite Forall_forall in *. intros f Hf id Hid. rewrite (proj1 (Same f Hf)) in Hid. specialize (B f Hf id Hid). lia.
  - rewrite Forall_forall in B. intros a b [<-|Ha] [<-|Hb] Hne id Hid; try congruence.
    + rewrite (proj1 (Same b Hb)) in Hid. specialize (B b Hb id Hid). intro C. specialize (Fr id C). lia.
    + rewrite (proj1 (Same a Ha)). specialize (Fr id Hid). intro C. specialize (B a Ha id C). lia.
    + rewrite (proj1 (Same a Ha)). rewrite (proj1 (Same b Hb)) in Hid. now apply (S a b).
Qed.
