(* The file-system instance of the loader: it terminates (the universe is the finite set of paths of
   the file system), and with enough fuel the containment theorem speaks about a load that ended. *)
From Coq Require Import Lia.
From PdV.Model Require Import Path Load.
From PdV Require Import LoadProofs PathProofs.
Local Open Scope nat_scope.

Definition path_eq_dec : forall a b : path, {a = b} + {a <> b} :=
  list_eq_dec (list_eq_dec N.eq_dec).

Lemma xget_in x p n : xget x p = Some n -> In p (map fst x).
Proof.
  induction x as [|[q m] rest IH]; cbn [xget map fst]; [discriminate|].
  destruct (path_eqb q p) eqn:E.
  - intros _. left. now apply path_eqb_eq.
  - intro H. right. now apply IH.
Qed.

Section Fs.
Variable x : xfs.
Variable rfuel : nat.
Variable root : option path.
Variable matches : str -> bool.
Variable allow_include : bool.

Definition fs_universe : list path := nodup path_eq_dec (map fst x).

Lemma fs_resolve_in it i : fs_resolve x rfuel root it = Some i -> In i fs_universe.
Proof.
  unfold fs_resolve, fs_universe. intro H. apply nodup_In.
  destruct (resolve_item (to_fs x) rfuel root (snd it) (fst it)) as [p| |]; try discriminate.
  destruct (xget x p) as [[es|bs|t]|] eqn:G; try discriminate; inversion H; subst; eapply xget_in; eauto.
Qed.

(* fuel beyond the number of roots plus everything any location of the file system can enqueue *)
Definition fs_fuel_bound (roots : list str) : nat :=
  S (length roots + pending path path_eqb litem (fs_pushes x matches allow_include) fs_universe []).

Theorem fs_load_terminates raising fuel roots :
  fs_fuel_bound roots <= fuel ->
  fs_load x rfuel root matches allow_include raising fuel roots <> OutOfFuel.
Proof.
  intro H. unfold fs_load, load_roots.
  apply (load_terminates path path_eqb path_eqb_eq litem (fs_resolve x rfuel root) (fs_pushes x matches allow_include)
                         fblock (fs_blocks x allow_include) raising fs_universe (NoDup_nodup _ _) fs_resolve_in).
  rewrite rev_length, map_length. unfold fs_fuel_bound in H. lia.
Qed.
End Fs.

(* C17, total form: with that much fuel the load ends (completed, load error, or repeated location), and
   every location it opened, listed or read from is canonical and lies under the root *)
Theorem fs_load_contained_total x rfuel r matches allow_include raising fuel roots :
  fs_fuel_bound x matches allow_include roots <= fuel ->
  let res := fs_load x rfuel (Some r) matches allow_include raising fuel roots in
  res <> OutOfFuel /\
  Forall (ev_ok path fblock (fun p => is_prefix r p = true /\ canonical (to_fs x) p)) (evs_of path litem fblock res).
Proof.
  intro H. split; [now apply fs_load_terminates|apply fs_load_contained].
Qed.
