(* Proofs about M-Mark: a readable characterisation of [classify]. *)
From Coq Require Import Lia.
From PdV Require Import Marker.
Local Open Scope nat_scope.

Lemma has_In c s : has c s = true <-> In c s.
Proof.
  unfold has. rewrite existsb_exists. split.
  - intros [x [Hx E]]. apply N.eqb_eq in E. now subst.
  - intro H. exists c. split; [assumption|apply N.eqb_refl].
Qed.

Lemma has_false_not_In c s : has c s = false <-> ~ In c s.
Proof. rewrite <- has_In. destruct (has c s); split; congruence. Qed.

Lemma lead_spec (c : N) (s : str) :
  s = repeat c (fst (lead c s)) ++ snd (lead c s) /\
  (match snd (lead c s) with x :: _ => x <> c | [] => True end).
Proof.
  induction s as [|x t IH]; cbn.
  - split; auto.
  - destruct (N.eqb_spec x c) as [->|Hne].
    + destruct (lead c t) as [k r]. cbn in *. destruct IH as [IH1 Hr]. split; [now rewrite <- IH1|auto].
    + cbn. split; auto.
Qed.

Lemma lead_unique (c : N) k (r : str) k' r' :
  repeat c k ++ r = repeat c k' ++ r' ->
  (match r with x :: _ => x <> c | [] => True end) ->
  (match r' with x :: _ => x <> c | [] => True end) -> k = k' /\ r = r'.
Proof.
  revert k'; induction k as [|k IH]; intros k' E Hr Hr'; cbn in E.
  - destruct k' as [|k']; cbn in E; [auto|]. subst r. cbn in Hr. congruence.
  - destruct k' as [|k']; cbn in E.
    + subst r'. cbn in Hr'. congruence.
    + inversion E as [E']. destruct (IH _ E' Hr Hr') as [-> ->]. auto.
Qed.

(* alternative 2 of the regex: one to three leading colons and no colon afterwards *)
Theorem is_template_spec s :
  is_template s = true <->
  exists k r, 1 <= k <= 3 /\ s = repeat colon k ++ r /\ ~ In colon r.
Proof.
  unfold is_template. pose proof (lead_spec colon s) as H. destruct (lead colon s) as [k r]. cbn in H.
  destruct H as [-> Hr]. rewrite !andb_true_iff, !Nat.leb_le, negb_true_iff, has_false_not_In. split.
  - intros [[H1 H2] H3]. exists k, r. repeat split; auto.
  - intros (k' & r' & Hk & E & Hn).
    assert (k = k' /\ r = r') as [-> ->].
    { apply (lead_unique colon _ _ _ _ E Hr). destruct r'; [exact I|]. intros ->. apply Hn. now left. }
    repeat split; try lia. assumption.
Qed.

Lemma after_first_colon_spec s :
  match after_first_colon s with
  | Some r => exists a, s = a ++ colon :: r /\ ~ In colon a
  | None => ~ In colon s
  end.
Proof.
  induction s as [|c t IH]; cbn; [auto|].
  destruct (N.eqb_spec c colon) as [->|Hne].
  - exists []. split; auto.
  - destruct (after_first_colon t) as [r|].
    + destruct IH as [a [-> Hn]]. exists (c :: a). split; [reflexivity|].
      intros [H|H]; [congruence|contradiction].
    + intros [H|H]; [congruence|contradiction].
Qed.

(* alternative 3 of the regex: a non-empty colon-free head, a colon, then only whitespace *)
Theorem is_key_spec s :
  is_key s = true <->
  exists a r, a <> [] /\ ~ In colon a /\ s = a ++ colon :: r /\ forallb is_space r = true.
Proof.
  unfold is_key. destruct s as [|c t].
  - split; [discriminate|]. intros (a & r & Ha & _ & E & _). destruct a; [congruence|discriminate].
  - destruct (N.eqb_spec c colon) as [->|Hne].
    + split; [discriminate|]. intros (a & r & Ha & Hn & E & _).
      destruct a as [|x a]; [congruence|]. inversion E; subst. exfalso. apply Hn. now left.
    + pose proof (after_first_colon_spec t) as H. destruct (after_first_colon t) as [r|].
      * destruct H as [a [-> Hn]]. split.
        -- intro Hs. exists (c :: a), r. repeat split; auto; [discriminate|].
           intros [H|H]; [congruence|contradiction].
        -- intros (a' & r' & Ha & Hn' & E & Hs).
           assert (r = r') as ->; [|assumption].
           destruct a' as [|x a']; [congruence|]. inversion E as [[Ec E']]. clear E Ha.
           assert (~ In colon a') as Hn2 by (intro; apply Hn'; now right). clear Hn'.
           revert a' E' Hn2. induction a as [|y a IH]; intros a' E' Hn2.
           ++ destruct a' as [|z a']; cbn in E'; [congruence|]. inversion E'; subst. exfalso. apply Hn2. now left.
           ++ destruct a' as [|z a']; cbn in E'.
              ** inversion E'; subst. exfalso. apply Hn. now left.
              ** inversion E'; subst. apply (IH (fun H => Hn (or_intror H)) a'); auto.
                 intro; apply Hn2; now right.
      * split; [discriminate|]. intros (a & r & Ha & Hn & E & _). exfalso. apply H.
        destruct a as [|x a]; [congruence|]. inversion E; subst. apply in_or_app. right. now left.
Qed.

(* alternative 1 of the regex and the dispatch on the match groups: exactly two leading stars
   is a table, exactly three a directive; otherwise template, key or plain *)
Theorem classify_spec s :
  exists k r, s = repeat star k ++ r /\ (match r with x :: _ => x <> star | [] => True end) /\
  classify s = if Nat.eqb k 2 then MTable else if Nat.eqb k 3 then MDirective
               else if is_template s then MTemplate else if is_key s then MKey else MPlain.
Proof.
  unfold classify. pose proof (lead_spec star s) as H. destruct (lead star s) as [k r]. cbn in H.
  destruct H as [E Hr]. exists k, r. auto.
Qed.

Theorem classify_table s :
  classify s = MTable <->
  exists r, s = star :: star :: r /\ (match r with x :: _ => x <> star | [] => True end).
Proof.
  destruct (classify_spec s) as (k & r & E & Hr & ->). split.
  - destruct (Nat.eqb_spec k 2) as [->|Hk].
    + intros _. exists r. auto.
    + destruct (Nat.eqb k 3); [discriminate|]. destruct (is_template s); [discriminate|].
      destruct (is_key s); discriminate.
  - intros (r' & E' & Hr'). change (star :: star :: r') with (repeat star 2 ++ r') in E'. rewrite E in E'.
    destruct (lead_unique star _ _ _ _ E' Hr Hr') as [-> _]. reflexivity.
Qed.

Theorem classify_directive s :
  classify s = MDirective <->
  exists r, s = star :: star :: star :: r /\ (match r with x :: _ => x <> star | [] => True end).
Proof.
  destruct (classify_spec s) as (k & r & E & Hr & ->). split.
  - destruct (Nat.eqb_spec k 2) as [->|Hk]; [discriminate|].
    destruct (Nat.eqb_spec k 3) as [->|Hk3].
    + intros _. exists r. auto.
    + destruct (is_template s); [discriminate|]. destruct (is_key s); discriminate.
  - intros (r' & E' & Hr'). change (star :: star :: star :: r') with (repeat star 3 ++ r') in E'. rewrite E in E'.
    destruct (lead_unique star _ _ _ _ E' Hr Hr') as [-> _]. reflexivity.
Qed.
