(* C01, per table: what the table parser recovers from the lines write_csv wrote (both
   orientations), and how a written bundle is segmented.  The cell-level facts about float() and
   pd.to_datetime (H_float_roundtrip, H_dt_roundtrip) are hypotheses on the section variables
   parse_float / parse_dt, stated per written value in [wf_val]. *)
From Coq Require Import Lia.
From PdV Require Import ParseTable TextProofs ParseProofs LayoutProofs WriteProofs SegmentProofs.
From PdV Require Import BlockEndProofs.
From PdV.Model Require Import WriteCsv Segment Reader.
Local Open Scope nat_scope.

Section RT.
Variable parse_float : str -> option ftok.
Variable parse_dt : str -> dres.
Notation cell_parser := (cell_parser parse_float parse_dt).

(* the value a written cell stands for *)
Definition value_of (u : str) (v : wval) : value :=
  match v with
  | WText s => VText s
  | WBool b => VBool b
  | WNum f _ => VNum f
  | WDate d _ => VDate d
  | WMissing _ => if str_eqb u s_datetime then VNaT else VNum nan_tok
  end.

Definition num_ok (r : str) (f : ftok) : Prop :=
  is_marker (normalize r) = false /\ parse_float (normalize r) = Some f.
Definition dt_ok (r : str) (d : dtok) : Prop :=
  strip r = r /\ (exists c0 rest, r = c0 :: rest /\ is_digit c0 = true) /\
  is_marker (lower r) = false /\ parse_dt r = DOk d.

(* a value that may stand in a column of unit u (first = the table's first column) *)
Definition wf_val (u : str) (first : bool) (v : wval) : Prop :=
  if str_eqb u s_text then exists s, v = WText s /\ (first = true -> s <> [])
  else if str_eqb u s_onoff then exists b, v = WBool b
  else if str_eqb u s_datetime then (exists d r, v = WDate d r /\ dt_ok r d) \/ (exists r, v = WMissing r)
  else (exists f r, v = WNum f r /\ num_ok r f) \/ (exists r, v = WMissing r).

Lemma cell_roundtrip u first v :
  wf_val u first v -> cell_parser u (CStr (render u first v)) = CVal (value_of u v).
Proof.
  unfold wf_val, ParseTable.cell_parser, render.
  change u_text with s_text. change u_onoff with s_onoff.
  destruct (str_eqb u s_text) eqn:Et.
  - apply str_eqb_eq in Et. subst u. intros (s & -> & Hs). destruct s as [|c s'].
    + destruct first; [exfalso; now apply Hs|reflexivity].
    + reflexivity.
  - destruct (str_eqb u s_onoff) eqn:Eo.
    + apply str_eqb_eq in Eo. subst u. intros (b & ->). destruct b; reflexivity.
    + destruct (str_eqb u s_datetime) eqn:Ed.
      * intros [(d & r & -> & Hs & (c0 & rest & Hr & Hdig) & Hm & Hp)|(r & ->)]; cbn [negb andb value_of wval_str].
        -- unfold datetime_cell. rewrite Hs. rewrite Hr in *. rewrite Hdig. cbn [orb]. rewrite Hm, Hp. reflexivity.
        -- rewrite Ed. reflexivity.
      * intros [(f & r & -> & Hm & Hp)|(r & ->)]; cbn [negb andb value_of wval_str].
        -- unfold float_cell. rewrite Hm, Hp. reflexivity.
        -- rewrite Ed. reflexivity.
Qed.

(* ---------- the cells read_csv makes of written lines ---------- *)
Definition cells_of_lines (sep : N) (ls : list str) : list row :=
  map (fun l => map CStr (split_on sep l)) ls.

Definition dcol : wcol := {| wc_name := []; wc_unit := []; wc_vals := [] |}.
Definition dval : wval := WText [].

Section Table.
Variable sep : N.
Variable nm : str.
Variable ds : list str.
Variable cols : list wcol.
Variable m : nat.

Notation n := (length cols).
Definition unit_at (j : nat) : str := wc_unit (nth j cols dcol).
Definition val_at (j i : nat) : wval := nth i (wc_vals (nth j cols dcol)) dval.
Definition cellat (j i : nat) : cell := CStr (render (unit_at j) (Nat.eqb j 0) (val_at j i)).

Hypothesis H_rect : Forall (fun c => length (wc_vals c) = m) cols.
Hypothesis H_cols : cols <> [].
(* the separator occurs nowhere in what is written *)
Hypothesis H_sep_name : has sep (stars ++ nm) = false.
Hypothesis H_sep_dests : has sep (join [32%N] ds) = false.
Hypothesis H_sep_names : forallb (fun c => negb (has sep (wc_name c))) cols = true.
Hypothesis H_sep_units : forallb (fun c => negb (has sep (wc_unit c))) cols = true.
Hypothesis H_sep_cells : forall j i, j < n -> i < m -> has sep (render (unit_at j) (Nat.eqb j 0) (val_at j i)) = false.

Lemma rest_cells rest i :
  Forall (fun c => i < length (wc_vals c)) rest ->
  flat_map (fun c => match nth_error (wc_vals c) i with Some v => [render (wc_unit c) false v] | None => [] end) rest
  = map (fun c => render (wc_unit c) false (nth i (wc_vals c) dval)) rest.
Proof.
  induction rest as [|c rest IH]; intro H; cbn; [reflexivity|].
  inversion H as [|? ? Hc H']; subst. rewrite (nth_error_nth' _ dval Hc). cbn. now rewrite IH.
Qed.

Lemma row_cells_spec i : i < m ->
  row_cells cols i = map (fun j => render (unit_at j) (Nat.eqb j 0) (val_at j i)) (seq 0 n).
Proof.
  intro Hi. unfold row_cells, unit_at, val_at. destruct cols as [|c0 rest] eqn:E; [reflexivity|].
  inversion H_rect as [|? ? H0 Hrest]; subst.
  rewrite (nth_error_nth' _ dval) by lia. cbn [length seq map app nth Nat.eqb]. f_equal.
  rewrite rest_cells by (eapply Forall_impl; [|exact Hrest]; cbn; intros a Ha; lia).
  rewrite <- seq_shift, map_map. cbn [nth Nat.eqb].
  rewrite <- (seq_nth_map rest dcol) at 1. rewrite map_map. reflexivity.
Qed.

Lemma n_rows_m : n_rows cols = m.
Proof. unfold n_rows. destruct cols; [congruence|]. now inversion H_rect. Qed.

Lemma split_line0 : split_on sep (stars ++ nm ++ [sep]) = [stars ++ nm; []].
Proof.
  rewrite app_assoc. change ((stars ++ nm) ++ [sep]) with ((stars ++ nm) ++ sep :: []).
  now rewrite split_app_sep.
Qed.

Lemma names_nonempty : map wc_name cols <> [].
Proof. destruct cols; [congruence|discriminate]. Qed.
Lemma units_nonempty : map wc_unit cols <> [].
Proof. destruct cols; [congruence|discriminate]. Qed.

Lemma forallb_map {A B} (f : B -> bool) (g : A -> B) l : forallb f (map g l) = forallb (fun x => f (g x)) l.
Proof. induction l; cbn; congruence. Qed.

Theorem rowwise_cells : 0 < m ->
  cells_of_lines sep (table_lines sep {| w_name := nm; w_dests := ds; w_transposed := false; w_cols := cols |})
  = rowwise_grid cellat n m (stars ++ nm) [CStr []] (CStr (join [32%N] ds)) []
                 (map wc_name cols) (map wc_unit cols) [] [] (fun _ => []).
Proof.
  intro Hm. unfold table_lines, rowwise_grid, cells_of_lines. cbn [w_transposed w_name w_dests w_cols map].
  rewrite n_rows_m. destruct m as [|m'] eqn:Em; [lia|]. rewrite <- Em in *.
  rewrite split_line0. rewrite (split_nosep _ _ H_sep_dests).
  rewrite split_join by (try exact names_nonempty; now rewrite forallb_map).
  rewrite split_join by (try exact units_nonempty; now rewrite forallb_map).
  rewrite !app_nil_r. cbn [map]. do 4 f_equal.
  rewrite map_map. apply map_ext_in. intros i Hi. apply in_seq in Hi.
  rewrite app_nil_r. unfold row_of, cellat. rewrite row_cells_spec by lia.
  rewrite split_join.
  - now rewrite map_map.
  - destruct cols; [congruence|discriminate].
  - rewrite forallb_map. apply forallb_forall. intros j Hj. apply in_seq in Hj. rewrite H_sep_cells by lia. reflexivity.
Qed.

(* ---- the table read back ---- *)
Variable cfg : fixer_cfg.
Variable fx : fixer_st.
Hypothesis H_fx : fx_fixes fx = 0.
Hypothesis H_name : drop_last_star nm = (nm, false).            (* the name does not end in a star *)
Hypothesis H_names_nb : Forall (fun c => is_blank (wc_name c) = false) cols.
Hypothesis H_names_strip : map strip (map wc_name cols) = map wc_name cols.
Hypothesis H_units_strip : map strip (map wc_unit cols) = map wc_unit cols.
Hypothesis H_names_nodup : NoDup (map wc_name cols).
Hypothesis H_wf : forall j i, j < n -> i < m -> wf_val (unit_at j) (Nat.eqb j 0) (val_at j i).

Definition read_back (transposed : bool) : ptable :=
  {| p_name := nm; p_transposed := transposed; p_dests := destinations (CStr (join [32%N] ds));
     p_names := map wc_name cols; p_units := map wc_unit cols;
     p_cols := map (fun c => map (value_of (wc_unit c)) (wc_vals c)) cols; p_fx := fx |}.

Lemma nth_units j : nth j (units (map wc_unit cols)) [] = unit_at j.
Proof. unfold units, unit_at. rewrite H_units_strip. change (@nil N) with (wc_unit dcol). apply map_nth. Qed.

Lemma names_ne : Forall (fun c : str => c <> []) (names (map wc_name cols)).
Proof.
  unfold names. rewrite H_names_strip. apply Forall_forall. intros x Hx. apply in_map_iff in Hx as (c & <- & Hc).
  rewrite Forall_forall in H_names_nb. specialize (H_names_nb c Hc). intro E. rewrite E in H_names_nb. discriminate.
Qed.

Lemma cells_parse j i : j < n -> i < m ->
  cell_parser (nth j (units (map wc_unit cols)) []) (cellat j i) = CVal (value_of (unit_at j) (val_at j i)).
Proof. intros Hj Hi. rewrite nth_units. unfold cellat. apply cell_roundtrip. now apply H_wf. Qed.

Lemma parsed_is_written :
  parsed_cols parse_float parse_dt cellat n m (map wc_unit cols)
  = map (fun c => map (value_of (wc_unit c)) (wc_vals c)) cols.
Proof.
  unfold parsed_cols.
  transitivity (map (fun c => map (value_of (wc_unit c)) (wc_vals c)) (map (fun j => nth j cols dcol) (seq 0 n)));
    [|now rewrite seq_nth_map].
  rewrite map_map. apply map_ext_in. intros j Hj. apply in_seq in Hj. unfold col_of. rewrite map_map.
  assert (length (wc_vals (nth j cols dcol)) = m) as Hl.
  { rewrite Forall_forall in H_rect. apply H_rect. apply nth_In. lia. }
  transitivity (map (value_of (wc_unit (nth j cols dcol)))
                    (map (fun i => nth i (wc_vals (nth j cols dcol)) dval) (seq 0 (length (wc_vals (nth j cols dcol))))));
    [|now rewrite seq_nth_map].
  rewrite map_map, Hl. apply map_ext_in. intros i Hi. apply in_seq in Hi. unfold val_of. rewrite cells_parse by lia. reflexivity.
Qed.

Lemma expected_is_read_back tr :
  expected parse_float parse_dt cellat n m nm (CStr (join [32%N] ds)) (map wc_name cols) (map wc_unit cols) fx tr
  = read_back tr.
Proof.
  unfold expected, read_back. rewrite parsed_is_written. unfold names, units.
  rewrite H_names_strip, H_units_strip. reflexivity.
Qed.

Theorem rowwise_roundtrip : 0 < m ->
  parse_table parse_float parse_dt cfg
    (cells_of_lines sep (table_lines sep {| w_name := nm; w_dests := ds; w_transposed := false; w_cols := cols |})) fx
  = Ok (read_back false).
Proof.
  intro Hm. rewrite rowwise_cells by assumption.
  rewrite (rowwise_spec parse_float parse_dt cfg cellat n m (stars ++ nm) nm).
  - now rewrite expected_is_read_back.
  - now rewrite map_length.
  - now rewrite map_length.
  - apply Forall_forall. intros w Hw. apply in_map_iff in Hw as (c & <- & Hc).
    rewrite Forall_forall in H_names_nb. now apply H_names_nb.
  - now left.
  - unfold names. now rewrite H_names_strip.
  - exact names_ne.
  - exact H_fx.
  - intros j i Hj Hi. eexists. now apply cells_parse.
  - exact H_name.
Qed.

(* ---- transposed ---- *)
Definition col_line (first : bool) (c : wcol) : str :=
  wc_name c ++ [sep] ++ wc_unit c ++ [sep] ++ join [sep] (map (render (wc_unit c) first) (wc_vals c)).

Lemma col_line_join first c : wc_vals c <> [] ->
  col_line first c = join [sep] (wc_name c :: wc_unit c :: map (render (wc_unit c) first) (wc_vals c)).
Proof.
  intro H. unfold col_line. destruct (wc_vals c) as [|v vs]; [congruence|]. cbn [map].
  remember (render (wc_unit c) first v :: map (render (wc_unit c) first) vs) as l. 
  cbn [join]. destruct l; [discriminate|]. reflexivity.
Qed.

Lemma col_cells j : j < n -> 0 < m ->
  map CStr (split_on sep (col_line (Nat.eqb j 0) (nth j cols dcol)))
  = tline cellat m (map wc_name cols) (map wc_unit cols) (fun _ => []) j.
Proof.
  intros Hj Hm. set (c := nth j cols dcol).
  assert (length (wc_vals c) = m) as Hl by (rewrite Forall_forall in H_rect; apply H_rect; apply nth_In; lia).
  assert (In c cols) as Hin by (apply nth_In; lia).
  rewrite col_line_join by (destruct (wc_vals c); [cbn in Hl; lia|discriminate]).
  rewrite split_join; [|discriminate|].
  - unfold tline. cbn [map]. f_equal; [|f_equal].
    + f_equal. change (@nil N) with (wc_name dcol). now rewrite map_nth.
    + f_equal. change (@nil N) with (wc_unit dcol). now rewrite map_nth.
    + rewrite app_nil_r. unfold col_of, cellat, unit_at, val_at. fold c. rewrite <- Hl.
      rewrite <- (map_map (fun i => nth i (wc_vals c) dval) (fun v => CStr (render (wc_unit c) (Nat.eqb j 0) v))).
      rewrite seq_nth_map. now rewrite map_map.
  - cbn [forallb]. rewrite forallb_forall in H_sep_names, H_sep_units.
    rewrite (H_sep_names c Hin), (H_sep_units c Hin). cbn [andb]. rewrite forallb_map.
    apply forallb_forall. intros v Hv. destruct (In_nth _ _ dval Hv) as (i & Hi & <-).
    pose proof (H_sep_cells j i Hj ltac:(lia)) as H. unfold unit_at, val_at in H. fold c in H. now rewrite H.
Qed.

Lemma has_app c a b : has c (a ++ b) = has c a || has c b.
Proof. unfold has. apply existsb_app. Qed.

Lemma col_lines_seq :
  (match cols with
   | [] => [[]]
   | c0 :: rest => col_line true c0 :: map (col_line false) rest
   end) = map (fun j => col_line (Nat.eqb j 0) (nth j cols dcol)) (seq 0 n).
Proof.
  destruct cols as [|c0 rest]; [congruence|]. cbn [length seq map nth Nat.eqb]. f_equal.
  rewrite <- seq_shift, map_map. cbn [nth Nat.eqb].
  rewrite <- (seq_nth_map rest dcol) at 1. now rewrite map_map.
Qed.

Theorem transposed_cells : 0 < m ->
  cells_of_lines sep (table_lines sep {| w_name := nm; w_dests := ds; w_transposed := true; w_cols := cols |})
  = transposed_grid cellat n m (stars ++ nm ++ [42%N]) [CStr []] (CStr (join [32%N] ds)) []
                    (map wc_name cols) (map wc_unit cols) (fun _ => []).
Proof.
  intro Hm. unfold table_lines, transposed_grid, cells_of_lines. cbn [w_transposed w_name w_dests w_cols map].
  assert (split_on sep (stars ++ nm ++ [42%N] ++ [sep]) = [stars ++ nm ++ [42%N]; []]) as ->.
  { replace (stars ++ nm ++ [42%N] ++ [sep]) with ((stars ++ nm ++ [42%N]) ++ sep :: []) by (now rewrite <- !app_assoc).
    rewrite split_app_sep; [reflexivity|]. rewrite app_assoc, has_app, H_sep_name. cbn.
    rewrite has_app in H_sep_name. apply orb_false_iff in H_sep_name as [Hs _]. cbn in Hs.
    apply orb_false_iff in Hs as [Hs _]. now rewrite Hs. }
  rewrite (split_nosep _ _ H_sep_dests). cbn [map]. do 2 f_equal.
  change (fun c => wc_name c ++ [sep] ++ wc_unit c ++ [sep] ++ join [sep] (map (render (wc_unit c) false) (wc_vals c)))
    with (col_line false).
  assert (forall c0, wc_name c0 ++ [sep] ++ wc_unit c0 ++ [sep] ++ join [sep] (map (render (wc_unit c0) true) (wc_vals c0))
                     = col_line true c0) as E by reflexivity.
  destruct cols as [|c0 rest] eqn:Ec; [congruence|]. rewrite E. rewrite <- Ec in *.
  pose proof col_lines_seq as L. rewrite Ec in L at 1.
  transitivity (map (fun l => map CStr (split_on sep l))
                    (map (fun j => col_line (Nat.eqb j 0) (nth j cols dcol)) (seq 0 n))); [f_equal; exact L|].
  rewrite map_map.
  apply map_ext_in. intros j Hj. apply in_seq in Hj. apply col_cells; lia.
Qed.

Hypothesis H_first_nonblank : forall i, i < m -> cell_blank (cellat 0 i) = false.

Theorem transposed_roundtrip : 0 < m ->
  parse_table parse_float parse_dt cfg
    (cells_of_lines sep (table_lines sep {| w_name := nm; w_dests := ds; w_transposed := true; w_cols := cols |})) fx
  = Ok (read_back true).
Proof.
  intro Hm. rewrite transposed_cells by assumption.
  assert (0 < n) as Hn by (destruct cols; [congruence|cbn; lia]).
  rewrite (transposed_spec parse_float parse_dt cfg cellat n m (stars ++ nm ++ [42%N]) nm _ _ _ _ _ (fun _ => [])).
  - now rewrite expected_is_read_back.
  - now rewrite map_length.
  - now rewrite map_length.
  - apply Forall_forall. intros w Hw. apply in_map_iff in Hw as (c & <- & Hc).
    rewrite Forall_forall in H_names_nb. now apply H_names_nb.
  - unfold names. now rewrite H_names_strip.
  - exact names_ne.
  - exact H_fx.
  - intros j i Hj Hi. eexists. now apply cells_parse.
  - cbn [stars app skipn]. unfold drop_last_star. rewrite rev_app_distr. cbn [rev app]. now rewrite rev_involutive.
  - exact Hn.
  - intro j. constructor.
  - intros i Hi. exists 0. split; [exact Hn|now apply H_first_nonblank].
Qed.
End Table.
End RT.

(* ---------- a written bundle is segmented into exactly its tables ---------- *)
Section Bundle.
Variable R : Type.
Variable kind_of : R -> kind.
Variable b : R.                                   (* the empty line that ends each written block *)
Hypothesis H_b : kind_of b = KBlank0.
Notation step := (Segment.step kind_of).

Definition chunk_rows (ch : R * list R) : list R := fst ch :: snd ch ++ [b].
Definition chunk_ok (ch : R * list R) : Prop := kind_of (fst ch) = KTable /\ Forall (is_plain R kind_of) (snd ch).

Fixpoint blocks_from (i : nat) (chunks : list (R * list R)) : list (block R) :=
  match chunks with
  | [] => []
  | ch :: rest => (BTable, i, fst ch :: snd ch) :: blocks_from (i + 2 + length (snd ch)) rest
  end.

Lemma chunk_fold (s : st R) i ch :
  grid s = [] -> chunk_ok ch ->
  fold_left step (number i (chunk_rows ch)) s
  = {| cur := BBlank; grid := []; first := S i + length (snd ch); out := (BTable, i, fst ch :: snd ch) :: out s |}.
Proof.
  intros Hg [Hr Hbody]. destruct ch as [r body]. unfold chunk_rows. cbn [fst snd] in *.
  cbn [number fold_left]. rewrite number_app, fold_left_app.
  assert (Segment.step kind_of s (i, r) = {| cur := BTable; grid := [r]; first := i; out := out s |}) as ->.
  { unfold Segment.step. rewrite Hr. unfold emit. now rewrite Hg. }
  rewrite (plain_fold R kind_of body _ _ Hbody). cbn [cur grid first out number fold_left].
  unfold Segment.step. rewrite H_b. cbn [cur btype_eqb]. unfold emit. cbn [grid cur first out].
  destruct (rev body ++ [r]) eqn:E.
  - apply app_eq_nil in E. destruct E; discriminate.
  - rewrite <- E. rewrite rev_app_distr, rev_involutive. reflexivity.
Qed.

Lemma chunks_fold chunks : forall (s : st R) i,
  grid s = [] -> Forall chunk_ok chunks ->
  let s' := fold_left step (number i (flat_map chunk_rows chunks)) s in
  grid s' = [] /\ out s' = rev (blocks_from i chunks) ++ out s.
Proof.
  induction chunks as [|ch rest IH]; intros s i Hg Hok; cbn [flat_map number fold_left blocks_from rev app].
  - split; [assumption|reflexivity].
  - inversion Hok as [|? ? Hch Hrest]; subst.
    rewrite number_app, fold_left_app. rewrite chunk_fold by assumption.
    set (s1 := {| cur := BBlank; grid := []; first := S i + length (snd ch); out := (BTable, i, fst ch :: snd ch) :: out s |}).
    destruct (IH s1 (i + length (chunk_rows ch)) eq_refl Hrest) as [G O]. split; [exact G|].
    rewrite O. cbn [out s1]. unfold chunk_rows. cbn [length]. rewrite app_length. cbn [length].
    replace (i + S (length (snd ch) + 1)) with (i + 2 + length (snd ch)) by lia.
    rewrite <- app_assoc. reflexivity.
Qed.

Theorem segment_bundle chunks :
  Forall chunk_ok chunks -> segment kind_of (flat_map chunk_rows chunks) = blocks_from 0 chunks.
Proof.
  intro H. unfold segment, run. destruct (chunks_fold chunks init 0 eq_refl H) as [G O].
  unfold emit. rewrite G, O. cbn [out init]. rewrite app_nil_r. apply rev_involutive.
Qed.
End Bundle.

(* ---------- read_csv (write_csv bundle), in the reader model ---------- *)
Section Whole.
Variable parse_float : str -> option ftok.
Variable parse_dt : str -> dres.
Variable cfg : fixer_cfg.
Variable raising : bool.
Variable sep : N.

(* a well-formed table with at least one row, written with an admissible separator *)
Definition wf_table (t : wtable) : Prop :=
  let cols := w_cols t in
  exists m, 0 < m /\
    Forall (fun c => length (wc_vals c) = m) cols /\ cols <> [] /\
    has sep (stars ++ w_name t) = false /\ has sep (join [32%N] (w_dests t)) = false /\
    forallb (fun c => negb (has sep (wc_name c))) cols = true /\
    forallb (fun c => negb (has sep (wc_unit c))) cols = true /\
    (forall j i, j < length cols -> i < m ->
       has sep (render (unit_at cols j) (Nat.eqb j 0) (val_at cols j i)) = false) /\
    drop_last_star (w_name t) = (w_name t, false) /\
    Forall (fun c => is_blank (wc_name c) = false) cols /\
    map strip (map wc_name cols) = map wc_name cols /\
    map strip (map wc_unit cols) = map wc_unit cols /\
    NoDup (map wc_name cols) /\
    (forall j i, j < length cols -> i < m ->
       wf_val parse_float parse_dt (unit_at cols j) (Nat.eqb j 0) (val_at cols j i)) /\
    (forall i, i < m -> cell_blank (cellat cols 0 i) = false).

Definition table_read_back (t : wtable) : ptable :=
  read_back (w_name t) (w_dests t) (w_cols t) fx_init (w_transposed t).

Theorem table_roundtrip t :
  wf_table t ->
  parse_table parse_float parse_dt cfg (cells_of_lines sep (table_lines sep t)) fx_init = Ok (table_read_back t).
Proof.
  destruct t as [nm ds tr cols]. unfold wf_table, table_read_back. cbn [w_name w_dests w_transposed w_cols].
  intros (m & Hm & H1 & H2 & H3 & H4 & H5 & H6 & H7 & H8 & H9 & H10 & H11 & H12 & H13 & H14).
  destruct tr.
  - now apply (transposed_roundtrip parse_float parse_dt sep nm ds cols m).
  - now apply (rowwise_roundtrip parse_float parse_dt sep nm ds cols m).
Qed.

(* the first line opens a table block; no later line starts with a blank cell or a marker *)
Definition plain_lines (t : wtable) : Prop :=
  match cells_of_lines sep (table_lines sep t) with
  | r :: body => row_kind r = KTable /\ Forall (is_plain row row_kind) body
  | [] => False
  end.

Definition chunk_of (t : wtable) : row * list row :=
  match cells_of_lines sep (table_lines sep t) with r :: body => (r, body) | [] => ([], []) end.

Definition blank_row : row := [CStr []].

Lemma cells_app a b : cells_of_lines sep (a ++ b) = cells_of_lines sep a ++ cells_of_lines sep b.
Proof. unfold cells_of_lines. apply map_app. Qed.

Lemma chunk_rows_of t : plain_lines t ->
  cells_of_lines sep (table_lines sep t ++ [[]]) = chunk_rows row blank_row (chunk_of t).
Proof.
  unfold plain_lines, chunk_of. rewrite cells_app. destruct (cells_of_lines sep (table_lines sep t)); [contradiction|].
  intros _. reflexivity.
Qed.

Lemma bundle_rows ts : Forall plain_lines ts ->
  cells_of_lines sep (flat_map (fun t => table_lines sep t ++ [[]]) ts)
  = flat_map (chunk_rows row blank_row) (map chunk_of ts).
Proof.
  induction ts as [|t rest IH]; intro H; [reflexivity|]. inversion H as [|? ? Ht Hrest]; subst.
  cbn [flat_map map]. rewrite cells_app, chunk_rows_of by assumption. now rewrite IH.
Qed.

Fixpoint events_from (i : nat) (ts : list wtable) : list event :=
  match ts with
  | [] => []
  | t :: rest => EBlock BTable i (CtTable (table_read_back t)) :: events_from (i + 1 + length (table_lines sep t)) rest
  end.

Lemma deliver_bundle ts : forall i,
  Forall wf_table ts -> Forall plain_lines ts ->
  deliver parse_float parse_dt cfg FPd None raising (blocks_from row i (map chunk_of ts)) [] = (events_from i ts, FDone).
Proof.
  induction ts as [|t rest IH]; intros i Hwf Hpl; [reflexivity|].
  inversion Hwf as [|? ? Hw Hwf']; inversion Hpl as [|? ? Hp Hpl']; subst.
  cbn [map blocks_from deliver events_from].
  assert (fst (chunk_of t) :: snd (chunk_of t) = cells_of_lines sep (table_lines sep t)) as E.
  { unfold chunk_of. unfold plain_lines in Hp. destruct (cells_of_lines sep (table_lines sep t)); [contradiction|reflexivity]. }
  unfold handle, accepted. cbn [negb]. rewrite E, (table_roundtrip t Hw).
  assert (p_fx (table_read_back t) = fx_init) as -> by reflexivity. cbn [fx_messages fx_init app].
  assert (i + 2 + length (snd (chunk_of t)) = i + 1 + length (table_lines sep t)) as ->.
  { apply (f_equal (@length _)) in E. unfold cells_of_lines in E. rewrite map_length in E. cbn [length] in E. lia. }
  now rewrite IH.
Qed.

(* C01 in the model: reading what was written delivers exactly the written tables, in order *)
Theorem bundle_roundtrip ts :
  Forall wf_table ts -> Forall plain_lines ts ->
  forallb (fun t => forallb no_lf (table_lines sep t)) ts = true ->
  read parse_float parse_dt cfg FPd None raising (cells_of_lines sep (lines (write_csv sep ts)))
  = (events_from 0 ts, FDone).
Proof.
  intros Hwf Hpl Hlf. rewrite lines_of_bundle by assumption. rewrite bundle_rows by assumption.
  unfold read, segment_rows. rewrite (segment_bundle row row_kind blank_row eq_refl).
  - now apply deliver_bundle.
  - apply Forall_forall. intros ch Hch. apply in_map_iff in Hch as (t & <- & Ht).
    rewrite Forall_forall in Hpl. specialize (Hpl t Ht). unfold plain_lines, chunk_of, chunk_ok in *.
    destruct (cells_of_lines sep (table_lines sep t)); [contradiction|exact Hpl].
Qed.
End Whole.
