(* Proofs about M-Read (Model/Reader.v): no internal crash, filter exactness, form agreement,
   isolation between blocks. *)
From Coq Require Import Lia.
From PdV Require Import Reader Json TextProofs ParseProofs SegmentProofs.
Local Open Scope nat_scope.

Section P.
Variable parse_float : str -> option ftok.
Variable parse_dt : str -> dres.
Variable cfg : fixer_cfg.
Notation parse_table := (parse_table parse_float parse_dt cfg).

Hypothesis parse_dt_total : forall s, parse_dt s <> DCrash.

(* a TABLE block as the segmentation delivers it: first row starts with a text cell, no row empty *)
Definition table_shape (cells : list row) : Prop :=
  exists c00 x rest, cells = (CStr c00 :: x) :: rest /\ Forall (fun r => r <> []) rest.

(* the number of cells that can become column names *)
Definition ncolcells (cells : list row) : nat :=
  match cells with
  | (CStr c00 :: _) :: _ :: r2 :: rest2 =>
      if snd (drop_last_star (skipn 2 c00)) then S (length rest2) else length r2
  | _ => 0
  end.

Theorem parse_table_no_crash cells fx :
  table_shape cells -> ncolcells cells < 1000 -> parse_table cells fx <> Crash.
Proof.
  intros (c00 & x & rest & -> & NE) L. unfold ParseTable.parse_table, ncolcells, row in *.
  destruct (drop_last_star (skipn 2 c00)) as [name transposed] eqn:D. cbn [snd] in L.
  destruct rest as [|r1 rest1]; [discriminate|].
  inversion NE as [|? ? Hr1 NE1]; subst. destruct r1 as [|d0 r1']; [congruence|].
  destruct rest1 as [|r2 rest2]; [discriminate|].
  set (raw_names := if transposed then _ else _).
  assert (forall raw, raw_names = Some raw -> length raw < 1000) as Lraw.
  { intros raw H. subst raw_names. destruct transposed; cbn iota in L.
    - apply (column_names_length parse_float parse_dt) in H. rewrite map_length in H. cbn [length] in H. lia.
    - destruct rest2; [discriminate|]. apply (column_names_length parse_float parse_dt) in H. lia. }
  destruct raw_names as [raw|] eqn:ER; [|discriminate].
  specialize (Lraw raw eq_refl).
  destruct (fix_duplicates_spec parse_float parse_dt raw 0 [] fx (NoDup_nil _) ltac:(cbn; lia)) as (names & fx1 & E & _).
  rewrite E.
  match goal with |- match ?u with _ => _ end <> _ => destruct u as [ucs|]; [|discriminate] end.
  destruct (strip_units ucs) as [units|]; [|discriminate].
  match goal with |- (let (rows, fx2) := ?f in _) <> _ => destruct f as [rows fx2] end.
  pose proof (parse_columns_no_crash parse_float parse_dt cfg units (columns_of (length names) rows) fx2 parse_dt_total) as NC.
  destruct (parse_columns parse_float parse_dt cfg units (columns_of (length names) rows) fx2) as [[cols fx3]|m|];
    [|discriminate|congruence].
  destruct (Nat.ltb 0 (fx_fixes fx3) && stop_on_errors cfg); discriminate.
Qed.

(* ---------------- the block reader ---------------- *)
Variable fm : form.
Variable raising : bool.
Notation handle := (handle parse_float parse_dt cfg fm).
Notation deliver := (deliver parse_float parse_dt cfg fm).
Notation read := (read parse_float parse_dt cfg fm).

Definition block_shape (b : block row) : Prop :=
  let '(t, i, rows) := b in
  match t with BTable => table_shape rows /\ ncolcells rows < 1000 | _ => True end.

Lemma handle_no_crash filter t rows fx :
  block_shape (t, 0, rows) -> handle filter t rows fx <> Crash.
Proof.
  intro S. unfold Reader.handle. destruct (negb (accepted filter t rows)); [discriminate|].
  destruct t; try discriminate. cbn in S. destruct S as [S1 S2].
  pose proof (parse_table_no_crash rows fx S1 S2) as NC.
  destruct fm; try discriminate; destruct (parse_table rows fx); congruence.
Qed.

Lemma deliver_no_crash filter bs : forall hist,
  Forall block_shape bs -> snd (deliver filter raising bs hist) <> FCrash.
Proof.
  induction bs as [|[[t i] rows] rest IH]; intros hist F; cbn; [discriminate|].
  inversion F as [|? ? Hb F']; subst.
  pose proof (handle_no_crash filter t rows fx_init Hb) as NC.
  destruct (handle filter t rows fx_init) as [[[c|] fx']|m|]; try congruence.
  - specialize (IH (hist ++ fx_messages fx') F').
    destruct (deliver filter raising rest (hist ++ fx_messages fx')). cbn in *. assumption.
  - apply IH. assumption.
  - destruct raising; [discriminate|]. specialize (IH (hist ++ m) F').
    destruct (deliver filter false rest (hist ++ m)). cbn in *. assumption.
Qed.

(* rows kept in blocks are never empty, and a TABLE block starts with a table-marker text cell *)
Lemma row_kind_nonempty r : row_kind r <> KBlank0 -> r <> [].
Proof. intros H ->. apply H. reflexivity. Qed.

Lemma row_kind_table r : row_kind r = KTable -> exists s x, r = CStr s :: x.
Proof.
  destruct r as [|c x]; cbn; [discriminate|]. destruct (cell_blank c).
  - destruct x; discriminate.
  - destruct c; try discriminate. eauto.
Qed.

(* every block the segmentation cuts has the shape the handlers rely on *)
Lemma segment_block_shape rows :
  Forall (fun b : block row => ncolcells (snd b) < 1000) (segment_rows rows) ->
  Forall block_shape (segment_rows rows).
Proof.
  intro H. rewrite Forall_forall in *. intros [[t i] g] Hb. specialize (H _ Hb). cbn in H.
  unfold block_shape. destruct t; try exact I. split; [|exact H].
  destruct (origin_row row_kind rows _ _ _ Hb) as [(r0 & Hn & Ht & Hg) _]. cbn in Ht.
  destruct Hg as [[g' ->]|[C _]]; [|discriminate].
  destruct (row_kind_table _ Ht) as (s & x & ->). exists s, x, g'. split; [reflexivity|].
  rewrite Forall_forall. intros r Hr. apply row_kind_nonempty.
  apply (block_rows_kept row_kind rows BTable i (( CStr s :: x) :: g') r Hb). now right.
Qed.

(* C12: for every sequence of rows, every tracker mode, every output form and every filter, the
   reader ends normally or with a located InputError - never with another exception *)
Theorem read_no_crash filter rows :
  Forall (fun b : block row => ncolcells (snd b) < 1000) (segment_rows rows) ->
  snd (read filter raising rows) <> FCrash.
Proof. intro H. unfold Reader.read. apply deliver_no_crash. now apply segment_block_shape. Qed.

(* ---------------- C11 / C12 / C13: structure of the event stream ---------------- *)
Lemma handle_verr_table filter t rows fx m : handle filter t rows fx = VErr m -> t = BTable.
Proof.
  unfold Reader.handle. destruct (negb (accepted filter t rows)); [discriminate|].
  destruct t; try discriminate. reflexivity.
Qed.

Lemma handle_rejected filter t rows fx :
  accepted filter t rows = false -> handle filter t rows fx = Ok (None, fx).
Proof. intro H. unfold Reader.handle. now rewrite H. Qed.

Lemma handle_accepted filter t rows fx :
  accepted filter t rows = true -> handle filter t rows fx = handle None t rows fx.
Proof. intro H. unfold Reader.handle. rewrite H. reflexivity. Qed.

(* C11: reading with a filter is reading the accepted blocks only; what a rejected block
   contains is never looked at *)
Theorem deliver_filter f bs : forall hist,
  deliver (Some f) raising bs hist =
  deliver None raising (filter (fun b : block row => let '(t, i, rows) := b in accepted (Some f) t rows) bs) hist.
Proof.
  induction bs as [|[[t i] rows] rest IH]; intro hist; cbn [Reader.deliver filter]; [reflexivity|].
  destruct (accepted (Some f) t rows) eqn:A.
  - cbn [Reader.deliver]. rewrite (handle_accepted _ _ _ _ A).
    destruct (handle None t rows fx_init) as [[[c|] fx']|m|]; try reflexivity.
    + now rewrite IH.
    + apply IH.
    + destruct raising; [reflexivity|]. now rewrite IH.
  - rewrite (handle_rejected _ _ _ _ A). cbn [fx_messages fx_init]. rewrite app_nil_r. apply IH.
Qed.

(* the header of a parsed table comes from the first two rows: the name is the first cell minus
   the leading two stars and minus one trailing star, which is the transposed flag; the destinations
   are the first cell of the second row, stringified, stripped and split on single spaces *)
Theorem parse_table_header rows fx p :
  parse_table rows fx = Ok p ->
  exists c00 x d0 y rest,
    rows = (CStr c00 :: x) :: (d0 :: y) :: rest /\
    (p_name p, p_transposed p) = drop_last_star (skipn 2 c00) /\
    p_dests p = destinations d0.
Proof.
  unfold ParseTable.parse_table.
  destruct rows as [|r0 rest0]; [discriminate|]. destruct r0 as [|[c00| | | | | | | ] x]; try discriminate.
  destruct (drop_last_star (skipn 2 c00)) as [name tr] eqn:D.
  destruct rest0 as [|r1 rest1]; [discriminate|]. destruct r1 as [|d0 r1']; [discriminate|].
  destruct rest1 as [|r2 rest2];
    [intro H; injection H as <-; exists c00, x, d0, r1', []; rewrite D; auto|].
  match goal with |- match ?rn with _ => _ end = _ -> _ => destruct rn as [raw|]; [|discriminate] end.
  destruct (fix_duplicates raw 0 [] fx) as [[names fx1]|m|]; try discriminate.
  match goal with |- match ?u with _ => _ end = _ -> _ => destruct u as [ucs|]; [|discriminate] end.
  destruct (strip_units ucs) as [units|]; [|discriminate].
  match goal with |- (let (rows, fx2) := ?f in _) = _ -> _ => destruct f as [rows fx2] end.
  destruct (parse_columns parse_float parse_dt cfg units (columns_of (length names) rows) fx2) as [[cols fx3]|m|];
    try discriminate.
  destruct (Nat.ltb 0 (fx_fixes fx3) && stop_on_errors cfg); [discriminate|].
  intro H; injection H as <-. exists c00, x, d0, r1', (r2 :: rest2). rewrite D. auto.
Qed.

(* the name offered to the filter for a table block is the name the parsed table reports *)
Theorem offered_name_parsed rows fx p : parse_table rows fx = Ok p -> p_name p = offered_name rows.
Proof.
  intro H. destruct (parse_table_header _ _ _ H) as (c00 & x & d0 & y & rest & -> & E & _).
  unfold offered_name. rewrite <- E. reflexivity.
Qed.

(* what one block contributes, on its own *)
Definition strip_ev (e : event) : event :=
  match e with EIssue i _ => EIssue i [] | _ => e end.
Definition block_events (filter : option (btype -> str -> bool)) (b : block row) : list event :=
  let '(t, i, rows) := b in
  match handle filter t rows fx_init with
  | Ok (Some c, _) => [EBlock t i c]
  | Ok (None, _) => []
  | VErr _ => [EIssue i []]
  | Crash => []
  end.

(* C12 / C13: with a collecting tracker every block is handled, each on its own: the stream is
   the concatenation of what each block yields alone, whatever came before it *)
Theorem deliver_collecting filter bs : forall hist,
  Forall block_shape bs -> raising = false ->
  map strip_ev (fst (deliver filter raising bs hist)) = flat_map (block_events filter) bs /\
  snd (deliver filter raising bs hist) = FDone.
Proof.
  induction bs as [|[[t i] rows] rest IH]; intros hist F R; cbn [Reader.deliver flat_map]; [auto|].
  inversion F as [|? ? Hb F']; subst. unfold block_events at 1.
  pose proof (handle_no_crash filter t rows fx_init Hb) as NC.
  destruct (handle filter t rows fx_init) as [[[c|] fx']|m|]; try congruence.
  - destruct (IH (hist ++ fx_messages fx') F' eq_refl) as [H1 H2].
    destruct (deliver filter false rest (hist ++ fx_messages fx')). cbn in *. now rewrite H1.
  - apply IH; auto.
  - destruct (IH (hist ++ m) F' eq_refl) as [H1 H2].
    destruct (deliver filter false rest (hist ++ m)). cbn in *. now rewrite H1.
Qed.

(* C12: with the default tracker the first faulty block ends the stream as InputError located at
   that block; the blocks before it are delivered exactly as if the input ended there *)
Theorem deliver_raising filter bs : forall hist evs i,
  raising = true -> deliver filter raising bs hist = (evs, FInputError i) ->
  exists bs1 g bs2 h, bs = bs1 ++ (BTable, i, g) :: bs2 /\
                      deliver filter raising bs1 hist = (evs, FDone) /\
                      (exists m, handle filter BTable g h = VErr m).
Proof.
  induction bs as [|[[t j] rows] rest IH]; intros hist evs i R H; cbn [Reader.deliver] in H; [discriminate|].
  destruct (handle filter t rows fx_init) as [[[c|] fx']|m|] eqn:E; try discriminate.
  - destruct (deliver filter raising rest (hist ++ fx_messages fx')) as [evs0 fin0] eqn:D.
    inversion H; subst. destruct (IH _ _ _ eq_refl D) as (bs1 & g & bs2 & h & E1 & E2 & E3).
    exists ((t, j, rows) :: bs1), g, bs2, h. split; [now rewrite E1|]. split; [|assumption].
    cbn [Reader.deliver]. rewrite E, E2. reflexivity.
  - destruct (IH _ _ _ R H) as (bs1 & g & bs2 & h & E1 & E2 & E3).
    exists ((t, j, rows) :: bs1), g, bs2, h. split; [now rewrite E1|]. split; [|assumption].
    cbn [Reader.deliver]. rewrite E. exact E2.
  - rewrite R in H. inversion H; subst. pose proof (handle_verr_table _ _ _ _ _ E) as ->.
    exists [], rows, rest, fx_init. repeat split; eauto.
Qed.
End P.

(* ---------------- C07: the three output forms ---------------- *)
Section Forms.
Variable parse_float : str -> option ftok.
Variable parse_dt : str -> dres.
Variable cfg : fixer_cfg.
Variable filter : option (btype -> str -> bool).
Variable raising : bool.
Notation handle := (handle parse_float parse_dt cfg).
Notation deliver := (deliver parse_float parse_dt cfg).

Definition to_json_content (c : content) : content :=
  match c with CtTable p => CtJson p | _ => c end.
Definition to_json_ev (e : event) : event :=
  match e with EBlock t i c => EBlock t i (to_json_content c) | _ => e end.

Lemma to_json_directive rows : to_json_content (make_directive rows) = make_directive rows.
Proof. unfold make_directive. destruct rows as [|[|[] ?] ?]; reflexivity. Qed.

Lemma handle_json t rows fx :
  handle FJson filter t rows fx =
  match handle FPd filter t rows fx with
  | Ok (Some c, fx') => Ok (Some (to_json_content c), fx')
  | r => r
  end.
Proof.
  unfold Reader.handle. destruct (negb (accepted filter t rows)); [reflexivity|].
  destruct t; try reflexivity.
  - now rewrite to_json_directive.
  - destruct (parse_table parse_float parse_dt cfg rows fx); reflexivity.
Qed.

(* reading as 'jsondata' is reading as 'pdtable' with every table replaced by the JSON rendering
   of the same parse; errors, origins and all other blocks are identical *)
Theorem deliver_json bs : forall hist,
  deliver FJson filter raising bs hist =
  (map to_json_ev (fst (deliver FPd filter raising bs hist)), snd (deliver FPd filter raising bs hist)).
Proof.
  induction bs as [|[[t i] rows] rest IH]; intro hist; cbn [Reader.deliver]; [reflexivity|].
  rewrite handle_json.
  destruct (handle FPd filter t rows fx_init) as [[[c|] fx']|m|]; try reflexivity.
  - rewrite IH. destruct (deliver FPd filter raising rest (hist ++ fx_messages fx')). reflexivity.
  - apply IH.
  - destruct raising; [reflexivity|]. rewrite IH.
    destruct (deliver FPd filter false rest (hist ++ m)). reflexivity.
Qed.

(* the 'cellgrid' form never fails and hands out the raw rows of each table block *)
Definition grid_event (b : block row) : list event :=
  let '(t, i, rows) := b in
  if accepted filter t rows then
    [EBlock t i (match t with
                 | BMeta => CtMeta (make_metadata rows)
                 | BDir => make_directive rows
                 | _ => CtGrid rows
                 end)]
  else [].

Theorem deliver_grid bs : forall hist,
  deliver FGrid filter raising bs hist = (flat_map grid_event bs, FDone).
Proof.
  induction bs as [|[[t i] rows] rest IH]; intro hist; cbn [Reader.deliver flat_map]; [reflexivity|].
  unfold grid_event at 1. unfold Reader.handle. destruct (accepted filter t rows); cbn [negb].
  - destruct t; cbn [fx_messages fx_init]; rewrite IH; reflexivity.
  - apply IH.
Qed.

Definition ev_shape (e : event) : option (btype * nat) :=
  match e with EBlock t i _ => Some (t, i) | EIssue _ _ => None end.

Lemma handle_pd_shape t rows fx c fx' :
  handle FPd filter t rows fx = Ok (Some c, fx') -> accepted filter t rows = true.
Proof.
  unfold Reader.handle. destruct (accepted filter t rows); [reflexivity|]. cbn. discriminate.
Qed.

(* whenever the 'pdtable' read succeeds, the 'cellgrid' read has the same sequence of block types
   and origins *)
Theorem deliver_grid_shape bs : forall hist evs,
  deliver FPd filter raising bs hist = (evs, FDone) ->
  Forall (fun e => ev_shape e <> None) evs ->
  map ev_shape (flat_map grid_event bs) = map ev_shape evs.
Proof.
  induction bs as [|[[t i] rows] rest IH]; intros hist evs H F; cbn [Reader.deliver flat_map] in *.
  - inversion H. reflexivity.
  - unfold grid_event at 1.
    destruct (handle FPd filter t rows fx_init) as [[[c|] fx']|m|] eqn:E; try discriminate.
    + rewrite (handle_pd_shape _ _ _ _ _ E).
      destruct (deliver FPd filter raising rest (hist ++ fx_messages fx')) as [evs0 fin0] eqn:D.
      inversion H; subst. inversion F; subst. cbn. f_equal. eapply IH; eauto.
    + assert (accepted filter t rows = false) as ->.
      { revert E. unfold Reader.handle. destruct (accepted filter t rows); [|reflexivity]. cbn.
        destruct t; try discriminate. destruct (parse_table parse_float parse_dt cfg rows fx_init); discriminate. }
      cbn. eapply IH; eauto.
    + destruct raising; [discriminate|].
      destruct (deliver FPd filter false rest (hist ++ m)) as [evs0 fin0] eqn:D.
      inversion H; subst. inversion F as [|? ? C _]; subst. cbn in C. congruence.
Qed.
End Forms.
