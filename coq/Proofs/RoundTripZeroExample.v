(* Non-vacuity of C01_bundle_roundtrip_any: a bundle mixing tables with rows, without rows and
   without columns, in both orientations. *)
From Coq Require Import Lia.
From PdV Require Import ParseTable LayoutProofs WriteProofs RoundTrip RoundTripZero RoundTripExample.
From PdV.Model Require Import WriteCsv Segment Reader.
Local Open Scope N_scope.

Definition ez_cols : list wcol :=
  [ {| wc_name := [120]; wc_unit := [109]; wc_vals := [] |}; {| wc_name := [115]; wc_unit := u_text; wc_vals := [] |} ].
Definition ez_t (tr : bool) : wtable := {| w_name := [122]; w_dests := [[97]]; w_transposed := tr; w_cols := ez_cols |}.

Lemma ez_wf tr : wf_zero 59 (ez_t tr).
Proof.
  unfold wf_zero. cbn [ez_t w_cols w_name w_dests].
  repeat match goal with |- _ /\ _ => split end; try reflexivity.
  - repeat constructor.
  - discriminate.
  - repeat constructor.
  - repeat constructor; cbn; intuition discriminate.
Qed.

Definition ee_t (tr : bool) : wtable := {| w_name := [101]; w_dests := [[97]]; w_transposed := tr; w_cols := [] |}.

Lemma ee_wf tr : wf_empty 59 (ee_t tr).
Proof. unfold wf_empty. cbn [ee_t w_cols w_name w_dests]. repeat split; reflexivity. Qed.

Example bundle_roundtrip_any_applies :
  let ts := [ez_t false; ex_t true; ez_t true; ex_t false; ee_t false; ee_t true; ex_t true] in
  read ex_pf ex_pd ex_cfg FPd None true (cells_of_lines 59 (lines (write_csv 59 ts)))
  = ([EBlock BTable 0 (CtTable (table_read_back (ez_t false)));
      EBlock BTable 6 (CtTable (table_read_back (ex_t true)));
      EBlock BTable 11 (CtTable (table_read_back (ez_t true)));
      EBlock BTable 16 (CtTable (table_read_back (ex_t false)));
      EBlock BTable 23 (CtTable (table_read_back (ee_t false)));
      EBlock BTable 29 (CtTable (table_read_back (ee_t true)));
      EBlock BTable 33 (CtTable (table_read_back (ex_t true)))], FDone).
Proof.
  cbv zeta.
  rewrite (bundle_roundtrip_any ex_pf ex_pd ex_cfg true 59).
  - reflexivity.
  - apply Forall_cons; [right; left; apply ez_wf|]. apply Forall_cons; [left; apply ex_wf|].
    apply Forall_cons; [right; left; apply ez_wf|]. apply Forall_cons; [left; apply ex_wf|].
    apply Forall_cons; [right; right; apply ee_wf|]. apply Forall_cons; [right; right; apply ee_wf|].
    apply Forall_cons; [left; apply ex_wf|]. constructor.
  - repeat (apply Forall_cons; [vm_compute; repeat constructor|]). constructor.
  - reflexivity.
Qed.
