(* Proofs about M-Frame (Model/Frame.v): C04 (units positional = by name, in dataframe order)
   and C15 (special units always match the data) as invariants over arbitrary step histories. *)
From Coq Require Import Lia.
From PdV Require Import Frame TextProofs.
Local Open Scope nat_scope.

(* ---------- register lemmas ---------- *)
Lemma reg_get_set_same n m r : reg_get n (reg_set n m r) = Some m.
Proof.
  induction r as [|[k m'] r IH]; cbn.
  - now rewrite str_eqb_refl.
  - destruct (str_eqb k n) eqn:E; cbn; rewrite E; [reflexivity|exact IH].
Qed.

Lemma reg_get_set_other n n' m r : n <> n' -> reg_get n (reg_set n' m r) = reg_get n r.
Proof.
  intro H. induction r as [|[k m'] r IH]; cbn.
  - destruct (str_eqb n' n) eqn:E; [apply str_eqb_eq in E; congruence|reflexivity].
  - destruct (str_eqb k n') eqn:E; cbn.
    + apply str_eqb_eq in E. subst k. destruct (str_eqb n' n) eqn:E2; [apply str_eqb_eq in E2; congruence|reflexivity].
    + destruct (str_eqb k n); [reflexivity|exact IH].
Qed.

Lemma reg_set_keys_present n m r :
  reg_get n r <> None -> map fst (reg_set n m r) = map fst r.
Proof.
  induction r as [|[k m'] r IH]; cbn; intro H; [congruence|].
  destruct (str_eqb k n) eqn:E; cbn; [reflexivity|]. f_equal. apply IH. exact H.
Qed.

Lemma mem_str_In s l : mem_str s l = true <-> In s l.
Proof.
  unfold mem_str. rewrite existsb_exists. split.
  - intros [x [Hx E]]. apply str_eqb_eq in E. now subst.
  - intro H. exists s. split; [assumption|apply str_eqb_refl].
Qed.

Lemma has_dup_false l : has_dup l = false -> NoDup l.
Proof.
  induction l as [|x t IH]; cbn; intro H; [constructor|].
  apply orb_false_iff in H as [H1 H2]. constructor; [|auto].
  intro C. apply mem_str_In in C. congruence.
Qed.

Lemma dtype_eqb_eq a b : dtype_eqb a b = true <-> a = b.
Proof.
  destruct a as [ka na], b as [kb nb]. unfold dtype_eqb. cbn. rewrite andb_true_iff, N.eqb_eq. split.
  - intros [H ->]. destruct ka, kb; try discriminate; reflexivity.
  - intro H. inversion H; subst. split; [destruct kb; reflexivity|reflexivity].
Qed.

Lemma state_eqb_eq a b : state_eqb a b = true -> a = b.
Proof.
  revert b; induction a as [|[n d] a IH]; destruct b as [|[n' d'] b]; cbn; try discriminate; auto.
  intro H. apply andb_true_iff in H as [H H3]. apply andb_true_iff in H as [H1 H2].
  apply str_eqb_eq in H1. apply dtype_eqb_eq in H2. subst. f_equal. now apply IH.
Qed.

(* ---------- compatibility of a unit with a dtype ---------- *)
Definition compatible (m : colmeta) (d : dtype) : Prop := check_dtype m d = Fine tt.

(* what compatibility means: a text unit only on string/object data, an onoff unit only on
   boolean data, and string/boolean data only under those units *)
Lemma compatible_spec m d :
  compatible m d <->
  match fst d with
  | KBool => cm_unit m = u_onoff
  | KText => cm_unit m = u_text
  | KNumeric => is_special (cm_unit m) = false
  | KOther => False
  end.
Proof.
  assert (is_special u_onoff = true) as So by reflexivity.
  assert (is_special u_text = true) as St by reflexivity.
  assert (is_special u_dash = false) as Sd by reflexivity.
  unfold compatible, check_dtype. destruct (fst d); cbn [unit_from_kind]; rewrite ?So, ?St, ?Sd.
  - destruct (str_eqb u_onoff (cm_unit m)) eqn:E.
    + apply str_eqb_eq in E. split; [intros _; now symmetry|reflexivity].
    + split; [discriminate|]. intro H. rewrite H, str_eqb_refl in E. discriminate.
  - destruct (is_special (cm_unit m)); split; congruence.
  - destruct (str_eqb u_text (cm_unit m)) eqn:E.
    + apply str_eqb_eq in E. split; [intros _; now symmetry|reflexivity].
    + split; [discriminate|]. intro H. rewrite H, str_eqb_refl in E. discriminate.
  - split; [discriminate|contradiction].
Qed.

Lemma default_unit_compatible k n u :
  unit_from_kind k = Some u ->
  compatible {| cm_unit := u; cm_display_unit := None; cm_format := None |} (k, n).
Proof.
  intro H. apply compatible_spec. destruct k; cbn in *; inversion H; subst; reflexivity.
Qed.

(* ---------- the strict-types loop ---------- *)
Definition registered_ok (r : register) (cols : list (str * dtype)) : Prop :=
  forall n d, In (n, d) cols -> exists m, reg_get n r = Some m /\ compatible m d.

Lemma check_dtype_fine m d : (exists u, check_dtype m d = Fine u) -> compatible m d.
Proof. intros [[] H]. exact H. Qed.

Lemma update_loop_ok cols : forall r r',
  NoDup (map fst cols) ->
  update_loop cols false r = (r', None) ->
  registered_ok r' cols /\
  (forall n, ~ In n (map fst cols) -> reg_get n r' = reg_get n r) /\
  (forall n m, reg_get n r = Some m -> reg_get n r' = Some m).
Proof.
  induction cols as [|[n d] rest IH]; intros r r' ND H; cbn in H.
  - inversion H; subst. repeat split; auto. intros n d [].
  - inversion ND as [|? ? Hn ND']; subst. destruct (reg_get n r) as [m|] eqn:G.
    + destruct (check_dtype m d) as [[]| | |] eqn:C; try discriminate.
      destruct (IH _ _ ND' H) as (A & B & K). repeat split.
      * intros n' d' [E|Hin]; [inversion E; subst; exists m; split; [now apply K|exact C]|now apply A].
      * intros n' Hn'. apply B. intro C'. apply Hn'. now right.
      * exact K.
    + destruct (unit_from_kind (fst d)) as [u|] eqn:U; [|discriminate].
      destruct (IH _ _ ND' H) as (A & B & K). repeat split.
      * intros n' d' [E|Hin]; [|now apply A]. inversion E; subst.
        eexists. split; [apply K; apply reg_get_set_same|]. destruct d' as [k t]. now apply default_unit_compatible.
      * intros n' Hn'. rewrite (B n'); [|intro C'; apply Hn'; now right].
        apply reg_get_set_other. intro E. apply Hn'. left. now subst.
      * intros n' m' G'. apply K. rewrite reg_get_set_other; [assumption|]. intros ->. congruence.
Qed.

(* ---------- reordering ---------- *)
Lemma reg_get_reorder_none n cols r : reg_get n r = None -> reg_get n (reorder cols r) = None.
Proof.
  intro H. unfold reorder. induction cols as [|c cols IH]; cbn; [reflexivity|].
  destruct (reg_get c r) as [m|] eqn:G; cbn; [|exact IH].
  destruct (str_eqb c n) eqn:E; [apply str_eqb_eq in E; subst; congruence|exact IH].
Qed.

Lemma reg_get_reorder n cols r : In n cols -> reg_get n (reorder cols r) = reg_get n r.
Proof.
  unfold reorder. induction cols as [|c cols IH]; intros Hin; [destruct Hin|]. cbn.
  destruct (reg_get c r) as [m|] eqn:G; cbn.
  - destruct (str_eqb c n) eqn:E.
    + apply str_eqb_eq in E. subst. now rewrite G.
    + destruct Hin as [->|Hin]; [rewrite str_eqb_refl in E; discriminate|now apply IH].
  - destruct Hin as [->|Hin]; [|now apply IH]. rewrite G. now apply (reg_get_reorder_none n cols r).
Qed.

Lemma reorder_keys cols r :
  (forall n, In n cols -> reg_get n r <> None) -> map fst (reorder cols r) = cols.
Proof.
  unfold reorder. induction cols as [|c cols IH]; intro H; cbn; [reflexivity|].
  destruct (reg_get c r) as [m|] eqn:G; [|exfalso; apply (H c); [now left|assumption]].
  cbn. f_equal. apply IH. intros n Hn. apply H. now right.
Qed.

(* ---------- the invariants ---------- *)
(* C15: every column of the dataframe has a unit, and it is compatible with the column's dtype *)
Definition Inv15 (f : frame) : Prop := registered_ok (f_reg f) (f_cols f).
(* C04: the register lists exactly the dataframe's columns, in dataframe order *)
Definition Inv04 (f : frame) : Prop := map fst (f_reg f) = names f.

(* what is known between consultations: the register is consistent with the remembered snapshot *)
Definition J (f : frame) : Prop :=
  match f_last f with
  | None => True
  | Some st => registered_ok (f_reg f) st /\ map fst (f_reg f) = map fst st
  end.

Lemma update_columns_ok f r :
  f_strict f = true -> f_empty f = false -> update_columns f = (r, None) ->
  registered_ok r (f_cols f) /\ map fst r = names f.
Proof.
  intros S E H. unfold update_columns in H. destruct (has_dup (names f)) eqn:D; [discriminate|].
  apply has_dup_false in D. rewrite S, E in H.
  destruct (update_loop (f_cols f) false (filter (fun km => mem_str (fst km) (names f)) (f_reg f))) as [r1 [e|]] eqn:L;
    [discriminate|]. inversion H; subst.
  destruct (update_loop_ok _ _ _ D L) as (A & _ & _). split.
  - intros n d Hin. destruct (A n d Hin) as [m [G C]]. exists m. split; [|exact C].
    rewrite reg_get_reorder; [exact G|]. unfold names. apply in_map_iff. exists (n, d). auto.
  - apply reorder_keys. intros n Hn. unfold names in Hn. apply in_map_iff in Hn. destruct Hn as [[n' d] [<- Hin]].
    destruct (A n' d Hin) as [m [G _]]. cbn. congruence.
Qed.

(* one successful consultation of a strict, non-empty frame establishes both invariants *)
Theorem consult_establishes f f' :
  J f -> f_strict f = true -> f_empty f = false -> consult f = (f', None) ->
  Inv15 f' /\ Inv04 f' /\ J f' /\ f_cols f' = f_cols f.
Proof.
  intros HJ S E H. unfold consult in H.
  destruct (match f_last f with Some st => state_eqb st (f_cols f) | None => false end) eqn:Sh.
  - inversion H; subst f'. destruct (f_last f) as [st|] eqn:L; [|discriminate].
    apply state_eqb_eq in Sh. subst st. unfold J in HJ. rewrite L in HJ. destruct HJ as [A B].
    repeat split; auto. unfold J. now rewrite L.
  - destruct (update_columns f) as [r [e|]] eqn:U; [discriminate|]. inversion H; subst f'. cbn.
    destruct (update_columns_ok f r S E U) as [A B]. rewrite E. unfold Inv15, Inv04, J, names. cbn.
    repeat split; auto.
Qed.

(* the relation J survives every step, whatever it does to the data *)
Lemma relabel_J f n u : J f -> J (relabel f n u).
Proof.
  intro HJ. unfold relabel. destruct (reg_get n (f_reg f)) as [m|] eqn:G; [|exact HJ].
  destruct (is_special u || is_special (cm_unit m)) eqn:Sp; [exact HJ|].
  apply orb_false_iff in Sp as [Su Sm]. unfold J in *. cbn. destruct (f_last f) as [st|]; [|exact I].
  destruct HJ as [A B]. split.
  - intros n' d Hin. destruct (A n' d Hin) as [m' [G' C']].
    destruct (str_eqb n n') eqn:E.
    + apply str_eqb_eq in E. subst n'. rewrite reg_get_set_same. eexists. split; [reflexivity|].
      rewrite G in G'. inversion G'; subst m'. apply compatible_spec. apply compatible_spec in C'.
      destruct (fst d); cbn in *; auto.
      * rewrite C' in Sm. discriminate.
      * rewrite C' in Sm. discriminate.
    + rewrite reg_get_set_other; [eauto|]. intro C. subst. rewrite str_eqb_refl in E. discriminate.
  - rewrite reg_set_keys_present; [exact B|congruence].
Qed.

Lemma step_J f s : f_strict f = true -> J f -> J (fst (do_step f s)) /\ f_strict (fst (do_step f s)) = true.
Proof.
  intros S HJ. destruct s as [cols e|n d u e|n u|]; cbn.
  - split; [exact HJ|exact S].
  - unfold add_column.
    destruct (match u with Some x => _ | None => _ end) as [nc|]; cbn; split; auto; exact I.
  - split; [now apply relabel_J|]. unfold relabel. destruct (reg_get n (f_reg f)); [|exact S].
    destruct (is_special u || is_special (cm_unit c)); exact S.
  - unfold consult.
    destruct (match f_last f with Some st => state_eqb st (f_cols f) | None => false end) eqn:Sh; cbn; [auto|].
    destruct (update_columns f) as [r [e|]] eqn:U; cbn; [split; [exact I|exact S]|]. split; [|exact S].
    unfold J. cbn. destruct (f_empty f) eqn:E; [exact I|].
    destruct (update_columns_ok f r S E U) as [A B]. split; assumption.
Qed.

Lemma run_J ss : forall f, f_strict f = true -> J f -> J (run f ss) /\ f_strict (run f ss) = true.
Proof.
  induction ss as [|s ss IH]; intros f S HJ; cbn; [auto|].
  destruct (step_J f s S HJ) as [HJ' S']. apply IH; assumption.
Qed.

(* C04 / C15: after ANY history of steps, a consultation of a strict frame with at least one row
   either refuses or leaves every dataframe column with exactly its own, dtype-compatible unit,
   the register in dataframe column order *)
Theorem history_invariant f0 ss f' :
  J f0 -> f_strict f0 = true ->
  f_empty (run f0 ss) = false ->
  consult (run f0 ss) = (f', None) ->
  Inv15 f' /\ Inv04 f'.
Proof.
  intros HJ S E H. destruct (run_J ss f0 S HJ) as [HJ' S'].
  destruct (consult_establishes _ _ HJ' S' E H) as (A & B & _). auto.
Qed.

(* the positional unit list is the by-name lookup in dataframe column order *)
Theorem units_positional f :
  Inv04 f -> NoDup (names f) -> map Some (units f) = map (unit_of f) (names f).
Proof.
  unfold Inv04, units, unit_of, names. intros H ND. rewrite <- H in *. clear H.
  induction (f_reg f) as [|[k m] r IH]; cbn; [reflexivity|].
  rewrite str_eqb_refl. f_equal. inversion ND as [|? ? Hn ND']; subst. rewrite (IH ND').
  apply map_ext_in. intros n Hn'. destruct (str_eqb k n) eqn:E; [|reflexivity].
  apply str_eqb_eq in E. subst. contradiction.
Qed.

(* a frame straight from make_table_dataframe satisfies J, so histories may start there *)
Lemma make_frame_J cols e strict us f : make_frame cols e strict us = (f, None) -> strict = true -> J f.
Proof.
  unfold make_frame, consult. cbn. intros H S. subst strict.
  destruct (update_columns _) as [r [x|]] eqn:U; [discriminate|]. inversion H; subst f. unfold J. cbn.
  destruct e; [exact I|]. refine (update_columns_ok _ r _ _ U); reflexivity.
Qed.

(* columns without an explicit unit get text / onoff / - according to their dtype *)
Theorem default_units cols : forall r r' n d,
  NoDup (map fst cols) -> update_loop cols false r = (r', None) ->
  In (n, d) cols -> reg_get n r = None ->
  exists u, unit_from_kind (fst d) = Some u /\
            reg_get n r' = Some {| cm_unit := u; cm_display_unit := None; cm_format := None |}.
Proof.
  induction cols as [|[n0 d0] rest IH]; intros r r' n d ND H Hin G; [destruct Hin|]. cbn in H.
  inversion ND as [|? ? Hn ND']; subst. destruct Hin as [E|Hin].
  - inversion E; subst. rewrite G in H. destruct (unit_from_kind (fst d)) as [u|] eqn:U; [|discriminate].
    exists u. split; [reflexivity|]. destruct (update_loop_ok _ _ _ ND' H) as (_ & _ & K). apply K. apply reg_get_set_same.
  - assert (n <> n0) as Hne.
    { intros ->. apply Hn. apply in_map_iff. exists (n0, d). auto. }
    destruct (reg_get n0 r) as [m|] eqn:G0.
    + destruct (check_dtype m d0) as [[]| | |]; try discriminate. eapply IH; eauto.
    + destruct (unit_from_kind (fst d0)) as [u0|]; [|discriminate].
      eapply IH; eauto. rewrite reg_get_set_other; assumption.
Qed.
