(* Proofs about M-Text (Model/Text.v). *)
From Coq Require Import Lia.
From PdV Require Import Text.

Lemma str_eqb_eq a b : str_eqb a b = true <-> a = b.
Proof.
  revert b; induction a as [|x a IH]; destruct b as [|y b]; cbn; split; try congruence; try discriminate.
  - intro H. apply andb_true_iff in H as [H1 H2]. apply N.eqb_eq in H1. apply IH in H2. congruence.
  - intro H. inversion H; subst. rewrite N.eqb_refl. cbn. now apply IH.
Qed.

Lemma str_eqb_refl a : str_eqb a a = true.
Proof. now apply str_eqb_eq. Qed.

Lemma str_eqb_sym a b : str_eqb a b = str_eqb b a.
Proof.
  destruct (str_eqb a b) eqn:E.
  - apply str_eqb_eq in E. subst. symmetry. apply str_eqb_refl.
  - destruct (str_eqb b a) eqn:E'; [|reflexivity]. apply str_eqb_eq in E'. subst.
    rewrite str_eqb_refl in E. discriminate.
Qed.


Lemma str_eqb_false a b : str_eqb a b = false <-> a <> b.
Proof. rewrite <- str_eqb_eq. destruct (str_eqb a b); split; congruence. Qed.
