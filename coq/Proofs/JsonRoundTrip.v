(* C08, second half: json_data_to_table (table_to_json_data t) gives back t, in the model.
   A table is given by the python scalars of its columns (what list(df[col]) yields), as cells. *)
From Coq Require Import Lia.
From PdV Require Import ParseTable TextProofs ParseProofs LayoutProofs Json JsonProofs.
From PdV.Model Require Import Reader.
Local Open Scope nat_scope.

(* ---------- zip( *columns ) ---------- *)
Lemma rows_of_columns_spec (f : nat -> nat -> cell) (js : list nat) : js <> [] ->
  forall m k fuel, m <= fuel ->
  rows_of_columns (map (fun j => map (fun i => f j i) (seq k m)) js) fuel
  = map (fun i => map (fun j => f j i) js) (seq k m).
Proof.
  intros Hjs. induction m as [|m IH]; intros k fuel Hf.
  - destruct fuel; [reflexivity|]. cbn [rows_of_columns seq map]. destruct js as [|j js]; [congruence|]. reflexivity.
  - destruct fuel as [|fuel]; [lia|]. cbn [rows_of_columns].
    assert (existsb (fun c : list cell => match c with [] => true | _ :: _ => false end)
                    (map (fun j => map (fun i => f j i) (seq k (S m))) js) = false) as ->.
    { clear. induction js as [|j js IHj]; [reflexivity|]. cbn [map existsb seq]. exact IHj. }
    destruct js as [|j0 js'] eqn:E; [congruence|]. rewrite <- E in *.
    assert (map (fun j => map (fun i => f j i) (seq k (S m))) js <> []) as Hne by (rewrite E; discriminate).
    destruct (map (fun j => map (fun i => f j i) (seq k (S m))) js) eqn:E2; [congruence|]. rewrite <- E2. clear E2 Hne.
    cbn [seq map]. f_equal.
    + rewrite map_map. reflexivity.
    + rewrite map_map. cbn [map]. apply IH. lia.
Qed.

From PdV Require Import RoundTrip.

Lemma longest_ge' l ls : In l ls -> length l <= longest ls.
Proof.
  induction ls as [|a ls IH]; [contradiction|]. unfold longest in *. cbn [fold_right].
  intros [->|H]; [lia|]. specialize (IH H). lia.
Qed.

Section JRT.
Variable parse_float : str -> option ftok.
Variable parse_dt : str -> dres.
Variable cfg : fixer_cfg.
Variable render_dt : dtok -> str.
Variable float_repr : ftok -> str.
Variable int_repr : Z -> str.
Variable int_float : Z -> ftok.
Notation cell_parser := (cell_parser parse_float parse_dt).
Notation cell_of_leaf := (cell_of_leaf float_repr int_repr int_float).

(* the JSON leaf of a python scalar (COther: NotImplementedError, excluded by [wf_scalar]) *)
Definition leaf (c : cell) : jleaf := match leaf_of_scalar c with Some l => l | None => JNull end.

(* the value a python scalar stands for in a column *)
Definition scalar_value (c : cell) : value :=
  match c with
  | CStr s => VText s | CBool b => VBool b | CDate d _ => VDate d
  | CFloat f _ => VNum f | CInt _ fl _ => VNum fl | _ => VNaT
  end.

(* scalars that may stand in a column of unit u; a missing timestamp is excluded (the statement's
   exception: it travels as null and null is not a legal datetime cell) *)
Definition wf_scalar (u : str) (c : cell) : Prop :=
  if str_eqb u s_text then exists s, c = CStr s
  else if str_eqb u s_onoff then exists b, c = CBool b
  else if str_eqb u s_datetime then exists d r, c = CDate d r /\ dt_ok parse_dt r d
  else (exists f r, c = CFloat f r) \/ (exists z fl r, c = CInt z fl r /\ int_float z = fl).

Lemma scalar_roundtrip u c :
  wf_scalar u c -> cell_parser u (cell_of_leaf (leaf c)) = CVal (scalar_value c).
Proof.
  unfold wf_scalar, ParseTable.cell_parser.
  destruct (str_eqb u s_text) eqn:Et; [intros (s & ->); reflexivity|].
  destruct (str_eqb u s_onoff) eqn:Eo; [intros (b & ->); reflexivity|].
  destruct (str_eqb u s_datetime) eqn:Ed.
  - intros (d & r & -> & Hs & (c0 & rest & Hr & Hdig) & Hm & Hp). cbn [leaf leaf_of_scalar Json.cell_of_leaf scalar_value].
    unfold datetime_cell. rewrite Hs. rewrite Hr in *. rewrite Hdig. cbn [orb]. rewrite Hm, Hp. reflexivity.
  - intros [(f & r & ->)|(z & fl & r & -> & <-)]; cbn [leaf leaf_of_scalar scalar_value].
    + destruct (N.eqb_spec f nan_tok) as [->|Hf]; reflexivity.
    + reflexivity.
Qed.

Variable name : str.
Variable dests : list str.
Variable cols : list (str * str * list cell).
Variable m : nat.
Notation n := (length cols).

Definition jd : str * str * list cell := ([], [], []).
Definition jname_at (j : nat) : str := fst (fst (nth j cols jd)).
Definition junit_at (j : nat) : str := snd (fst (nth j cols jd)).
Definition scal_at (j i : nat) : cell := nth i (snd (nth j cols jd)) CNone.
Definition jcellat (j i : nat) : cell := cell_of_leaf (leaf (scal_at j i)).

Hypothesis H_rect : Forall (fun c => length (snd c) = m) cols.
Hypothesis H_cols : cols <> [].
Hypothesis H_wf : forall j i, j < n -> i < m -> wf_scalar (junit_at j) (scal_at j i).
Hypothesis H_conv : Forall (fun c => Forall (fun x => leaf_of_scalar x <> None) (snd c)) cols.

Definition jcols : list (str * str * list jleaf) := map (fun c => (fst (fst c), snd (fst c), map leaf (snd c))) cols.

Lemma leaves_of_leaf vs : Forall (fun x => leaf_of_scalar x <> None) vs -> leaves_of vs = Some (map leaf vs).
Proof.
  induction vs as [|v vs IH]; intro H; [reflexivity|]. inversion H as [|? ? Hv H']; subst.
  cbn [leaves_of map]. unfold leaf at 1. destruct (leaf_of_scalar v); [|congruence]. now rewrite IH.
Qed.

Lemma table_to_json_some :
  table_to_json name dests cols = Some {| j_name := name; j_dests := dests; j_cols := jcols |}.
Proof.
  unfold table_to_json. assert (json_cols cols = Some jcols) as ->; [|reflexivity].
  unfold jcols. clear H_rect H_cols H_wf. induction cols as [|[[nm u] vs] rest IH]; [reflexivity|].
  inversion H_conv as [|? ? Hv H']; subst. cbn [json_cols map fst snd] in *.
  rewrite leaves_of_leaf by assumption. now rewrite IH.
Qed.

Lemma json_grid :
  grid_of_json float_repr int_repr int_float {| j_name := name; j_dests := dests; j_cols := jcols |}
  = rowwise_grid jcellat n m (star2 ++ name) [] (CStr (join sp dests)) []
                 (map (fun c => fst (fst c)) cols) (map (fun c => snd (fst c)) cols) [] [] (fun _ => []).
Proof.
  unfold grid_of_json, rowwise_grid. cbn [j_name j_dests j_cols]. rewrite !app_nil_r.
  f_equal. f_equal. f_equal; [unfold jcols; now rewrite !map_map|]. f_equal; [unfold jcols; now rewrite !map_map|].
  assert (map (fun c => map cell_of_leaf (snd c)) jcols
          = map (fun j => map (fun i => jcellat j i) (seq 0 m)) (seq 0 n)) as E.
  { unfold jcols. rewrite map_map. cbn [snd].
    transitivity (map (fun c : str * str * list cell => map cell_of_leaf (map leaf (snd c)))
                      (map (fun j => nth j cols jd) (seq 0 n))); [now rewrite seq_nth_map|].
    rewrite map_map. apply map_ext_in. intros j Hj. apply in_seq in Hj.
    assert (length (snd (nth j cols jd)) = m) as Hl by (rewrite Forall_forall in H_rect; apply H_rect; apply nth_In; lia).
    rewrite map_map.
    transitivity (map (fun x => cell_of_leaf (leaf x)) (map (fun i => nth i (snd (nth j cols jd)) CNone) (seq 0 (length (snd (nth j cols jd))))));
      [now rewrite seq_nth_map|].
    rewrite map_map, Hl. reflexivity. }
  rewrite E. rewrite rows_of_columns_spec.
  - apply map_ext. intro i. now rewrite app_nil_r.
  - destruct cols; [congruence|discriminate].
  - apply (Nat.le_trans _ (length (map (fun i => jcellat 0 i) (seq 0 m)))).
    + now rewrite map_length, seq_length.
    + apply (longest_ge' (map (fun i => jcellat 0 i) (seq 0 m))). apply in_map_iff. exists 0. split; [reflexivity|].
      apply in_seq. destruct cols; [congruence|cbn; lia].
Qed.

Variable fx : fixer_st.
Hypothesis H_fx : fx_fixes fx = 0.
Hypothesis H_name : drop_last_star name = (name, false).
Hypothesis H_names_nb : Forall (fun c : str * str * list cell => is_blank (fst (fst c)) = false) cols.
Hypothesis H_names_strip : map strip (map (fun c : str * str * list cell => fst (fst c)) cols) = map (fun c => fst (fst c)) cols.
Hypothesis H_units_strip : map strip (map (fun c : str * str * list cell => snd (fst c)) cols) = map (fun c => snd (fst c)) cols.
Hypothesis H_names_nodup : NoDup (map (fun c : str * str * list cell => fst (fst c)) cols).

Definition json_read_back : ptable :=
  {| p_name := name; p_transposed := false; p_dests := destinations (CStr (join sp dests));
     p_names := map (fun c => fst (fst c)) cols; p_units := map (fun c => snd (fst c)) cols;
     p_cols := map (fun c => map scalar_value (snd c)) cols; p_fx := fx |}.

Lemma jnth_units j : nth j (units (map (fun c : str * str * list cell => snd (fst c)) cols)) [] = junit_at j.
Proof.
  unfold units, junit_at. rewrite H_units_strip.
  change (@nil N) with ((fun c : str * str * list cell => snd (fst c)) jd). apply map_nth.
Qed.

Lemma jcells_parse j i : j < n -> i < m ->
  cell_parser (nth j (units (map (fun c : str * str * list cell => snd (fst c)) cols)) []) (jcellat j i)
  = CVal (scalar_value (scal_at j i)).
Proof. intros Hj Hi. rewrite jnth_units. unfold jcellat. apply scalar_roundtrip. now apply H_wf. Qed.

Lemma jparsed :
  parsed_cols parse_float parse_dt jcellat n m (map (fun c : str * str * list cell => snd (fst c)) cols)
  = map (fun c => map scalar_value (snd c)) cols.
Proof.
  unfold parsed_cols.
  transitivity (map (fun c : str * str * list cell => map scalar_value (snd c)) (map (fun j => nth j cols jd) (seq 0 n)));
    [|now rewrite seq_nth_map].
  rewrite map_map. apply map_ext_in. intros j Hj. apply in_seq in Hj. unfold col_of. rewrite map_map.
  assert (length (snd (nth j cols jd)) = m) as Hl by (rewrite Forall_forall in H_rect; apply H_rect; apply nth_In; lia).
  transitivity (map scalar_value (map (fun i => nth i (snd (nth j cols jd)) CNone) (seq 0 (length (snd (nth j cols jd))))));
    [|now rewrite seq_nth_map].
  rewrite map_map, Hl. apply map_ext_in. intros i Hi. apply in_seq in Hi. unfold val_of. rewrite jcells_parse by lia. reflexivity.
Qed.

(* json_data_to_table (table_to_json_data t): t's name, destinations cell, columns, units and values *)
Theorem json_roundtrip :
  exists j, table_to_json name dests cols = Some j /\
            parse_table parse_float parse_dt cfg (grid_of_json float_repr int_repr int_float j) fx = Ok json_read_back.
Proof.
  eexists. split; [exact table_to_json_some|]. rewrite json_grid.
  rewrite (rowwise_spec parse_float parse_dt cfg jcellat n m (star2 ++ name) name).
  - unfold expected, json_read_back. rewrite jparsed. unfold names, units. now rewrite H_names_strip, H_units_strip.
  - now rewrite map_length.
  - now rewrite map_length.
  - apply Forall_forall. intros w Hw. apply in_map_iff in Hw as (c & <- & Hc).
    rewrite Forall_forall in H_names_nb. now apply H_names_nb.
  - now left.
  - unfold names. now rewrite H_names_strip.
  - unfold names. rewrite H_names_strip. apply Forall_forall. intros x Hx. apply in_map_iff in Hx as (c & <- & Hc).
    rewrite Forall_forall in H_names_nb. specialize (H_names_nb c Hc). intro E. rewrite E in H_names_nb. discriminate.
  - exact H_fx.
  - intros j i Hj Hi. eexists. now apply jcells_parse.
  - exact H_name.
Qed.
End JRT.
