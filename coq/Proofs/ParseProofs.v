(* Proofs about M-Parse (Model/ParseTable.v). *)
From Coq Require Import Lia ZifyN ZifyNat ZifyBool.
From PdV Require Import ParseTable TextProofs.
Ltac Zify.zify_post_hook ::= Z.to_euclidean_division_equations.
Local Open Scope nat_scope.

Section P.
Variable parse_float : str -> option ftok.
Variable parse_dt : str -> dres.
Variable cfg : fixer_cfg.
Notation float_cell := (float_cell parse_float).
Notation datetime_cell := (datetime_cell parse_dt).
Notation cell_parser := (cell_parser parse_float parse_dt).
Notation parse_cells := (parse_cells cfg).
Notation parse_columns := (parse_columns parse_float parse_dt cfg).
Notation parse_table := (parse_table parse_float parse_dt cfg).

(* ---------------- C02: cell-level rules ---------------- *)
Lemma text_cell_str s : text_cell (CStr s) = CVal (VText s).
Proof. reflexivity. Qed.

(* an onoff cell yields a boolean or is handed to the fixer: never anything else *)
Lemma onoff_cell_cases c :
  (exists b, onoff_cell c = CVal (VBool b)) \/ onoff_cell c = CFix TOnoff c.
Proof.
  destruct c as [s| |z fl r|f r|b|d r| |t r]; cbn; auto.
  - destruct (str_eqb (normalize s) s_0 || str_eqb (normalize s) s_false); [left; eauto|].
    destruct (str_eqb (normalize s) s_1 || str_eqb (normalize s) s_true); [left; eauto|auto].
  - destruct (z =? 0)%Z; [left; eauto|]. destruct (z =? 1)%Z; [left; eauto|auto].
  - destruct ((f =? zero_tok)%N || (f =? negzero_tok)%N); [left; eauto|].
    destruct (f =? one_tok)%N; [left; eauto|auto].
  - left; eauto.
Qed.

Lemma onoff_cell_str s b :
  onoff_cell (CStr s) = CVal (VBool b) <->
  (b = false /\ (normalize s = s_0 \/ normalize s = s_false)) \/
  (b = true /\ (normalize s = s_1 \/ normalize s = s_true)).
Proof.
  cbn. rewrite <- !str_eqb_eq.
  destruct (str_eqb (normalize s) s_0) eqn:E0; destruct (str_eqb (normalize s) s_false) eqn:Ef; cbn;
  try (split; [intro H; inversion H; subst; left; auto|intros [[-> _]|[-> [C|C]]]; try reflexivity;
       apply str_eqb_eq in C; apply str_eqb_eq in E0 || apply str_eqb_eq in Ef; rewrite C in *; discriminate]).
  destruct (str_eqb (normalize s) s_1) eqn:E1; destruct (str_eqb (normalize s) s_true) eqn:Et; cbn;
  try (split; [intro H; inversion H; subst; right; auto|intros [[_ [C|C]]|[-> _]]; try discriminate; reflexivity]).
  split; [discriminate|]. intros [[_ [C|C]]|[_ [C|C]]]; discriminate.
Qed.

(* numeric cells: text *)
Lemma float_cell_str s :
  float_cell (CStr s) =
  if is_marker (normalize s) then CVal (VNum nan_tok)
  else match parse_float (normalize s) with
       | Some f => CVal (VNum f)
       | None => CFix TFloat (CStr (normalize s))
       end.
Proof. reflexivity. Qed.

(* a numeric cell parses to *missing* iff it is an empty native cell, a marker, or a numeral that
   itself denotes NaN; otherwise it is the number float() gives or a defect - never a silent
   substitute *)
Theorem float_cell_missing_iff c :
  float_cell c = CVal (VNum nan_tok) <->
  c = CNone \/
  (exists s, c = CStr s /\ (is_marker (normalize s) = true \/ parse_float (normalize s) = Some nan_tok)) \/
  (exists r, c = CFloat nan_tok r) \/ (exists z r, c = CInt z nan_tok r).
Proof.
  destruct c as [s| |z fl r|f r|b|d r| |t r]; cbn.
  - split.
    + intro H. right; left. exists s. split; [reflexivity|].
      destruct (is_marker (normalize s)); [auto|]. right.
      destruct (parse_float (normalize s)); inversion H; reflexivity.
    + intros [C|[[s' [E H]]|[[r C]|[z [r C]]]]]; try discriminate. inversion E; subst s'.
      destruct (is_marker (normalize s)); [reflexivity|]. destruct H as [H|H]; [discriminate|]. now rewrite H.
  - split; auto.
  - split.
    + intro H. inversion H. right; right; right. eauto.
    + intros [C|[[s' [E H]]|[[r' C]|[z' [r' C]]]]]; try discriminate. inversion C; subst. reflexivity.
  - split.
    + intro H. inversion H. right; right; left. eauto.
    + intros [C|[[s' [E H]]|[[r' C]|[z' [r' C]]]]]; try discriminate. inversion C; subst. reflexivity.
  - split.
    + destruct b; intro H; inversion H.
    + intros [C|[[s' [E H]]|[[r' C]|[z' [r' C]]]]]; discriminate.
  - split; [discriminate|]. intros [C|[[s' [E H]]|[[r' C]|[z' [r' C]]]]]; discriminate.
  - split; [discriminate|]. intros [C|[[s' [E H]]|[[r' C]|[z' [r' C]]]]]; discriminate.
  - split; [discriminate|]. intros [C|[[s' [E H]]|[[r' C]|[z' [r' C]]]]]; discriminate.
Qed.

Lemma float_cell_cases c :
  (exists f, float_cell c = CVal (VNum f)) \/ (exists shown, float_cell c = CFix TFloat shown).
Proof.
  destruct c as [s| |z fl r|f r|b|d r| |t r]; cbn; eauto.
  destruct (is_marker (normalize s)); eauto. destruct (parse_float (normalize s)); eauto.
Qed.

(* datetime cells: the markers, in any letter case and with surrounding blanks, give missing *)
Lemma datetime_cell_marker s :
  is_marker (lower (strip s)) = true -> datetime_cell (CStr s) = CVal VNaT.
Proof.
  intro H. cbn. destruct (strip s) as [|c0 v] eqn:E.
  - cbn in H. discriminate.
  - rewrite H. rewrite orb_true_r. reflexivity.
Qed.

Lemma datetime_cell_cases c :
  (exists d, datetime_cell c = CVal (VDate d)) \/ datetime_cell c = CVal VNaT \/
  (exists shown, datetime_cell c = CFix TDatetime shown) \/ datetime_cell c = CAbort \/
  datetime_cell c = CCrash.
Proof.
  destruct c as [s| |z fl r|f r|b|d r| |t r]; cbn; eauto 6.
  destruct (strip s) as [|c0 v]; eauto 6.
  destruct (is_digit c0 || is_marker (lower (c0 :: v))); eauto 6.
  destruct (is_marker (lower (c0 :: v))); eauto 6.
  destruct (parse_dt (c0 :: v)); eauto 6.
Qed.

(* ---------------- parse_cells: values, counters, shape ---------------- *)
(* the value list of a column, without the fixer state *)
Fixpoint col_values (p : cell -> cres) (cs : list cell) : option (list value) :=
  match cs with
  | [] => Some []
  | c :: rest =>
    match p c, col_values p rest with
    | CVal v, Some vs => Some (v :: vs)
    | CFix vt _, Some vs => Some (fix_value cfg vt :: vs)
    | _, _ => None
    end
  end.

Definition n_fix (p : cell -> cres) (cs : list cell) : nat :=
  length (filter (fun c => match p c with CFix _ _ => true | _ => false end) cs).

Lemma parse_cells_spec p cs : forall fx vs fx',
  parse_cells p cs fx = Ok (vs, fx') ->
  col_values p cs = Some vs /\ length vs = length cs /\
  fx_errors fx' = fx_errors fx /\ fx_warnings fx' = fx_warnings fx + n_fix p cs /\
  (exists m, fx_messages fx' = fx_messages fx ++ m /\ length m = n_fix p cs).
Proof.
  induction cs as [|c rest IH]; intros fx vs fx' H; cbn in H.
  - inversion H; subst. cbn. repeat split; auto. exists []. now rewrite app_nil_r.
  - unfold n_fix in *. cbn [filter col_values]. destruct (p c) as [v|vt shown| |] eqn:E; try discriminate.
    + destruct (parse_cells p rest fx) as [[vs0 fx0]|m|] eqn:R; try discriminate. inversion H; subst.
      destruct (IH _ _ _ R) as (H1 & H2 & H3 & H4 & H5). rewrite H1. cbn. repeat split; auto.
    + destruct (parse_cells p rest (fx_warn fx (DIllegal vt shown))) as [[vs0 fx0]|m|] eqn:R; try discriminate.
      inversion H; subst. destruct (IH _ _ _ R) as (H1 & H2 & H3 & H4 & [m [H5 H6]]). rewrite H1. cbn in *.
      repeat split; auto; try lia. exists (DIllegal vt shown :: m). rewrite H5, <- app_assoc. cbn. split; [reflexivity|lia].
Qed.

(* each cell's value: the defect-free parse, or the fixer's replacement for an illegal cell *)
Lemma col_values_cells p cs vs :
  col_values p cs = Some vs ->
  Forall2 (fun c v => match p c with
                      | CVal v' => v = v'
                      | CFix vt _ => v = fix_value cfg vt
                      | _ => False
                      end) cs vs.
Proof.
  revert vs; induction cs as [|c rest IH]; intros vs H; cbn in H.
  - inversion H. constructor.
  - destruct (p c) eqn:E; try discriminate; destruct (col_values p rest) eqn:R; try discriminate;
    inversion H; subst; constructor; auto; rewrite E; reflexivity.
Qed.

Lemma parse_cells_no_crash p cs : forall fx,
  (forall c, p c <> CCrash) -> parse_cells p cs fx <> Crash.
Proof.
  induction cs as [|c rest IH]; intros fx Hp; cbn; [discriminate|].
  specialize (Hp c) as Hc. destruct (p c); try discriminate; try congruence.
  - specialize (IH fx Hp). destruct (parse_cells p rest fx) as [[? ?]| |]; congruence.
  - specialize (IH (fx_warn fx (DIllegal vt shown)) Hp).
    destruct (parse_cells p rest _) as [[? ?]| |]; congruence.
Qed.

Lemma cell_parser_no_crash u c : (forall s, parse_dt s <> DCrash) -> cell_parser u c <> CCrash.
Proof.
  intro Hd. unfold ParseTable.cell_parser.
  destruct (str_eqb u s_text); [discriminate|].
  destruct (str_eqb u s_onoff).
  - destruct (onoff_cell_cases c) as [[b ->]| ->]; discriminate.
  - destruct (str_eqb u s_datetime).
    + destruct c as [s| |z fl r|f r|b|d r| |t r]; cbn; try discriminate.
      destruct (strip s) as [|c0 v]; [discriminate|].
      destruct (is_digit c0 || is_marker (lower (c0 :: v))); [|discriminate].
      destruct (is_marker (lower (c0 :: v))); [discriminate|].
      specialize (Hd (c0 :: v)). destruct (parse_dt (c0 :: v)); congruence.
    + destruct (float_cell_cases c) as [[f ->]|[sh ->]]; discriminate.
Qed.

(* ---------------- parse_columns: each column depends only on its own unit and cells ---------- *)
Lemma parse_columns_spec units : forall cols fx vss fx',
  parse_columns units cols fx = Ok (vss, fx') ->
  length vss = Nat.min (length units) (length cols) /\
  forall j vs, nth_error vss j = Some vs ->
    exists u c, nth_error units j = Some u /\ nth_error cols j = Some c /\
                col_values (cell_parser u) c = Some vs.
Proof.
  induction units as [|u us IH]; intros cols fx vss fx' H; cbn in H.
  - inversion H; subst. split; [reflexivity|]. intros [|j] vs Hj; discriminate.
  - destruct cols as [|c cs]; [inversion H; subst; split; [reflexivity|intros [|j] vs Hj; discriminate]|].
    destruct (ParseTable.parse_cells cfg (cell_parser u) c fx) as [[vs0 fx1]|m|] eqn:E; try discriminate.
    destruct (parse_columns us cs fx1) as [[vss0 fx2]|m|] eqn:R; try discriminate.
    inversion H; subst. destruct (IH _ _ _ _ R) as [L HN]. split; [cbn; now rewrite L|].
    intros [|j] vs Hj; cbn in Hj.
    + inversion Hj; subst. exists u, c. repeat split; auto. exact (proj1 (parse_cells_spec _ _ _ _ _ E)).
    + destruct (HN _ _ Hj) as (u' & c' & H1 & H2 & H3). exists u', c'. auto.
Qed.

Lemma parse_columns_counts units : forall cols fx vss fx',
  parse_columns units cols fx = Ok (vss, fx') ->
  fx_errors fx' = fx_errors fx /\ fx_warnings fx <= fx_warnings fx'.
Proof.
  induction units as [|u us IH]; intros cols fx vss fx' H; cbn in H.
  - inversion H; subst. auto.
  - destruct cols as [|c cs]; [inversion H; subst; auto|].
    destruct (ParseTable.parse_cells cfg (cell_parser u) c fx) as [[vs0 fx1]|m|] eqn:E; try discriminate.
    destruct (parse_columns us cs fx1) as [[vss0 fx2]|m|] eqn:R; try discriminate.
    inversion H; subst. destruct (IH _ _ _ _ R) as [H1 H2].
    destruct (parse_cells_spec _ _ _ _ _ E) as (_ & _ & H3 & H4 & _). split; lia.
Qed.

Lemma parse_columns_no_crash units : forall cols fx,
  (forall s, parse_dt s <> DCrash) -> parse_columns units cols fx <> Crash.
Proof.
  induction units as [|u us IH]; intros cols fx Hd; cbn; [discriminate|].
  destruct cols as [|c cs]; [discriminate|].
  pose proof (parse_cells_no_crash (cell_parser u) c fx (fun c' => cell_parser_no_crash u c' Hd)) as Hc.
  destruct (ParseTable.parse_cells cfg (cell_parser u) c fx) as [[vs0 fx1]|m|]; try congruence.
  specialize (IH cs fx1 Hd). destruct (parse_columns us cs fx1) as [[? ?]| |]; congruence.
Qed.

(* ---------------- duplicate column names ---------------- *)
Lemma mem_str_In s l : mem_str s l = true <-> In s l.
Proof.
  unfold mem_str. rewrite existsb_exists. split.
  - intros [x [Hx E]]. apply str_eqb_eq in E. now subst.
  - intro H. exists s. split; [assumption|apply str_eqb_refl].
Qed.

Lemma pad3_inj (n m : N) : (n < 1000)%N -> (m < 1000)%N -> pad3 n = pad3 m -> n = m.
Proof.
  unfold pad3. intros Hn Hm H.
  assert (H1 : (48 + n / 100 = 48 + m / 100)%N) by exact (f_equal (fun l => nth 0 l 0%N) H).
  assert (H2 : (48 + (n / 10) mod 10 = 48 + (m / 10) mod 10)%N) by exact (f_equal (fun l => nth 1 l 0%N) H).
  assert (H3 : (48 + n mod 10 = 48 + m mod 10)%N) by exact (f_equal (fun l => nth 2 l 0%N) H).
  clear H. lia.
Qed.

Lemma fixed_name_inj c (n m : N) : (n < 1000)%N -> (m < 1000)%N -> fixed_name c n = fixed_name c m -> n = m.
Proof.
  unfold fixed_name. intros Hn Hm H. apply app_inv_head in H. apply app_inv_head in H.
  now apply pad3_inj.
Qed.

(* first_free either returns a name it checked to be free, or - only when every candidate from sq
   on is taken - the literal fallback *)
Lemma first_free_spec c taken fuel : forall sq,
  let t := first_free c taken fuel sq in
  ~ In t taken \/
  (forall k, (k < N.of_nat fuel)%N -> In (fixed_name c (sq + k)) taken).
Proof.
  induction fuel as [|f IH]; intro sq; cbn.
  - right. intros k Hk. lia.
  - destruct (mem_str (fixed_name c sq) taken) eqn:M.
    + destruct (IH (sq + 1)%N) as [H|H]; [left; exact H|]. right. intros k Hk.
      destruct (N.eq_dec k 0) as [->|Hk0].
      * rewrite N.add_0_r. now apply mem_str_In.
      * replace (sq + k)%N with (sq + 1 + (k - 1))%N by lia. apply H. lia.
    + left. intro C. apply mem_str_In in C. congruence.
Qed.

Lemma NoDup_map_inj_in {A B} (f : A -> B) (l : list A) :
  (forall x y, In x l -> In y l -> f x = f y -> x = y) -> NoDup l -> NoDup (map f l).
Proof.
  induction l as [|a l IH]; intros Hi ND; cbn; [constructor|].
  inversion ND as [|? ? Hn ND']; subst. constructor.
  - intro C. apply in_map_iff in C. destruct C as [y [E Hy]].
    assert (y = a) by (apply Hi; [now right|now left|exact E]). subst. contradiction.
  - apply IH; [|assumption]. intros x y Hx Hy. apply Hi; now right.
Qed.

Lemma NoDup_app_snoc {A} (l : list A) x : NoDup l -> ~ In x l -> NoDup (l ++ [x]).
Proof.
  intros ND Hn. induction l as [|a l IH]; cbn.
  - constructor; [intros []|constructor].
  - inversion ND; subst. constructor.
    + intro C. apply in_app_or in C. destruct C as [C|[C|[]]]; [contradiction|]. subst. apply Hn. now left.
    + apply IH; [assumption|]. intro C. apply Hn. now right.
Qed.

Lemma candidates_nodup c (n : nat) : n <= 1000 ->
  NoDup (map (fun k => fixed_name c (N.of_nat k)) (seq 0 n)).
Proof.
  intro Hn. apply NoDup_map_inj_in; [|apply seq_NoDup].
  intros x y Hx Hy E. apply in_seq in Hx, Hy. apply fixed_name_inj in E; lia.
Qed.

Lemma first_free_fresh c taken : length taken < 1000 -> ~ In (first_free c taken 1000 0) taken.
Proof.
  intro L. destruct (first_free_spec c taken 1000 0%N) as [H|H]; [exact H|]. exfalso.
  assert (incl (map (fun k => fixed_name c (N.of_nat k)) (seq 0 1000)) taken) as I.
  { intros x Hx. apply in_map_iff in Hx. destruct Hx as [k [<- Hk]]. apply in_seq in Hk.
    specialize (H (N.of_nat k)). cbn in H. apply H. lia. }
  apply NoDup_incl_length in I; [|apply candidates_nodup; lia].
  rewrite map_length, seq_length in I. lia.
Qed.

Definition n_dups (raw : list str) (acc : list str) : nat :=
  (fix go raw acc :=
     match raw with
     | [] => 0
     | c :: rest => if mem_str c acc then S (go rest (acc ++ [first_free c acc 1000 0]))
                    else go rest (acc ++ [c])
     end) raw acc.

(* column names come out unique, one per raw name; each duplicate costs exactly one error *)
Lemma fix_duplicates_step c rest pos acc fx :
  fix_duplicates (c :: rest) pos acc fx =
  if mem_str c acc then
    if mem_str (first_free c acc 1000 0) acc then Crash
    else fix_duplicates rest (S pos) (acc ++ [first_free c acc 1000 0]) (fx_err fx (DDuplicate c pos))
  else fix_duplicates rest (S pos) (acc ++ [c]) fx.
Proof.
  cbn [fix_duplicates]. destruct (mem_str c acc); cbn [negb andb]; [reflexivity|].
  destruct c; reflexivity.
Qed.

Lemma fix_duplicates_spec raw : forall pos acc fx,
  NoDup acc -> length acc + length raw < 1000 ->
  exists names fx',
    fix_duplicates raw pos acc fx = Ok (names, fx') /\
    NoDup names /\ length names = length acc + length raw /\
    fx_warnings fx' = fx_warnings fx /\ fx_errors fx <= fx_errors fx' /\
    fx_errors fx' <= fx_errors fx + length raw /\
    (NoDup (acc ++ raw) -> names = acc ++ raw /\ fx' = fx).
Proof.
  induction raw as [|c rest IH]; intros pos acc fx ND L.
  - exists acc, fx. cbn. rewrite !app_nil_r, Nat.add_0_r. repeat split; auto; try lia.
  - rewrite fix_duplicates_step. cbn [length] in L.
    destruct (mem_str c acc) eqn:M.
    + (* duplicate *)
      pose proof (first_free_fresh c acc ltac:(lia)) as Hf.
      destruct (mem_str (first_free c acc 1000 0) acc) eqn:M2; [apply mem_str_In in M2; contradiction|].
      assert (NoDup (acc ++ [first_free c acc 1000 0])) as ND' by (apply NoDup_app_snoc; assumption).
      destruct (IH (S pos) _ (fx_err fx (DDuplicate c pos)) ND' ltac:(rewrite app_length; cbn [length]; lia))
        as (names & fx' & E & H1 & H2 & H3 & H4 & H5 & _).
      exists names, fx'. rewrite app_length in H2. cbn [length fx_err fx_errors fx_warnings] in *.
      repeat split; auto; try lia.
      all: exfalso; apply mem_str_In in M;
        match goal with C : NoDup (_ ++ _ :: _) |- _ =>
          apply NoDup_remove_2 in C; apply C; apply in_or_app; now left end.
    + assert (NoDup (acc ++ [c])) as ND'.
      { apply NoDup_app_snoc; [assumption|]. intro C. apply mem_str_In in C. congruence. }
      destruct (IH (S pos) _ fx ND' ltac:(rewrite app_length; cbn [length]; lia))
        as (names & fx' & E & H1 & H2 & H3 & H4 & H5 & H6).
      exists names, fx'. rewrite app_length in H2. cbn [length] in *. rewrite <- app_assoc in H6. cbn [app] in H6.
      repeat split; auto; try lia; now apply H6.
Qed.
End P.

(* ---------------- C13: the table as a whole ---------------- *)
Section Table.
Variable parse_float : str -> option ftok.
Variable parse_dt : str -> dres.
Variable cfg : fixer_cfg.
Notation parse_table := (parse_table parse_float parse_dt cfg).
Notation parse_columns := (ParseTable.parse_columns parse_float parse_dt cfg).

(* every counted repair has its log entry *)
Definition balanced (fx0 fx : fixer_st) : Prop :=
  exists m, fx_messages fx = fx_messages fx0 ++ m /\ fx_fixes fx = fx_fixes fx0 + length m.

Lemma balanced_refl fx : balanced fx fx.
Proof. exists []. rewrite app_nil_r. cbn. split; [reflexivity|lia]. Qed.

Lemma balanced_trans a b c : balanced a b -> balanced b c -> balanced a c.
Proof.
  intros [m1 [E1 F1]] [m2 [E2 F2]]. exists (m1 ++ m2). rewrite E2, E1, app_assoc, app_length.
  split; [reflexivity|lia].
Qed.

Lemma balanced_warn fx d : balanced fx (fx_warn fx d).
Proof. exists [d]. unfold fx_fixes. cbn. split; [reflexivity|lia]. Qed.
Lemma balanced_err fx d : balanced fx (fx_err fx d).
Proof. exists [d]. unfold fx_fixes. cbn. split; [reflexivity|lia]. Qed.

Lemma parse_cells_balanced p cs : forall fx vs fx',
  ParseTable.parse_cells cfg p cs fx = Ok (vs, fx') -> balanced fx fx'.
Proof.
  intros fx vs fx' H. destruct (parse_cells_spec cfg p cs fx vs fx' H) as (_ & _ & H3 & H4 & [m [H5 H6]]).
  exists m. unfold fx_fixes. split; [assumption|lia].
Qed.

Lemma parse_columns_balanced units : forall cols fx vss fx',
  parse_columns units cols fx = Ok (vss, fx') -> balanced fx fx'.
Proof.
  induction units as [|u us IH]; intros cols fx vss fx' H; cbn in H.
  - inversion H; subst. apply balanced_refl.
  - destruct cols as [|c cs]; [inversion H; subst; apply balanced_refl|].
    destruct (ParseTable.parse_cells cfg (cell_parser parse_float parse_dt u) c fx) as [[vs0 fx1]|m|] eqn:E; try discriminate.
    destruct (parse_columns us cs fx1) as [[vss0 fx2]|m|] eqn:R; try discriminate.
    inversion H; subst. eapply balanced_trans; [eapply parse_cells_balanced; eauto|eapply IH; eauto].
Qed.

Definition n_short (n_col : nat) (rows : list (list cell)) : nat :=
  length (filter (fun r => Nat.ltb (length r) n_col) rows).

Lemma fill_rows_spec n_col rows : forall i fx rows' fx',
  fill_rows n_col rows i fx = (rows', fx') ->
  length rows' = length rows /\ Forall (fun r => n_col <= length r) rows' /\
  fx_warnings fx' = fx_warnings fx /\ fx_errors fx' = fx_errors fx + n_short n_col rows /\
  balanced fx fx' /\
  Forall2 (fun r r' => r' = if Nat.ltb (length r) n_col then r ++ repeat s_NaN_cell (n_col - length r) else r)
          rows rows'.
Proof.
  unfold n_short. induction rows as [|r rest IH]; intros i fx rows' fx' H; cbn [fill_rows] in H.
  - injection H as <- <-. cbn. repeat split; auto; try lia. apply balanced_refl.
  - cbn [filter]. destruct (Nat.ltb (length r) n_col) eqn:Hlt.
    + destruct (fill_rows n_col rest (S i) (fx_err fx (DShortRow i))) as [rs fx1] eqn:E.
      injection H as <- <-. destruct (IH _ _ _ _ E) as (A1 & A2 & A3 & A4 & A5 & A6).
      apply Nat.ltb_lt in Hlt. cbn [length fx_err fx_errors fx_warnings] in *. repeat split; auto; try lia.
      * constructor; [|assumption]. rewrite app_length, repeat_length. lia.
      * eapply balanced_trans; [apply balanced_err|exact A5].
      * constructor; [|assumption]. apply Nat.ltb_lt in Hlt. now rewrite Hlt.
    + destruct (fill_rows n_col rest (S i) fx) as [rs fx1] eqn:E.
      injection H as <- <-. destruct (IH _ _ _ _ E) as (A1 & A2 & A3 & A4 & A5 & A6).
      pose proof Hlt as Hlt'. apply Nat.ltb_ge in Hlt. cbn [length] in *. repeat split; auto; try lia.
      constructor; [|assumption]. now rewrite Hlt'.
Qed.

Lemma fix_duplicates_balanced raw : forall pos acc fx names fx',
  fix_duplicates raw pos acc fx = Ok (names, fx') -> balanced fx fx'.
Proof.
  induction raw as [|c rest IH]; intros pos acc fx names fx' H.
  - cbn in H. inversion H; subst. apply balanced_refl.
  - rewrite fix_duplicates_step in H. destruct (mem_str c acc).
    + destruct (mem_str (first_free c acc 1000 0) acc); [discriminate|].
      eapply balanced_trans; [apply balanced_err|eapply IH; eauto].
    + eapply IH; eauto.
Qed.

Lemma strip_units_length ucs units : strip_units ucs = Some units -> length units = length ucs.
Proof.
  revert units; induction ucs as [|c rest IH]; intros units H; cbn in H.
  - inversion H. reflexivity.
  - destruct c; try discriminate. destruct (strip_units rest); [|discriminate]. inversion H; subst.
    cbn. f_equal. now apply IH.
Qed.

Lemma fix_duplicates_length raw : forall pos acc fx names fx',
  fix_duplicates raw pos acc fx = Ok (names, fx') -> length names = length acc + length raw.
Proof.
  induction raw as [|c rest IH]; intros pos acc fx names fx' H.
  - cbn in H. injection H as <- <-. cbn. lia.
  - rewrite fix_duplicates_step in H. cbn [length]. destruct (mem_str c acc).
    + destruct (mem_str (first_free c acc 1000 0) acc); [discriminate|].
      apply IH in H. rewrite app_length in H. cbn in H. lia.
    + apply IH in H. rewrite app_length in H. cbn in H. lia.
Qed.

Lemma column_names_length cs raw : column_names cs = Some raw -> length raw <= length cs.
Proof.
  revert raw; induction cs as [|c rest IH]; intros raw H; cbn in H.
  - injection H as <-. cbn. lia.
  - destruct (cell_blank c); [injection H as <-; cbn; lia|].
    destruct c; try discriminate. destruct (column_names rest) eqn:E; [|discriminate].
    injection H as <-. cbn. specialize (IH _ eq_refl). lia.
Qed.

(* what a successful table parse went through *)
Lemma parse_table_ok_inv cells fx p :
  parse_table cells fx = Ok p ->
  (p_names p = [] /\ p_units p = [] /\ p_cols p = [] /\ p_fx p = fx) \/
  exists raw names fx1 units rows0 rows fx2 cols fx3,
    fix_duplicates raw 0 [] fx = Ok (names, fx1) /\
    length units = length names /\
    fill_rows (length names) rows0 0 fx1 = (rows, fx2) /\
    parse_columns units (columns_of (length names) rows) fx2 = Ok (cols, fx3) /\
    p_names p = names /\ p_units p = units /\
    p_cols p = cols ++ repeat [] (length names - length cols) /\ p_fx p = fx3 /\
    (Nat.ltb 0 (fx_fixes fx3) && stop_on_errors cfg = false).
Proof.
  unfold ParseTable.parse_table.
  destruct cells as [|r0 rest0]; [discriminate|]. destruct r0 as [|[c00| | | | | | | ] x]; try discriminate.
  destruct (drop_last_star (skipn 2 c00)) as [name tr] eqn:D.
  destruct rest0 as [|r1 rest1]; [discriminate|]. destruct r1 as [|d0 r1']; [discriminate|].
  destruct rest1 as [|r2 rest2]; [intro H; injection H as <-; left; auto|].
  match goal with |- match ?rn with _ => _ end = _ -> _ => destruct rn as [raw|] eqn:ERN; [|discriminate] end.
  destruct (fix_duplicates raw 0 [] fx) as [[names fx1]|m|] eqn:E1; try discriminate.
  match goal with |- match ?u with _ => _ end = _ -> _ => destruct u as [ucs|] eqn:EU; [|discriminate] end.
  destruct (strip_units ucs) as [units|] eqn:ES; [|discriminate].
  match goal with |- (let (rows, fx2) := ?f in _) = _ -> _ => destruct f as [rows fx2] eqn:EF end.
  destruct (parse_columns units (columns_of (length names) rows) fx2) as [[cols fx3]|m|] eqn:EC; try discriminate.
  destruct (Nat.ltb 0 (fx_fixes fx3) && stop_on_errors cfg) eqn:ER; [discriminate|].
  intro H; injection H as <-; cbn. right.
  eexists raw, names, fx1, units, _, rows, fx2, cols, fx3. repeat split; eauto.
  apply strip_units_length in ES. rewrite ES.
  pose proof (fix_duplicates_length _ _ _ _ _ _ E1) as LN. cbn [length] in LN. unfold row in *.
  destruct tr.
  - destruct (existsb (fun l => Nat.ltb (length l) 2) (firstn (length names) (r2 :: rest2))); [discriminate|].
    injection EU as <-. rewrite map_length, firstn_length_le; [reflexivity|].
    apply column_names_length in ERN. rewrite map_length in ERN. cbn [length] in *. lia.
  - destruct rest2 as [|r3 data]; [discriminate|].
    destruct (Nat.ltb (length (firstn (length names) r3)) (length names)) eqn:LT; [discriminate|].
    injection EU as <-. apply Nat.ltb_ge in LT. rewrite firstn_length in *. lia.
Qed.

(* C13: a strict read accepts only tables that needed no repair *)
Theorem strict_accepts_clean cells fx p :
  stop_on_errors cfg = true -> parse_table cells fx = Ok p -> fx_fixes (p_fx p) = fx_fixes fx \/ fx_fixes (p_fx p) = 0.
Proof.
  intros S H. destruct (parse_table_ok_inv _ _ _ H) as [(_ & _ & _ & ->)|(raw & names & fx1 & units & rows0 & rows & fx2 & cols & fx3 & _ & _ & _ & _ & _ & _ & _ & -> & R)].
  - now left.
  - right. rewrite S, andb_true_r in R. apply Nat.ltb_ge in R. lia.
Qed.

(* C13: every repair that was counted was also logged, so the strict error message (the log)
   names every defect *)
Theorem fixes_logged cells fx p : parse_table cells fx = Ok p -> balanced fx (p_fx p).
Proof.
  intro H. destruct (parse_table_ok_inv _ _ _ H) as [(_ & _ & _ & ->)|(raw & names & fx1 & units & rows0 & rows & fx2 & cols & fx3 & E1 & _ & E2 & E3 & _ & _ & _ & -> & _)].
  - apply balanced_refl.
  - eapply balanced_trans; [eapply fix_duplicates_balanced; eauto|].
    eapply balanced_trans; [exact (proj1 (proj2 (proj2 (proj2 (proj2 (fill_rows_spec _ _ _ _ _ _ E2)))))) |].
    eapply parse_columns_balanced; eauto.
Qed.

(* C13: the table has its full shape: one unit and one value list per column name *)
Theorem table_shape_full cells fx p :
  parse_table cells fx = Ok p ->
  length (p_units p) = length (p_names p) /\ length (p_cols p) = length (p_names p).
Proof.
  intro H. destruct (parse_table_ok_inv _ _ _ H) as [(-> & -> & -> & _)|(raw & names & fx1 & units & rows0 & rows & fx2 & cols & fx3 & E1 & LU & E2 & E3 & -> & -> & -> & _ & _)].
  - auto.
  - split; [assumption|]. rewrite app_length, repeat_length.
    destruct (parse_columns_spec parse_float parse_dt cfg _ _ _ _ _ E3) as [L _]. rewrite L.
    assert (length (columns_of (length names) rows) <= length names) as C.
    { unfold columns_of. destruct rows; cbn; [lia|]. rewrite map_length, seq_length. lia. }
    lia.
Qed.

(* C13: column names come out unique *)
Theorem names_unique cells fx p :
  parse_table cells fx = Ok p -> length (p_names p) < 1000 -> NoDup (p_names p).
Proof.
  intros H L. destruct (parse_table_ok_inv _ _ _ H) as [(-> & _)|(raw & names & fx1 & units & rows0 & rows & fx2 & cols & fx3 & E1 & _ & _ & _ & EN & _)].
  - constructor.
  - rewrite EN in *. pose proof (fix_duplicates_length _ _ _ _ _ _ E1) as LN. cbn in LN.
    destruct (fix_duplicates_spec parse_float parse_dt raw 0 [] fx (NoDup_nil _) ltac:(cbn; lia)) as (n' & f' & E' & ND & _).
    rewrite E1 in E'. injection E' as <- <-. exact ND.
Qed.
End Table.
