(* C01 for tables without rows, and the bundle theorem for any mix of tables with and without rows.
   A row-wise table without rows is written with one extra empty line ("\n".join([]) = ""), so its
   block is followed by two blank rows; a transposed one has an empty trailing cell on each line. *)
From Coq Require Import Lia.
From PdV Require Import ParseTable TextProofs ParseProofs LayoutProofs WriteProofs SegmentProofs BlockEndProofs RoundTrip.
From PdV.Model Require Import WriteCsv Segment Reader.
Local Open Scope nat_scope.

(* ---------- segmentation with any positive number of blank rows after each table ---------- *)
Section BundleK.
Variable R : Type.
Variable kind_of : R -> kind.
Variable b : R.
Hypothesis H_b : kind_of b = KBlank0.
Notation step := (Segment.step kind_of).

Definition chunk3 : Type := R * list R * nat.       (* first row, further rows, extra blank rows *)
Definition chunk3_rows (ch : chunk3) : list R := fst (fst ch) :: snd (fst ch) ++ b :: repeat b (snd ch).
Definition chunk3_ok (ch : chunk3) : Prop :=
  kind_of (fst (fst ch)) = KTable /\ Forall (is_plain R kind_of) (snd (fst ch)).

Fixpoint blocks3_from (i : nat) (chunks : list chunk3) : list (block R) :=
  match chunks with
  | [] => []
  | ch :: rest => (BTable, i, fst (fst ch) :: snd (fst ch)) :: blocks3_from (i + length (chunk3_rows ch)) rest
  end.

Lemma blanks_fold k : forall i (s : st R), cur s = BBlank -> fold_left step (number i (repeat b k)) s = s.
Proof.
  induction k as [|k IH]; intros i s Hc; [reflexivity|]. cbn [repeat number fold_left].
  assert (Segment.step kind_of s (i, b) = s) as -> by (unfold Segment.step; rewrite H_b, Hc; reflexivity).
  now apply IH.
Qed.

Lemma chunk3_fold (s : st R) i ch :
  grid s = [] -> chunk3_ok ch ->
  let s' := fold_left step (number i (chunk3_rows ch)) s in
  grid s' = [] /\ cur s' = BBlank /\ out s' = (BTable, i, fst (fst ch) :: snd (fst ch)) :: out s.
Proof.
  intros Hg Hok. destruct ch as [[r body] k]. unfold chunk3_rows. cbn [fst snd] in *.
  assert (r :: body ++ b :: repeat b k = chunk_rows R b (r, body) ++ repeat b k) as ->
    by (unfold chunk_rows; cbn [fst snd app]; now rewrite <- app_assoc).
  rewrite number_app, fold_left_app. rewrite (chunk_fold R kind_of b H_b s i (r, body) Hg Hok).
  rewrite blanks_fold by reflexivity. cbn [grid cur out fst snd]. repeat split.
Qed.

Lemma chunks3_fold chunks : forall (s : st R) i,
  grid s = [] -> Forall chunk3_ok chunks ->
  let s' := fold_left step (number i (flat_map chunk3_rows chunks)) s in
  grid s' = [] /\ out s' = rev (blocks3_from i chunks) ++ out s.
Proof.
  induction chunks as [|ch rest IH]; intros s i Hg Hok; cbn [flat_map number fold_left blocks3_from rev app].
  - split; [assumption|reflexivity].
  - inversion Hok as [|? ? Hch Hrest]; subst.
    rewrite number_app, fold_left_app.
    destruct (chunk3_fold s i ch Hg Hch) as (G1 & _ & O1).
    destruct (IH _ (i + length (chunk3_rows ch)) G1 Hrest) as [G O]. split; [exact G|].
    rewrite O, O1. rewrite <- app_assoc. reflexivity.
Qed.

Theorem segment_bundle3 chunks :
  Forall chunk3_ok chunks -> segment kind_of (flat_map chunk3_rows chunks) = blocks3_from 0 chunks.
Proof.
  intro H. unfold segment, run. destruct (chunks3_fold chunks init 0 eq_refl H) as [G O].
  unfold emit. rewrite G, O. cbn [out init]. rewrite app_nil_r. apply rev_involutive.
Qed.
End BundleK.

(* ---------- tables without rows ---------- *)
Section Zero.
Variable parse_float : str -> option ftok.
Variable parse_dt : str -> dres.
Variable cfg : fixer_cfg.
Variable sep : N.
Variable nm : str.
Variable ds : list str.
Variable cols : list wcol.
Notation n := (length cols).

Hypothesis H_rect : Forall (fun c => wc_vals c = []) cols.
Hypothesis H_cols : cols <> [].
Hypothesis H_sep_name : has sep (stars ++ nm) = false.
Hypothesis H_sep_dests : has sep (join [32%N] ds) = false.
Hypothesis H_sep_names : forallb (fun c => negb (has sep (wc_name c))) cols = true.
Hypothesis H_sep_units : forallb (fun c => negb (has sep (wc_unit c))) cols = true.

Lemma z_n_rows : n_rows cols = 0.
Proof. unfold n_rows. destruct cols as [|c ?]; [reflexivity|]. inversion H_rect as [|? ? Hc ?]. now rewrite Hc. Qed.

Lemma z_map_ne {A} (f : wcol -> A) : map f cols <> [].
Proof. destruct cols; [exact (fun _ => H_cols eq_refl)|discriminate]. Qed.

Theorem rowwise_cells0 :
  cells_of_lines sep (table_lines sep {| w_name := nm; w_dests := ds; w_transposed := false; w_cols := cols |})
  = rowwise_grid (cellat cols) n 0 (stars ++ nm) [CStr []] (CStr (join [32%N] ds)) []
                 (map wc_name cols) (map wc_unit cols) [] [] (fun _ => [])
    ++ [[CStr []]].
Proof.
  unfold table_lines, rowwise_grid, cells_of_lines. cbn [w_transposed w_name w_dests w_cols map].
  rewrite z_n_rows. rewrite split_line0 by exact H_sep_name. rewrite (split_nosep _ _ H_sep_dests).
  rewrite split_join; [|apply z_map_ne|now rewrite forallb_map].
  rewrite split_join; [|apply z_map_ne|now rewrite forallb_map].
  rewrite !app_nil_r. reflexivity.
Qed.

Lemma z_col_cells first c : In c cols ->
  map CStr (split_on sep (wc_name c ++ [sep] ++ wc_unit c ++ [sep] ++ join [sep] (map (render (wc_unit c) first) (wc_vals c))))
  = [CStr (wc_name c); CStr (wc_unit c); CStr []].
Proof.
  intro Hin. rewrite Forall_forall in H_rect. rewrite (H_rect c Hin). cbn [map join].
  rewrite forallb_forall in H_sep_names, H_sep_units.
  pose proof (H_sep_names c Hin) as Hn. pose proof (H_sep_units c Hin) as Hu.
  apply negb_true_iff in Hn. apply negb_true_iff in Hu.
  change (wc_name c ++ [sep] ++ wc_unit c ++ [sep] ++ []) with (wc_name c ++ sep :: (wc_unit c ++ sep :: [])).
  rewrite split_app_sep by exact Hn. rewrite split_app_sep by exact Hu. reflexivity.
Qed.

Theorem transposed_cells0 :
  cells_of_lines sep (table_lines sep {| w_name := nm; w_dests := ds; w_transposed := true; w_cols := cols |})
  = transposed_grid (cellat cols) n 0 (stars ++ nm ++ [42%N]) [CStr []] (CStr (join [32%N] ds)) []
                    (map wc_name cols) (map wc_unit cols) (fun _ => [CStr []]).
Proof.
  unfold table_lines, transposed_grid, cells_of_lines. cbn [w_transposed w_name w_dests w_cols map].
  assert (split_on sep (stars ++ nm ++ [42%N] ++ [sep]) = [stars ++ nm ++ [42%N]; []]) as ->.
  { replace (stars ++ nm ++ [42%N] ++ [sep]) with ((stars ++ nm ++ [42%N]) ++ sep :: []) by (now rewrite <- !app_assoc).
    rewrite split_app_sep; [reflexivity|]. rewrite app_assoc, has_app, H_sep_name. cbn.
    pose proof H_sep_name as Hs. rewrite has_app in Hs. apply orb_false_iff in Hs as [Hs _]. cbn in Hs.
    apply orb_false_iff in Hs as [Hs _]. now rewrite Hs. }
  rewrite (split_nosep _ _ H_sep_dests). cbn [map]. do 2 f_equal.
  pose proof z_col_cells as ZC.
  destruct cols as [|c0 rest] eqn:Ec; [exfalso; now apply H_cols|]. rewrite <- Ec.
  transitivity (map (fun c => [CStr (wc_name c); CStr (wc_unit c); CStr []]) cols).
  - rewrite Ec. cbn [map]. f_equal.
    + apply ZC. now left.
    + rewrite map_map. apply map_ext_in. intros c Hc. apply ZC. now right.
  - transitivity (map (fun c => [CStr (wc_name c); CStr (wc_unit c); CStr []]) (map (fun j => nth j cols dcol) (seq 0 n)));
      [now rewrite seq_nth_map|].
    rewrite map_map. apply map_ext_in. intros j Hj. apply in_seq in Hj. unfold tline, col_of. cbn [seq map app].
    f_equal; [|f_equal].
    + f_equal. change (@nil N) with (wc_name dcol). now rewrite map_nth.
    + f_equal. change (@nil N) with (wc_unit dcol). now rewrite map_nth.
Qed.

(* ---- read back ---- *)
Variable fx : fixer_st.
Hypothesis H_fx : fx_fixes fx = 0.
Hypothesis H_name : drop_last_star nm = (nm, false).
Hypothesis H_names_nb : Forall (fun c => is_blank (wc_name c) = false) cols.
Hypothesis H_names_strip : map strip (map wc_name cols) = map wc_name cols.
Hypothesis H_units_strip : map strip (map wc_unit cols) = map wc_unit cols.
Hypothesis H_names_nodup : NoDup (map wc_name cols).

Lemma z_expected tr :
  expected parse_float parse_dt (cellat cols) n 0 nm (CStr (join [32%N] ds)) (map wc_name cols) (map wc_unit cols) fx tr
  = read_back nm ds cols fx tr.
Proof.
  unfold expected, read_back. unfold names, units. rewrite H_names_strip, H_units_strip. f_equal.
  unfold parsed_cols, col_of. cbn [seq map].
  transitivity (map (fun c => map (value_of (wc_unit c)) (wc_vals c)) (map (fun j => nth j cols dcol) (seq 0 n)));
    [|now rewrite seq_nth_map].
  rewrite map_map. apply map_ext_in. intros j Hj. apply in_seq in Hj.
  rewrite Forall_forall in H_rect. rewrite (H_rect (nth j cols dcol)) by (apply nth_In; lia). reflexivity.
Qed.

Lemma z_names_nb : Forall (fun w0 : str => is_blank w0 = false) (map wc_name cols).
Proof.
  apply Forall_forall. intros x Hx. apply in_map_iff in Hx as (c & <- & Hc).
  rewrite Forall_forall in H_names_nb. now apply H_names_nb.
Qed.

Lemma z_names_ne : Forall (fun c : str => c <> []) (names (map wc_name cols)).
Proof.
  unfold names. rewrite H_names_strip. apply Forall_forall. intros x Hx. apply in_map_iff in Hx as (c & <- & Hc).
  rewrite Forall_forall in H_names_nb. specialize (H_names_nb c Hc). intro E. rewrite E in H_names_nb. discriminate.
Qed.

Theorem rowwise_roundtrip0 :
  parse_table parse_float parse_dt cfg
    (rowwise_grid (cellat cols) n 0 (stars ++ nm) [CStr []] (CStr (join [32%N] ds)) []
                  (map wc_name cols) (map wc_unit cols) [] [] (fun _ => [])) fx
  = Ok (read_back nm ds cols fx false).
Proof.
  rewrite (rowwise_spec parse_float parse_dt cfg (cellat cols) n 0 (stars ++ nm) nm).
  - now rewrite z_expected.
  - now rewrite map_length.
  - now rewrite map_length.
  - exact z_names_nb.
  - now left.
  - unfold names. now rewrite H_names_strip.
  - exact z_names_ne.
  - exact H_fx.
  - intros j i _ Hi. lia.
  - exact H_name.
Qed.

Theorem transposed_roundtrip0 :
  parse_table parse_float parse_dt cfg
    (cells_of_lines sep (table_lines sep {| w_name := nm; w_dests := ds; w_transposed := true; w_cols := cols |})) fx
  = Ok (read_back nm ds cols fx true).
Proof.
  rewrite transposed_cells0.
  assert (0 < n) as Hn by (destruct cols; [exfalso; now apply H_cols|cbn; lia]).
  rewrite (transposed_spec parse_float parse_dt cfg (cellat cols) n 0 (stars ++ nm ++ [42%N]) nm _ _ _ _ _ (fun _ => [])).
  - now rewrite z_expected.
  - now rewrite map_length.
  - now rewrite map_length.
  - exact z_names_nb.
  - unfold names. now rewrite H_names_strip.
  - exact z_names_ne.
  - exact H_fx.
  - intros j i _ Hi. lia.
  - cbn [stars app skipn]. unfold drop_last_star. rewrite rev_app_distr. cbn [rev app]. now rewrite rev_involutive.
  - exact Hn.
  - intro j. repeat constructor.
  - intros i Hi. lia.
Qed.
End Zero.

(* ---------- bundles of tables with and without rows, with and without columns ---------- *)
Section Whole0.
Variable parse_float : str -> option ftok.
Variable parse_dt : str -> dres.
Variable cfg : fixer_cfg.
Variable raising : bool.
Variable sep : N.

Definition wf_zero (t : wtable) : Prop :=
  let cols := w_cols t in
  Forall (fun c => wc_vals c = []) cols /\ cols <> [] /\
  has sep (stars ++ w_name t) = false /\ has sep (join [32%N] (w_dests t)) = false /\
  forallb (fun c => negb (has sep (wc_name c))) cols = true /\
  forallb (fun c => negb (has sep (wc_unit c))) cols = true /\
  drop_last_star (w_name t) = (w_name t, false) /\
  Forall (fun c => is_blank (wc_name c) = false) cols /\
  map strip (map wc_name cols) = map wc_name cols /\
  map strip (map wc_unit cols) = map wc_unit cols /\
  NoDup (map wc_name cols).

(* a table without columns: name and destinations only *)
Definition wf_empty (t : wtable) : Prop :=
  w_cols t = [] /\ has sep (stars ++ w_name t) = false /\ has sep (join [32%N] (w_dests t)) = false /\
  drop_last_star (w_name t) = (w_name t, false).

(* a well-formed table: rows and columns, columns only, or neither *)
Definition wf_any (t : wtable) : Prop := wf_table parse_float parse_dt sep t \/ wf_zero t \/ wf_empty t.

(* empty lines the writer puts after the table's own lines, before the block terminator:
   "\n".join([]) = "" once for missing data rows, and for the missing name and unit lines *)
Definition n_extra (t : wtable) : nat :=
  match w_cols t with
  | [] => if w_transposed t then 1 else 3
  | _ => if negb (w_transposed t) && Nat.eqb (n_rows (w_cols t)) 0 then 1 else 0
  end.
Definition all_rows (t : wtable) : list row := cells_of_lines sep (table_lines sep t).
Definition core_rows (t : wtable) : list row := firstn (length (all_rows t) - n_extra t) (all_rows t).
Definition chunk3_of (t : wtable) : chunk3 row :=
  match core_rows t with
  | r :: body => (r, body, n_extra t)
  | [] => ([], [], 0)
  end.
Definition plain_core (t : wtable) : Prop :=
  match core_rows t with
  | r :: body => row_kind r = KTable /\ Forall (is_plain row row_kind) body
  | [] => False
  end.

Lemma firstn_app_drop {A} (x y : list A) : firstn (length (x ++ y) - length y) (x ++ y) = x.
Proof.
  rewrite app_length. replace (length x + length y - length y) with (length x) by lia.
  rewrite firstn_app, Nat.sub_diag, firstn_all. cbn. now rewrite app_nil_r.
Qed.

(* the written lines are the table's block rows followed by n_extra blank rows; the block rows parse
   back to the table *)
Lemma rows_shape t : wf_any t ->
  exists X, all_rows t = X ++ repeat blank_row (n_extra t) /\
            parse_table parse_float parse_dt cfg X fx_init = Ok (table_read_back t).
Proof.
  intros [Hw|[Hz|He]].
  - exists (all_rows t). split; [|now apply table_roundtrip].
    destruct Hw as (m & Hm & Hrect & Hc & _). unfold n_extra. destruct (w_cols t) as [|c cs] eqn:Ec; [congruence|].
    assert (negb (w_transposed t) && Nat.eqb (n_rows (c :: cs)) 0 = false) as ->.
    { destruct (w_transposed t); [reflexivity|]. cbn [negb andb n_rows]. inversion Hrect as [|? ? Hl ?]. rewrite Hl.
      destruct m; [lia|reflexivity]. }
    cbn [repeat]. now rewrite app_nil_r.
  - destruct t as [nm ds tr cols]. unfold wf_zero in Hz. unfold table_read_back, all_rows, n_extra.
    cbn [w_name w_dests w_transposed w_cols] in *.
    destruct Hz as (H1 & H2 & H3 & H4 & H5 & H6 & H7 & H8 & H9 & H10 & H11).
    destruct cols as [|c cs] eqn:Ec; [congruence|]. rewrite <- Ec in *.
    assert (Nat.eqb (n_rows cols) 0 = true) as Hn.
    { rewrite Ec. cbn [n_rows]. rewrite Ec in H1. inversion H1 as [|? ? Hl ?]. now rewrite Hl. }
    destruct tr; cbn [negb andb].
    + eexists. split; [cbn [repeat]; now rewrite app_nil_r|].
      apply (transposed_roundtrip0 parse_float parse_dt cfg sep nm ds cols); try assumption; reflexivity.
    + rewrite Hn. eexists. split; [apply (rowwise_cells0 sep nm ds cols); assumption|].
      apply (rowwise_roundtrip0 parse_float parse_dt cfg sep nm ds cols); try assumption; reflexivity.
  - destruct t as [nm ds tr cols]. unfold wf_empty in He. unfold table_read_back, all_rows, n_extra, cells_of_lines, table_lines.
    cbn [w_name w_dests w_transposed w_cols] in *. destruct He as (-> & H3 & H4 & H7).
    destruct tr; cbn [map n_rows join].
    + assert (split_on sep (stars ++ nm ++ [42%N] ++ [sep]) = [stars ++ nm ++ [42%N]; []]) as ->.
      { replace (stars ++ nm ++ [42%N] ++ [sep]) with ((stars ++ nm ++ [42%N]) ++ sep :: []) by (now rewrite <- !app_assoc).
        rewrite split_app_sep; [reflexivity|]. rewrite app_assoc, has_app, H3. cbn.
        pose proof H3 as Hs. rewrite has_app in Hs. apply orb_false_iff in Hs as [Hs _]. cbn in Hs.
        apply orb_false_iff in Hs as [Hs _]. now rewrite Hs. }
      rewrite (split_nosep _ _ H4). cbn [map split_on].
      exists [[CStr (stars ++ nm ++ [42%N]); CStr []]; [CStr (join [32%N] ds)]]. split; [reflexivity|].
      unfold ParseTable.parse_table. cbn [stars app skipn].
      assert (drop_last_star (nm ++ [42%N]) = (nm, true)) as ->
        by (unfold drop_last_star; rewrite rev_app_distr; cbn [rev app]; now rewrite rev_involutive).
      reflexivity.
    + rewrite split_line0 by exact H3. rewrite (split_nosep _ _ H4). cbn [map split_on].
      exists [[CStr (stars ++ nm); CStr []]; [CStr (join [32%N] ds)]]. split; [reflexivity|].
      unfold ParseTable.parse_table. cbn [stars app skipn]. rewrite H7. reflexivity.
Qed.

Lemma n_extra_blank_len t : length (repeat blank_row (n_extra t)) = n_extra t.
Proof. apply repeat_length. Qed.

Lemma core_rows_spec t X :
  all_rows t = X ++ repeat blank_row (n_extra t) -> core_rows t = X.
Proof.
  intro E. unfold core_rows. rewrite E. rewrite app_length, repeat_length.
  replace (length X + n_extra t - n_extra t) with (length X) by lia.
  rewrite firstn_app, Nat.sub_diag, firstn_all. cbn. now rewrite app_nil_r.
Qed.

Theorem core_roundtrip t :
  wf_any t -> parse_table parse_float parse_dt cfg (core_rows t) fx_init = Ok (table_read_back t).
Proof. intro H. destruct (rows_shape t H) as (X & E & P). now rewrite (core_rows_spec t X E). Qed.

Lemma rows_split t : wf_any t -> all_rows t = core_rows t ++ repeat blank_row (n_extra t).
Proof. intro H. destruct (rows_shape t H) as (X & E & _). now rewrite (core_rows_spec t X E). Qed.

Lemma repeat_snoc {A} (x : A) k : repeat x k ++ [x] = x :: repeat x k.
Proof. induction k; cbn; [reflexivity|]. now rewrite IHk. Qed.

Lemma chunk3_rows_of t : wf_any t -> plain_core t ->
  cells_of_lines sep (table_lines sep t ++ [[]]) = chunk3_rows row blank_row (chunk3_of t).
Proof.
  intros Hw Hp. rewrite cells_app. fold (all_rows t). rewrite (rows_split t Hw). unfold plain_core, chunk3_of in *.
  destruct (core_rows t) as [|r body]; [contradiction|]. unfold chunk3_rows. cbn [fst snd].
  change (cells_of_lines sep [[]]) with [blank_row].
  rewrite <- !app_assoc. cbn [app]. f_equal. f_equal. apply repeat_snoc.
Qed.

Lemma bundle_rows3 ts : Forall wf_any ts -> Forall plain_core ts ->
  cells_of_lines sep (flat_map (fun t => table_lines sep t ++ [[]]) ts)
  = flat_map (chunk3_rows row blank_row) (map chunk3_of ts).
Proof.
  induction ts as [|t rest IH]; intros Hw Hp; [reflexivity|].
  inversion Hw as [|? ? Hwt Hwr]; inversion Hp as [|? ? Hpt Hpr]; subst.
  cbn [flat_map map]. rewrite cells_app, chunk3_rows_of by assumption. now rewrite IH.
Qed.

Lemma deliver_bundle3 ts : forall i,
  Forall wf_any ts -> Forall plain_core ts ->
  deliver parse_float parse_dt cfg FPd None raising (blocks3_from row blank_row i (map chunk3_of ts)) []
  = (events_from sep i ts, FDone).
Proof.
  induction ts as [|t rest IH]; intros i Hwf Hpl; [reflexivity|].
  inversion Hwf as [|? ? Hw Hwf']; inversion Hpl as [|? ? Hp Hpl']; subst.
  cbn [map blocks3_from deliver events_from].
  assert (fst (fst (chunk3_of t)) :: snd (fst (chunk3_of t)) = core_rows t) as E.
  { unfold chunk3_of. unfold plain_core in Hp. destruct (core_rows t); [contradiction|reflexivity]. }
  unfold handle, accepted. cbn [negb]. rewrite E, (core_roundtrip t Hw).
  assert (p_fx (table_read_back t) = fx_init) as -> by reflexivity. cbn [fx_messages fx_init app].
  assert (i + length (chunk3_rows row blank_row (chunk3_of t)) = i + 1 + length (table_lines sep t)) as ->.
  { rewrite <- (chunk3_rows_of t Hw Hp). unfold cells_of_lines. rewrite map_length, app_length. cbn [length]. lia. }
  now rewrite IH.
Qed.

(* C01 in the model: any number of rows, any number of columns *)
Theorem bundle_roundtrip_any ts :
  Forall wf_any ts -> Forall plain_core ts ->
  forallb (fun t => forallb no_lf (table_lines sep t)) ts = true ->
  read parse_float parse_dt cfg FPd None raising (cells_of_lines sep (lines (write_csv sep ts)))
  = (events_from sep 0 ts, FDone).
Proof.
  intros Hwf Hpl Hlf. rewrite lines_of_bundle by assumption. rewrite bundle_rows3 by assumption.
  unfold read, segment_rows. rewrite (segment_bundle3 row row_kind blank_row eq_refl).
  - now apply deliver_bundle3.
  - apply Forall_forall. intros ch Hch. apply in_map_iff in Hch as (t & <- & Ht).
    rewrite Forall_forall in Hpl. specialize (Hpl t Ht). unfold plain_core, chunk3_of, chunk3_ok in *.
    destruct (core_rows t); [contradiction|exact Hpl].
Qed.
End Whole0.
