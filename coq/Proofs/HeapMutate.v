(* C05: mutating a well-formed frame's metadata leaves it well-formed. *)
From Coq Require Import Lia.
From PdV.Model Require Import Heap.
From PdV Require Import TextProofs HeapProofs HeapTyped.
Local Open Scope nat_scope.

Lemma typed_ext h h' i : ext h h' -> typed h i -> typed h' i.
Proof.
  intros E [(m & l & Hm & Hl) (d & Hd & Hc)]. split.
  - exists m, l. unfold meta_of in *. destruct (get h (i_meta i)) as [[| | |m']|] eqn:G; try discriminate.
    inversion Hm; subst m'. pose proof (E _ _ G) as G'. cbn in G'. rewrite G'. split; [reflexivity|].
    exact (E _ _ Hl).
  - exists d. split; [exact (E _ _ Hd)|]. intros n id Hin. destruct (Hc n id Hin) as [c Hcm]. eapply cm_of_ext; eauto.
Qed.

Lemma dict_get_in_pair n d id : dict_get n d = Some id -> exists k, In (k, id) d.
Proof.
  induction d as [|[k v] d IH]; cbn; [discriminate|]. destruct (str_eqb k n).
  - intro H. inversion H; subst. exists k. now left.
  - intro H. destruct (IH H) as [k' Hk]. exists k'. now right.
Qed.

Theorem mutate_typed h a m : wf_heap h -> typed h a -> typed (mutate h a m) a.
Proof.
  intros W T. pose proof T as [(tm & l & Hm & Hl) (d & Hd & Hc)].
  assert (dict_of h a = d) as Ed by (unfold dict_of; now rewrite Hd).
  assert (dests_of h a = l) as El by (unfold dests_of; now rewrite Hm, Hl).
  assert (get h (i_meta a) = Some (OMeta tm)) as Gm.
  { unfold meta_of in Hm. destruct (get h (i_meta a)) as [[| | |m']|]; try discriminate. now inversion Hm. }
  destruct m as [col u|dn|nn|col|col u]; cbn [mutate].
  - (* unit of one column *)
    rewrite Ed. destruct (dict_get col d) as [id|] eqn:D; [|exact T].
    destruct (cm_of h id) as [c|] eqn:C; [|exact T].
    eapply typed_ext; [|exact T]. eapply ext_put_cm; eauto.
  - (* a destination added *)
    rewrite Hm, El. split.
    + exists tm, (l ++ [dn]). unfold meta_of. rewrite get_put_other.
      * rewrite Gm. split; [reflexivity|apply get_put_same].
      * intro E. rewrite E in Gm. rewrite Gm in Hl. discriminate.
    + exists d. split.
      * rewrite get_put_other; [exact Hd|]. intro E. rewrite E in Hd. rewrite Hd in Hl. discriminate.
      * intros n id Hin. destruct (Hc n id Hin) as [c Hcm]. exists c. unfold cm_of in *. rewrite get_put_other; [exact Hcm|].
        intro E. subst id. rewrite Hl in Hcm. discriminate.
  - (* the name *)
    rewrite Hm. split.
    + eexists _, l. unfold meta_of. rewrite get_put_same. split; [reflexivity|]. cbn [tm_dests].
      rewrite get_put_other; [exact Hl|]. intro E. rewrite E in Hl. rewrite Hl in Gm. discriminate.
    + exists d. split.
      * rewrite get_put_other; [exact Hd|]. intro E. rewrite E in Hd. rewrite Hd in Gm. discriminate.
      * intros n id Hin. destruct (Hc n id Hin) as [c Hcm]. exists c. unfold cm_of in *. rewrite get_put_other; [exact Hcm|].
        intro E. subst id. rewrite Gm in Hcm. discriminate.
  - (* a register entry removed *)
    rewrite Ed. split.
    + exists tm, l. unfold meta_of. rewrite get_put_other.
      * rewrite Gm. split; [reflexivity|]. rewrite get_put_other; [exact Hl|]. intro E. rewrite E in Hl. rewrite Hl in Hd. discriminate.
      * intro E. rewrite E in Gm. rewrite Gm in Hd. discriminate.
    + eexists. split; [apply get_put_same|]. intros n id Hin. apply filter_In in Hin as [Hin _].
      destruct (Hc n id Hin) as [c Hcm]. exists c. unfold cm_of in *. rewrite get_put_other; [exact Hcm|].
      intro E. subst id. rewrite Hd in Hcm. discriminate.
  - (* a column added through the facade *)
    rewrite Ed. destruct (dict_get col d) as [id|] eqn:D; [exact T|].
    set (o := OCm {| cm_unit := u; cm_display_unit := None; cm_format := None |}).
    destruct (alloc h o) as [h1 nid] eqn:A.
    assert (wf_heap h1) as W1 by (pose proof (wf_alloc h o W) as X; now rewrite A in X).
    assert (ext h h1) as E1 by (pose proof (ext_alloc h o W) as X; now rewrite A in X).
    assert (get h1 nid = Some o) as Gn by (pose proof (get_alloc_new h o) as X; rewrite A in X; inversion A; subst; exact X).
    pose proof (typed_ext _ _ _ E1 T) as [(tm1 & l1 & Hm1 & Hl1) (d1 & Hd1 & Hc1)].
    assert (get h1 (i_meta a) = Some (OMeta tm)) as Gm1 by exact (E1 _ _ Gm).
    assert (get h1 (i_dict a) = Some (ODict d)) as Gd1 by exact (E1 _ _ Hd).
    assert (get h1 (tm_dests tm) = Some (OSet l)) as Gl1 by exact (E1 _ _ Hl).
    split.
    + exists tm, l. unfold meta_of. rewrite get_put_other.
      * rewrite Gm1. split; [reflexivity|]. rewrite get_put_other; [exact Gl1|]. intro E. rewrite E in Gl1. rewrite Gl1 in Gd1. discriminate.
      * intro E. rewrite E in Gm1. rewrite Gm1 in Gd1. discriminate.
    + eexists. split; [apply get_put_same|]. intros n id Hin. apply in_app_or in Hin as [Hin|[Hin|[]]].
      * destruct (Hc n id Hin) as [c Hcm]. destruct (cm_of_ext _ _ _ _ E1 Hcm) as [c' Hc']. exists c'.
        unfold cm_of in *. rewrite get_put_other; [exact Hc'|]. intro E. subst id. rewrite Gd1 in Hc'. discriminate.
      * inversion Hin; subst n id. eexists. unfold cm_of. rewrite get_put_other; [rewrite Gn; reflexivity|].
        intro E. rewrite E in Gn. rewrite Gn in Gd1. discriminate.
Qed.
