(* Proofs about M-Tree (Model/Tree.v). *)
From Coq Require Import Lia.
From PdV.Model Require Import Tree.
Local Open Scope nat_scope.

Section P.
Variable loc : Type.
Variable loc_eqb : loc -> loc -> bool.
Hypothesis loc_eqb_eq : forall a b, loc_eqb a b = true <-> a = b.
Notation buf := (buf loc).
Notation has := (has loc loc_eqb).
Notation add_child := (add_child loc loc_eqb).
Notation register := (register loc loc_eqb).
Notation children_of := (children_of loc loc_eqb).

Lemma NoDup_snoc {A} (l : list A) x : NoDup l -> ~ In x l -> NoDup (l ++ [x]).
Proof.
  intros ND Hn. induction l as [|a l IH]; cbn.
  - constructor; [intros []|constructor].
  - inversion ND; subst. constructor.
    + intro C. apply in_app_or in C. destruct C as [C|[C|[]]]; [contradiction|]. subst. apply Hn. now left.
    + apply IH; [assumption|]. intro C. apply Hn. now right.
Qed.

Lemma loc_eqb_refl a : loc_eqb a a = true.
Proof. now apply loc_eqb_eq. Qed.

Lemma has_In l (b : buf) : has l b = true <-> In l (map fst b).
Proof.
  induction b as [|[k cs] r IH]; cbn; [split; [discriminate|intros []]|].
  rewrite orb_true_iff, IH, loc_eqb_eq. tauto.
Qed.

Lemma add_child_keys l c (b : buf) : map fst (add_child l c b) = map fst b.
Proof. induction b as [|[k cs] r IH]; cbn; [reflexivity|]. destruct (loc_eqb k l); cbn; [reflexivity|now rewrite IH]. Qed.

Lemma count_app p (a b : list (child loc)) : count loc p (a ++ b) = count loc p a + count loc p b.
Proof. unfold count. now rewrite filter_app, app_length. Qed.

(* adding a child to an existing node adds exactly that one child, to that node *)
Lemma add_child_count p l c (b : buf) :
  NoDup (map fst b) -> In l (map fst b) ->
  count loc p (all_children loc (add_child l c b)) = count loc p (all_children loc b) + (if p c then 1 else 0).
Proof.
  unfold all_children. induction b as [|[k cs] r IH]; intros ND Hin; [destruct Hin|].
  cbn [map fst] in ND, Hin. inversion ND as [|? ? Hn ND']; subst.
  cbn [Tree.add_child]. destruct (loc_eqb k l) eqn:E; cbn [map snd concat].
  - rewrite !count_app. unfold count at 2. cbn [filter]. destruct (p c); cbn [length]; lia.
  - destruct Hin as [->|Hin]; [rewrite loc_eqb_refl in E; discriminate|].
    rewrite !count_app, (IH ND' Hin). lia.
Qed.

Lemma children_add_same l c (b : buf) :
  In l (map fst b) -> children_of l (add_child l c b) = children_of l b ++ [c].
Proof.
  unfold Tree.children_of. induction b as [|[k cs] r IH]; intro Hin; [destruct Hin|]. cbn in *.
  destruct (loc_eqb k l) eqn:E; cbn; rewrite E; [reflexivity|].
  destruct Hin as [->|Hin]; [rewrite loc_eqb_refl in E; discriminate|]. now apply IH.
Qed.

Lemma all_children_snoc (b : buf) l cs : all_children loc (b ++ [(l, cs)]) = all_children loc b ++ cs.
Proof. unfold all_children. rewrite map_app, concat_app. cbn. now rewrite app_nil_r. Qed.

(* registering a leaf along any chain adds that leaf exactly once and no other leaf *)
Theorem register_leaf_count chain : forall c (b : buf) t,
  NoDup (map fst b) -> chain <> [] ->
  count loc (is_leaf loc t) (all_children loc (register chain c b)) =
  count loc (is_leaf loc t) (all_children loc b) + (if is_leaf loc t c then 1 else 0)
  /\ NoDup (map fst (register chain c b)).
Proof.
  induction chain as [|l rest IH]; intros c b t ND Hne; [congruence|]. cbn [Tree.register].
  destruct (has l b) eqn:H.
  - apply has_In in H. split; [now apply add_child_count|now rewrite add_child_keys].
  - assert (~ In l (map fst b)) as Hn by (intro C; apply has_In in C; congruence).
    assert (NoDup (map fst (b ++ [(l, [c])]))) as ND'.
    { rewrite map_app. cbn. now apply NoDup_snoc. }
    destruct rest as [|s rest'].
    + cbn [Tree.register]. split; [|exact ND']. rewrite all_children_snoc, count_app. unfold count at 2. cbn [filter].
      destruct (is_leaf loc t c); cbn [length]; lia.
    + destruct (IH (CNode l) (b ++ [(l, [c])]) t ND' ltac:(discriminate)) as [A B]. split; [|exact B].
      rewrite A, all_children_snoc, count_app. unfold count at 2. cbn [filter is_leaf].
      destruct (is_leaf loc t c); cbn [length]; lia.
Qed.

Lemma children_add_other l l' c (b : buf) : l <> l' -> children_of l (add_child l' c b) = children_of l b.
Proof.
  intro Hne. unfold Tree.children_of. induction b as [|[k cs] r IH]; cbn; [reflexivity|].
  destruct (loc_eqb k l') eqn:E; cbn.
  - apply loc_eqb_eq in E. subst k. destruct (loc_eqb l' l) eqn:E2; [apply loc_eqb_eq in E2; congruence|reflexivity].
  - destruct (loc_eqb k l); [reflexivity|exact IH].
Qed.

Lemma children_snoc_old l l' cs (b : buf) : In l (map fst b) -> children_of l (b ++ [(l', cs)]) = children_of l b.
Proof.
  unfold Tree.children_of. induction b as [|[k cs0] r IH]; intro Hin; [destruct Hin|]. cbn in *.
  destruct (loc_eqb k l) eqn:E; [reflexivity|].
  destruct Hin as [->|Hin]; [rewrite loc_eqb_refl in E; discriminate|]. now apply IH.
Qed.

Lemma children_snoc_new l cs (b : buf) : ~ In l (map fst b) -> children_of l (b ++ [(l, cs)]) = cs.
Proof.
  unfold Tree.children_of. induction b as [|[k cs0] r IH]; intro Hn; cbn.
  - now rewrite loc_eqb_refl.
  - destruct (loc_eqb k l) eqn:E; [apply loc_eqb_eq in E; subst; exfalso; apply Hn; now left|].
    apply IH. intro C. apply Hn. now right.
Qed.

Lemma register_keys_mono chain : forall c (b : buf) l, In l (map fst b) -> In l (map fst (register chain c b)).
Proof.
  induction chain as [|k rest IH]; intros c b l Hin; cbn [Tree.register]; [assumption|].
  destruct (has k b); [now rewrite add_child_keys|]. apply IH. rewrite map_app. apply in_or_app. now left.
Qed.

(* children are only ever added *)
Lemma register_children_mono chain : forall c (b : buf) l x,
  In l (map fst b) -> In x (children_of l b) -> In x (children_of l (register chain c b)).
Proof.
  induction chain as [|k rest IH]; intros c b l x Hl Hx; cbn [Tree.register]; [assumption|].
  destruct (has k b) eqn:H.
  - apply has_In in H. destruct (loc_eqb_eq l k) as [_ D].
    destruct (loc_eqb l k) eqn:E.
    + apply loc_eqb_eq in E. subst k. rewrite children_add_same by assumption. apply in_or_app. now left.
    + rewrite children_add_other; [assumption|]. intro C. subst. rewrite loc_eqb_refl in E. discriminate.
  - apply IH.
    + rewrite map_app. apply in_or_app. now left.
    + now rewrite children_snoc_old.
Qed.

(* the child registered along a chain ends up under the head of the chain *)
Theorem register_parent l rest c (b : buf) :
  NoDup (map fst b) -> In c (children_of l (register (l :: rest) c b)) /\ In l (map fst (register (l :: rest) c b)).
Proof.
  intro ND. cbn [Tree.register]. destruct (has l b) eqn:H.
  - apply has_In in H. split; [rewrite children_add_same by assumption; apply in_or_app; right; now left|now rewrite add_child_keys].
  - assert (~ In l (map fst b)) as Hn by (intro C; apply has_In in C; congruence).
    assert (In l (map fst (b ++ [(l, [c])]))) as Hl by (rewrite map_app; apply in_or_app; right; now left).
    split; [|now apply register_keys_mono].
    apply register_children_mono; [assumption|]. rewrite children_snoc_new by assumption. now left.
Qed.

(* C18: over any list of loaded tables (distinct ids, each with the chain of its file location), the
   trees hold every table as a leaf exactly once, beneath the node of its file *)
Theorem make_trees_leaves tables : forall t f rest,
  NoDup (map fst tables) -> Forall (fun tc => snd tc <> []) tables ->
  In (t, f :: rest) tables ->
  count loc (is_leaf loc t) (all_children loc (make_trees loc loc_eqb tables)) = 1 /\
  In (CLeaf t) (children_of f (make_trees loc loc_eqb tables)).
Proof.
  unfold make_trees.
  assert (G : forall ts (b : buf) t f rest,
             NoDup (map fst b) -> NoDup (map fst ts) -> Forall (fun tc => snd tc <> []) ts ->
             (In (t, f :: rest) ts /\ count loc (is_leaf loc t) (all_children loc b) = 0) \/
             (~ In t (map fst ts) /\ count loc (is_leaf loc t) (all_children loc b) = 1 /\
              In f (map fst b) /\ In (CLeaf t) (children_of f b)) ->
             let r := fold_left (fun b tc => register (snd tc) (CLeaf (fst tc)) b) ts b in
             count loc (is_leaf loc t) (all_children loc r) = 1 /\ In (CLeaf t) (children_of f r) /\ NoDup (map fst r)).
  { induction ts as [|[u ch] ts IH]; intros b t f rest NDb NDt NE H; cbn [fold_left].
    - destruct H as [[[] _]|(_ & C & Hf & Hc)]. auto.
    - cbn [map fst snd] in *. inversion NDt as [|? ? Hu NDt']; subst. inversion NE as [|? ? Hch NE']; subst. cbn in Hch.
      destruct (register_leaf_count ch (CLeaf u) b t NDb Hch) as [Cn NDr].
      destruct H as [[Hin C0]|(Hn & C1 & Hf & Hc)].
      + destruct Hin as [E|Hin].
        * inversion E; subst u ch. apply (IH _ t f rest NDr NDt' NE'). right. split; [assumption|].
          split; [rewrite Cn, C0; cbn; now rewrite Nat.eqb_refl|].
          destruct (register_parent f rest (CLeaf t) b NDb) as [A B]. split; assumption.
        * apply (IH _ t f rest NDr NDt' NE'). left. split; [assumption|].
          rewrite Cn, C0. cbn. destruct (Nat.eqb_spec t u); [|reflexivity]. subst u. exfalso. apply Hu.
          apply in_map_iff. exists (t, f :: rest). auto.
      + apply (IH _ t f rest NDr NDt' NE'). right. split; [intro C; apply Hn; now right|].
        split; [rewrite Cn, C1; cbn; destruct (Nat.eqb_spec t u); [subst; exfalso; apply Hn; now left|lia]|].
        split; [now apply register_keys_mono|now apply register_children_mono]. }
  intros t f rest ND NE Hin. destruct (G tables [] t f rest (NoDup_nil _) ND NE (or_introl (conj Hin eq_refl))) as (A & B & _).
  split; assumption.
Qed.
End P.
