(* The in-place loop of Table.convert_units refines the pure specification and writes to the new
   object only (Model/ConvertStore.v against Model/Convert.v). *)
From Coq Require Import Lia.
From PdV Require Import ConvertStore ConvertProofs.
Local Open Scope nat_scope.

Section P.
Variable V : Type.
Variable conv : str -> option str -> V -> option (V * str).
Notation store := (store V).

(* ---- lists with one position overwritten ---- *)
Lemma set_nth_length {A} (l : list A) i x : length (set_nth l i x) = length l.
Proof. revert i; induction l as [|h t IH]; intros [|i]; cbn; auto. Qed.

Lemma nth_error_set_nth_eq {A} (l : list A) i x : i < length l -> nth_error (set_nth l i x) i = Some x.
Proof.
  revert i; induction l as [|h t IH]; intros i H; [cbn in H; lia|].
  destruct i as [|i]; cbn; [reflexivity|]. apply IH. cbn in H. lia.
Qed.

Lemma nth_error_set_nth_neq {A} (l : list A) i k x : k <> i -> nth_error (set_nth l i x) k = nth_error l k.
Proof.
  revert i k; induction l as [|h t IH]; intros i k H; [destruct i; reflexivity|].
  destruct i as [|i], k as [|k]; cbn; try reflexivity; [contradiction|]. apply IH. lia.
Qed.

Lemma set_nth_app_mid {A} (a : list A) c cs x : set_nth (a ++ c :: cs) (length a) x = (a ++ [x]) ++ cs.
Proof. induction a as [|h t IH]; cbn; [reflexivity|]. now rewrite IH. Qed.

Lemma nth_error_app_mid {A} (a : list A) c cs : nth_error (a ++ c :: cs) (length a) = Some c.
Proof. induction a as [|h t IH]; cbn; auto. Qed.

(* ---- the loop ---- *)
Lemma loop_spec id : forall ts (st : store) done cs,
  nth_error st id = Some (done ++ cs) -> length cs = length ts ->
  let '(st', r) := loop conv st id (length done) ts in
  (forall k, k <> id -> nth_error st' k = nth_error st k) /\ length st' = length st /\
  match convert_all conv cs ts with
  | inl res => r = None /\ nth_error st' id = Some (done ++ res)
  | inr e => r = Some e
  end.
Proof.
  induction ts as [|t rest IH]; intros st done cs Hid L.
  - destruct cs; [|discriminate]. cbn. repeat split; auto.
  - destruct cs as [|c cs']; [discriminate|]. cbn [loop convert_all]. unfold step_col. rewrite Hid, nth_error_app_mid.
    destruct (convert_col conv c t) as [c'|e] eqn:E.
    + assert (id < length st) as Lid by (apply nth_error_Some; congruence).
      rewrite set_nth_app_mid.
      set (st1 := set_nth st id ((done ++ [c']) ++ cs')).
      assert (nth_error st1 id = Some ((done ++ [c']) ++ cs')) as H1 by (apply nth_error_set_nth_eq; exact Lid).
      specialize (IH st1 (done ++ [c']) cs' H1 ltac:(cbn in L; lia)).
      replace (length (done ++ [c'])) with (S (length done)) in IH by (rewrite app_length; cbn; lia).
      destruct (loop conv st1 id (S (length done)) rest) as [st' r]. destruct IH as (F & Ln & R).
      split; [|split].
      * intros k Hk. rewrite (F k Hk). unfold st1. now apply nth_error_set_nth_neq.
      * rewrite Ln. unfold st1. apply set_nth_length.
      * destruct (convert_all conv cs' rest) as [res|e].
        -- destruct R as [-> R]. split; [reflexivity|]. rewrite R, <- app_assoc. reflexivity.
        -- exact R.
    + repeat split; auto.
Qed.

(* C06 on the store: whatever the dispatcher, the converter and the outcome,
   - no object that existed before the call is written to (the original table included), and
   - the call returns a new object holding exactly what the pure convert_units computes, or - when the
     pure function fails - an error and no object at all (the half-converted copy is not handed out) *)
Theorem convert_units_store_refines d (st : store) self cols :
  nth_error st self = Some cols ->
  let '(st', r) := convert_units_store conv d st self in
  (forall k, k < length st -> nth_error st' k = nth_error st k) /\
  match convert_units conv d cols with
  | inl res => r = inl (length st) /\ nth_error st' (length st) = Some res
  | inr e => r = inr e
  end.
Proof.
  intro Hs. unfold convert_units_store, convert_units. rewrite Hs.
  destruct (targets d cols) as [ts|e] eqn:T; [|split; auto].
  pose proof (targets_length V d cols ts T) as LT. rewrite <- LT, firstn_all.
  assert (nth_error (st ++ [cols]) (length st) = Some ([] ++ cols)) as H1
    by (rewrite nth_error_app2 by lia; rewrite Nat.sub_diag; reflexivity).
  pose proof (loop_spec (length st) ts (st ++ [cols]) [] cols H1 (eq_sym LT)) as L. cbn [length] in L.
  destruct (loop conv (st ++ [cols]) (length st) 0 ts) as [st2 r]. destruct L as (F & Ln & R).
  assert (forall k, k < length st -> nth_error st2 k = nth_error st k) as Frame.
  { intros k Hk. rewrite (F k ltac:(lia)). now apply nth_error_app1. }
  destruct (convert_all conv cols ts) as [res|e].
  - destruct R as [-> R]. split; [exact Frame|]. split; [reflexivity|exact R].
  - subst r. split; [exact Frame|reflexivity].
Qed.

(* the original in particular *)
Corollary original_untouched d (st : store) self cols :
  nth_error st self = Some cols -> nth_error (fst (convert_units_store conv d st self)) self = Some cols.
Proof.
  intro Hs. pose proof (convert_units_store_refines d st self cols Hs) as H.
  destruct (convert_units_store conv d st self) as [st' r]. destruct H as [F _]. cbn.
  rewrite F; [exact Hs|]. apply nth_error_Some. congruence.
Qed.
End P.
