(* Non-vacuity of C08_json_roundtrip: a table with a number, NaN, an integer, text and onoff. *)
From Coq Require Import Lia.
From PdV Require Import ParseTable LayoutProofs RoundTrip Json JsonRoundTrip.
From PdV.Model Require Import Reader.
Local Open Scope N_scope.

Definition jx_cols : list (str * str * list cell) :=
  [ ([120], [109], [CFloat one_tok [49; 46; 48]; CFloat nan_tok [110; 97; 110]]);
    ([105], [45], [CInt 3 4613937818241073152 [51]; CInt 0 0 [48]]);
    ([115], s_text, [CStr [113]; CStr []]);
    ([98], s_onoff, [CBool true; CBool false]) ].

Example json_roundtrip_applies :
  exists j,
    table_to_json [116] [[97]] jx_cols = Some j /\
    parse_table (fun _ => None) (fun _ => DBad)
                {| stop_on_errors := true; strict_types := true; fix_value := stock_fix |}
                (grid_of_json (fun _ => []) (fun _ => []) (fun z => if Z.eqb z 3 then 4613937818241073152 else 0) j) fx_init
    = Ok (json_read_back [116] [[97]] jx_cols fx_init)
    /\ p_cols (json_read_back [116] [[97]] jx_cols fx_init)
       = [[VNum one_tok; VNum nan_tok]; [VNum 4613937818241073152; VNum 0]; [VText [113]; VText []]; [VBool true; VBool false]].
Proof.
  edestruct (json_roundtrip (fun _ => None) (fun _ => DBad)
               {| stop_on_errors := true; strict_types := true; fix_value := stock_fix |}
               (fun _ => []) (fun _ => []) (fun z => if Z.eqb z 3 then 4613937818241073152 else 0)
               [116] [[97]] jx_cols 2%nat) as (j & H1 & H2);
    [ | | | | | | | | | | exists j; split; [exact H1|split; [exact H2|reflexivity]]]; try reflexivity.
  - repeat constructor.
  - discriminate.
  - intros [|[|[|[|j]]]] [|[|i]] Hj Hi; cbn in Hj, Hi; try lia; unfold wf_scalar; cbn;
      try (eexists; reflexivity); try (left; eexists _, _; reflexivity); try (right; eexists _, _, _; split; reflexivity).
  - repeat constructor; discriminate.
  - repeat constructor.
  - repeat constructor; cbn; intuition discriminate.
Qed.
