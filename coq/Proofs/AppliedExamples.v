(* Non-vacuity, second part: the headline theorems of C04 / C15 / C12 / C13 APPLIED to concrete inputs
   (their hypotheses discharged), not merely the model evaluated on them. *)
From Coq Require Import Lia.
From PdV.Model Require Import Frame Reader.
From PdV Require Import FrameProofs ParseProofs ReaderProofs.
Local Open Scope nat_scope.

(* ---- C04 / C15: a (float m, text) frame; a column inserted at the front directly, a column added
   through the facade; the consultation succeeds, hence the invariants hold for the result ---- *)
Definition ex_a : str := [97%N].
Definition ex_b : str := [98%N].
Definition ex_n : str := [110%N].
Definition ex_m : str := [109%N].
Definition ex_cols : list (str * dtype) := [(ex_a, (KNumeric, 1%N)); (ex_b, (KText, 2%N))].
Definition ex_f0 : frame := fst (make_frame ex_cols false true (Some [ex_m; u_text])).
Definition ex_hist : list Frame.step :=
  [SData [(ex_n, (KBool, 3%N)); (ex_a, (KNumeric, 1%N)); (ex_b, (KText, 2%N))] false;
   SAddColumn [99%N] (KNumeric, 1%N) (Some [107%N; 103%N]) false].

Example history_invariant_applies :
  exists f', consult (Frame.run ex_f0 ex_hist) = (f', None) /\ Inv15 f' /\ Inv04 f' /\
             units f' = [u_onoff; ex_m; u_text; [107%N; 103%N]].
Proof.
  eexists. split; [vm_compute; reflexivity|]. split; [|split].
  - eapply (history_invariant ex_f0 ex_hist).
    + eapply (make_frame_J ex_cols false true (Some [ex_m; u_text])); [vm_compute; reflexivity|reflexivity].
    + reflexivity.
    + vm_compute. reflexivity.
    + vm_compute. reflexivity.
  - eapply (history_invariant ex_f0 ex_hist).
    + eapply (make_frame_J ex_cols false true (Some [ex_m; u_text])); [vm_compute; reflexivity|reflexivity].
    + reflexivity.
    + vm_compute. reflexivity.
    + vm_compute. reflexivity.
  - vm_compute. reflexivity.
Qed.

(* ---- C12: a sheet with a good table followed by a table that has no unit row: the read cannot
   crash (C12_no_crash), and with the default tracker the good table is delivered before the located
   error (C12_prefix_delivered) ---- *)
Definition ex_sheet : list row :=
  [ [CStr [42; 42; 116]%N]; [CStr [97]%N]; [CStr [99]%N]; [CStr [45]%N]; [CStr [49]%N]; [];
    [CStr [42; 42; 117]%N]; [CStr [97]%N]; [CStr [99]%N] ].
Definition ex_cfg : fixer_cfg := {| stop_on_errors := true; strict_types := true; fix_value := stock_fix |}.
Definition ex_pf (s : str) : option ftok := match s with [49%N] => Some 1%N | _ => None end.

Example no_crash_applies : snd (read ex_pf (fun _ => DBad) ex_cfg FPd None true ex_sheet) <> FCrash.
Proof.
  apply read_no_crash.
  - intros s C. discriminate.
  - vm_compute. repeat constructor.
Qed.

Example prefix_delivered_applies :
  exists bs1 g bs2 h evs,
    segment_rows ex_sheet = bs1 ++ (BTable, 6, g) :: bs2 /\
    deliver ex_pf (fun _ => DBad) ex_cfg FPd None true bs1 [] = (evs, FDone) /\ length evs = 1 /\
    (exists m, handle ex_pf (fun _ => DBad) ex_cfg FPd None BTable g h = VErr m).
Proof.
  destruct (deliver_raising ex_pf (fun _ => DBad) ex_cfg FPd true None (segment_rows ex_sheet) []
              (fst (deliver ex_pf (fun _ => DBad) ex_cfg FPd None true (segment_rows ex_sheet) [])) 6 eq_refl)
    as (bs1 & g & bs2 & h & E & D & M).
  - vm_compute. reflexivity.
  - exists bs1, g, bs2, h. eexists. split; [exact E|]. split; [exact D|]. split; [vm_compute; reflexivity|exact M].
Qed.

(* ---- C13: the lenient parse of a table with a duplicated column name and an illegal number:
   every repair was counted and logged (C13_every_fix_logged), the names come out unique
   (C13_names_unique), the table has its full shape (C13_full_shape) ---- *)
Definition ex_lenient : fixer_cfg := {| stop_on_errors := false; strict_types := true; fix_value := stock_fix |}.
Definition ex_defective : list row :=
  [ [CStr [42; 42; 116]%N]; [CStr [97]%N];
    [CStr [120]%N; CStr [120]%N]; [CStr [109]%N; CStr [109]%N];
    [CStr [113]%N; CStr [45]%N] ].

Example fixes_logged_applies :
  exists p, parse_table (fun _ => None) (fun _ => DBad) ex_lenient ex_defective fx_init = Ok p /\
    balanced fx_init (p_fx p) /\ NoDup (p_names p) /\ fx_fixes (p_fx p) = 2 /\
    length (p_units p) = length (p_names p) /\ length (p_cols p) = length (p_names p).
Proof.
  destruct (parse_table (fun _ => None) (fun _ => DBad) ex_lenient ex_defective fx_init) as [p|m|] eqn:E;
    [|vm_compute in E; discriminate|vm_compute in E; discriminate].
  exists p. split; [reflexivity|].
  pose proof (fixes_logged _ _ _ _ _ _ E) as B.
  pose proof (table_shape_full _ _ _ _ _ _ E) as S.
  assert (length (p_names p) < 1000) as L by (vm_compute in E; injection E as <-; vm_compute; lia).
  pose proof (names_unique _ _ _ _ _ _ E L) as U.
  split; [exact B|]. split; [exact U|]. split; [|exact S].
  vm_compute in E. injection E as <-. reflexivity.
Qed.
