(* Proofs about M-PyEq (Model/PyEq.v): cell equality of Table.equals. *)
From Coq Require Import Lia.
From PdV Require Import PyEq TextProofs.
Local Open Scope Z_scope.

(* ---- numbers: num_eqb decides equality of the values m * 2^e ---- *)
Lemma pow2_pos n : 0 <= n -> 0 < 2 ^ n.
Proof. intro H. apply Z.pow_pos_nonneg; lia. Qed.

(* at any common scale k below both exponents the two scaled integers are equal exactly when
   num_eqb says so: m1 * 2^e1 = m2 * 2^e2 as real numbers *)
Lemma num_eqb_scale m1 e1 m2 e2 k :
  k <= e1 -> k <= e2 ->
  (num_eqb (NFin m1 e1) (NFin m2 e2) = true <-> m1 * 2 ^ (e1 - k) = m2 * 2 ^ (e2 - k)).
Proof.
  intros H1 H2. cbn [num_eqb]. set (e0 := Z.min e1 e2). rewrite Z.eqb_eq.
  assert (k <= e0) as H0 by (unfold e0; lia).
  assert (e0 <= e1 /\ e0 <= e2) as [Ha Hb] by (unfold e0; lia).
  replace (e1 - k) with ((e1 - e0) + (e0 - k)) by lia.
  replace (e2 - k) with ((e2 - e0) + (e0 - k)) by lia.
  rewrite !Z.pow_add_r by lia. rewrite !Z.mul_assoc.
  pose proof (pow2_pos (e0 - k) ltac:(lia)) as P. split.
  - intro E. now rewrite E.
  - intro E. apply Z.mul_cancel_r in E; [exact E|lia].
Qed.

Lemma num_eqb_refl x : x <> NNaN -> num_eqb x x = true.
Proof.
  destruct x as [|s|m e]; intro H; [contradiction| |]; cbn.
  - now destruct s.
  - apply Z.eqb_refl.
Qed.

Lemma num_eqb_sym x y : num_eqb x y = num_eqb y x.
Proof.
  destruct x as [|s|m e], y as [|t|m' e']; cbn; try reflexivity.
  - now destruct s, t.
  - rewrite (Z.min_comm e' e). apply Z.eqb_sym.
Qed.

Lemma num_eqb_trans x y z : num_eqb x y = true -> num_eqb y z = true -> num_eqb x z = true.
Proof.
  destruct x as [|s|m1 e1], y as [|t|m2 e2], z as [|u|m3 e3]; try discriminate.
  - cbn. destruct s, t, u; auto.
  - intros A B. set (k := Z.min e1 (Z.min e2 e3)).
    apply (num_eqb_scale m1 e1 m2 e2 k) in A; [|unfold k; lia|unfold k; lia].
    apply (num_eqb_scale m2 e2 m3 e3 k) in B; [|unfold k; lia|unfold k; lia].
    apply (num_eqb_scale m1 e1 m3 e3 k); [unfold k; lia|unfold k; lia|]. congruence.
Qed.

(* ---- a == b ---- *)
Lemma py_eq_sym a b : py_eq a b = py_eq b a.
Proof.
  destruct a, b; cbn [py_eq num_of]; try reflexivity; f_equal;
    try apply num_eqb_sym; try apply Z.eqb_sym; try apply N.eqb_sym; try apply str_eqb_sym.
Qed.

(* ---- pd.isna ---- *)
Lemma missing_not_number a x : num_of a = Some x -> is_missing a = true -> x = NNaN.
Proof.
  destruct a; cbn; try discriminate; intros H M; inversion H; subst; try discriminate.
  destruct (classify bits); try discriminate. reflexivity.
Qed.

(* ---- _equal_or_same ---- *)
Theorem eos_refl a : equal_or_same a a = true.
Proof.
  unfold equal_or_same. destruct (is_missing a) eqn:M; [reflexivity|]. cbn [orb].
  destruct a; try discriminate; cbn [py_eq num_of].
  - apply num_eqb_refl. discriminate.
  - apply num_eqb_refl. discriminate.
  - apply num_eqb_refl. cbn in M. destruct (classify bits); discriminate.
  - apply str_eqb_refl.
  - apply Z.eqb_refl.
  - apply N.eqb_refl.
Qed.

Theorem eos_sym a b : equal_or_same a b = equal_or_same b a.
Proof.
  unfold equal_or_same. rewrite (orb_comm (is_missing b)), (andb_comm (is_missing b)), (py_eq_sym b a). reflexivity.
Qed.

(* missing equals missing, and nothing else *)
Theorem eos_missing a b : is_missing a = true -> equal_or_same a b = is_missing b.
Proof. unfold equal_or_same. intros ->. reflexivity. Qed.

(* numbers compare by value regardless of numeric type: for two numbers m1 * 2^e1 and m2 * 2^e2
   (an int is m * 2^0, a bool 0 or 1, a finite float its mantissa and exponent) *)
Theorem eos_numbers a b m1 e1 m2 e2 k :
  num_of a = Some (NFin m1 e1) -> num_of b = Some (NFin m2 e2) -> k <= e1 -> k <= e2 ->
  (equal_or_same a b = true <-> m1 * 2 ^ (e1 - k) = m2 * 2 ^ (e2 - k)).
Proof.
  intros Ha Hb K1 K2. unfold equal_or_same.
  assert (is_missing a = false) as Ma.
  { destruct (is_missing a) eqn:M; [|reflexivity]. pose proof (missing_not_number _ _ Ha M). discriminate. }
  assert (is_missing b = false) as Mb.
  { destruct (is_missing b) eqn:M; [|reflexivity]. pose proof (missing_not_number _ _ Hb M). discriminate. }
  rewrite Ma, Mb. cbn [orb].
  assert (py_eq a b = Some (num_eqb (NFin m1 e1) (NFin m2 e2))) as E.
  { destruct a; try discriminate; destruct b; try discriminate; cbn [py_eq]; rewrite Ha, Hb; reflexivity. }
  rewrite E. apply num_eqb_scale; assumption.
Qed.

(* a number never equals text, a timestamp or another object *)
Theorem eos_number_vs_other a b x :
  num_of a = Some x -> num_of b = None -> is_missing b = false -> equal_or_same a b = false.
Proof.
  intros Ha Hb Mb. unfold equal_or_same. rewrite Mb. rewrite orb_false_r, andb_false_r.
  destruct (is_missing a); [reflexivity|].
  destruct a; try discriminate; destruct b; try discriminate; reflexivity.
Qed.

Lemma py_eq_num a b x y : num_of a = Some x -> num_of b = Some y -> py_eq a b = Some (num_eqb x y).
Proof. destruct a; try discriminate; destruct b; try discriminate; cbn [py_eq]; intros -> ->; reflexivity. Qed.

Lemma py_eq_mixed a b x : num_of a = Some x -> num_of b = None -> py_eq a b = Some false \/ py_eq a b = None.
Proof. destruct a; try discriminate; destruct b; try discriminate; cbn; auto. Qed.

(* the comparison is an equivalence: with reflexivity and symmetry, transitivity *)
Theorem eos_trans a b c : equal_or_same a b = true -> equal_or_same b c = true -> equal_or_same a c = true.
Proof.
  unfold equal_or_same.
  destruct (is_missing a) eqn:Ma, (is_missing b) eqn:Mb, (is_missing c) eqn:Mc; cbn [orb andb]; try discriminate; try reflexivity.
  destruct (py_eq a b) as [r1|] eqn:E1; [|discriminate]. destruct (py_eq b c) as [r2|] eqn:E2; [|discriminate].
  intros -> ->.
  destruct (num_of a) as [x|] eqn:Na, (num_of b) as [y|] eqn:Nb, (num_of c) as [z|] eqn:Nc.
  - rewrite (py_eq_num _ _ _ _ Na Nb) in E1. rewrite (py_eq_num _ _ _ _ Nb Nc) in E2. rewrite (py_eq_num _ _ _ _ Na Nc).
    injection E1 as A. injection E2 as B. now rewrite (num_eqb_trans _ _ _ A B).
  - destruct (py_eq_mixed _ _ _ Nb Nc) as [C|C]; rewrite C in E2; discriminate.
  - destruct (py_eq_mixed _ _ _ Na Nb) as [C|C]; rewrite C in E1; discriminate.
  - destruct (py_eq_mixed _ _ _ Na Nb) as [C|C]; rewrite C in E1; discriminate.
  - rewrite py_eq_sym in E1. destruct (py_eq_mixed _ _ _ Nb Na) as [C|C]; rewrite C in E1; discriminate.
  - rewrite py_eq_sym in E1. destruct (py_eq_mixed _ _ _ Nb Na) as [C|C]; rewrite C in E1; discriminate.
  - rewrite py_eq_sym in E2. destruct (py_eq_mixed _ _ _ Nc Nb) as [C|C]; rewrite C in E2; discriminate.
  - destruct a; try discriminate; destruct b; try discriminate; destruct c; try discriminate;
      cbn [py_eq num_of] in *; injection E1 as A; injection E2 as B; try discriminate.
    + apply str_eqb_eq in A, B. subst. now rewrite str_eqb_refl.
    + apply Z.eqb_eq in A, B. subst. now rewrite Z.eqb_refl.
    + apply N.eqb_eq in A, B. subst. now rewrite N.eqb_refl.
Qed.

(* ---- the repair ---- *)
(* before the repair a pd.NA cell made the comparison raise, hence Table.equals(t, t) = False *)
Theorem unrepaired_pdNA : equal_or_same_unrepaired PNA PNA = None /\ equal_or_same PNA PNA = true.
Proof. split; reflexivity. Qed.

(* wherever the old code gave an answer, the repaired code gives the same one *)
Theorem repair_conservative a b r : equal_or_same_unrepaired a b = Some r -> equal_or_same a b = r.
Proof.
  unfold equal_or_same_unrepaired, equal_or_same. destruct (py_eq a b) as [[|]|] eqn:E; try discriminate.
  - intro H; inversion H; subst. destruct (is_missing a) eqn:Ma, (is_missing b) eqn:Mb; cbn [orb andb]; try reflexivity.
    + destruct a; try discriminate; destruct b; try discriminate; cbn [py_eq num_of] in E; try discriminate.
      all: cbn in Ma; destruct (classify bits) eqn:C; try discriminate; inversion E as [A]; try discriminate.
      all: try (destruct (classify bits0); discriminate).
    + destruct a; try discriminate; destruct b; try discriminate; cbn [py_eq num_of] in E; try discriminate.
      all: cbn in Mb; destruct (classify bits) eqn:C; try discriminate; inversion E as [A]; try discriminate.
      all: try (destruct (classify bits0); discriminate).
  - intro H; inversion H; subst. destruct (is_missing a), (is_missing b); reflexivity.
Qed.
