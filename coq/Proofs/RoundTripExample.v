(* Non-vacuity of the C01 round-trip theorems: a bundle of two concrete tables (one row-wise, one
   transposed; a number, a missing number, text and an empty text) meets every hypothesis. *)
From Coq Require Import Lia.
From PdV Require Import ParseTable LayoutProofs WriteProofs RoundTrip.
From PdV.Model Require Import WriteCsv Segment Reader.
Local Open Scope N_scope.

Definition ex_pf (s : str) : option ftok := if str_eqb s [49; 46; 48] then Some one_tok else None.
Definition ex_pd (s : str) : dres := DBad.
Definition ex_cols : list wcol :=
  [ {| wc_name := [120]; wc_unit := [109]; wc_vals := [WNum one_tok [49; 46; 48]; WMissing [110; 97; 110]] |};
    {| wc_name := [115]; wc_unit := u_text; wc_vals := [WText [113]; WText []] |} ].
Definition ex_t (tr : bool) : wtable :=
  {| w_name := [116]; w_dests := [[97]; [98]]; w_transposed := tr; w_cols := ex_cols |}.
Definition ex_cfg : fixer_cfg := {| stop_on_errors := true; strict_types := true; fix_value := stock_fix |}.

Lemma ex_wf tr : wf_table ex_pf ex_pd 59 (ex_t tr).
Proof.
  exists 2%nat. cbn [ex_t w_cols w_name w_dests].
  repeat match goal with |- _ /\ _ => split end; try reflexivity; try lia.
  - repeat constructor.
  - discriminate.
  - intros [|[|j]] [|[|i]] Hj Hi; cbn in Hj, Hi; try lia; reflexivity.
  - repeat constructor.
  - repeat constructor; cbn; intuition discriminate.
  - intros [|[|j]] [|[|i]] Hj Hi; cbn in Hj, Hi; try lia; unfold wf_val; cbn.
    + left. eexists _, _. split; [reflexivity|]. split; reflexivity.
    + right. eexists. reflexivity.
    + eexists. split; [reflexivity|]. discriminate.
    + eexists. split; [reflexivity|]. discriminate.
  - intros [|[|i]] Hi; try lia; reflexivity.
Qed.

Lemma ex_plain tr : plain_lines 59 (ex_t tr).
Proof. destruct tr; vm_compute; repeat constructor. Qed.

Example bundle_roundtrip_applies :
  read ex_pf ex_pd ex_cfg FPd None true (cells_of_lines 59 (lines (write_csv 59 [ex_t false; ex_t true])))
  = ([EBlock BTable 0 (CtTable (table_read_back (ex_t false)));
      EBlock BTable 7 (CtTable (table_read_back (ex_t true)))], FDone)
  /\ p_cols (table_read_back (ex_t true)) = [[VNum one_tok; VNum nan_tok]; [VText [113]; VText []]].
Proof.
  split; [|reflexivity].
  rewrite (bundle_roundtrip ex_pf ex_pd ex_cfg true 59 [ex_t false; ex_t true]).
  - reflexivity.
  - repeat constructor; apply ex_wf.
  - repeat constructor; apply ex_plain.
  - reflexivity.
Qed.
