(* Proofs about M-Life (Model/Lifecycle.v). *)
From Coq Require Import Lia.
From PdV.Model Require Import Lifecycle.
Local Open Scope nat_scope.

(* the ledger matches the generator state: a file is held exactly while suspended *)
Definition consistent (r : reader) (s : gstate) (l : ledger) : Prop :=
  caller_closed l = 0 /\ closed l <= opened l /\
  match s with
  | Fresh => opened l = 0 /\ closed l = 0
  | Suspended k => held l = (if r_owns r then 1 else 0) /\ k <= r_blocks r /\ 0 < k
  | Finished => held l = 0
  end.

Lemma advance_consistent r k l :
  caller_closed l = 0 -> closed l <= opened l -> held l = (if r_owns r then 1 else 0) -> k <= r_blocks r ->
  let '(s', l', _) := advance r k l in consistent r s' l'.
Proof.
  intros C LE H K. unfold advance. destruct (Nat.eqb_spec k (r_blocks r)).
  - unfold consistent, do_close, held in *. destruct (r_owns r); cbn [opened closed caller_closed] in *; repeat split; try lia.
  - assert (S k <= r_blocks r) by lia.
    destruct (r_fault r) as [f|]; [destruct (Nat.eqb f k)|];
      unfold consistent, do_close, held in *; destruct (r_owns r); cbn [opened closed caller_closed] in *; repeat split; try lia.
  all: try (destruct k; lia).
Qed.

Lemma gstep_consistent r s l e :
  consistent r s l -> let '(s', l', _) := gstep r s l e in consistent r s' l'.
Proof.
  intros (C & LE & H). destruct s as [|k|]; destruct e; cbn [gstep].
  - destruct H as [H1 H2]. apply advance_consistent; unfold do_open, held; destruct (r_owns r); cbn [opened closed caller_closed]; lia.
  - unfold consistent, held. cbn [opened closed caller_closed]. lia.
  - unfold consistent, held. cbn [opened closed caller_closed]. lia.
  - destruct H as (H1 & H2 & H3). now apply advance_consistent.
  - destruct H as (H1 & H2 & H3). unfold consistent, do_close, held in *. destruct (r_owns r); cbn [opened closed caller_closed] in *; repeat split; lia.
  - destruct H as (H1 & H2 & H3). unfold consistent, do_close, held in *. destruct (r_owns r); cbn [opened closed caller_closed] in *; repeat split; lia.
  - unfold consistent. auto.
  - unfold consistent. auto.
  - unfold consistent. auto.
Qed.

Lemma grun_consistent r es : forall s l, consistent r s l -> let '(s', l') := grun r s l es in consistent r s' l'.
Proof.
  induction es as [|e rest IH]; intros s l H; cbn [grun]; [exact H|].
  pose proof (gstep_consistent r s l e H) as H'. destruct (gstep r s l e) as [[s' l'] o]. now apply IH.
Qed.

Lemma fresh_consistent r : consistent r Fresh l0.
Proof. unfold consistent, l0. cbn. lia. Qed.

(* C19: for every reader, every number of blocks, every fault position and EVERY trace of next /
   close / drop events: the caller's stream is never closed; nothing is opened before the first next;
   while suspended exactly the one file opened from a path is held; once the generator has finished
   in whatever way (exhausted, closed, dropped, ended by an error) everything it opened is closed *)
Theorem reader_balanced r es :
  let '(s, l) := grun r Fresh l0 es in
  caller_closed l = 0 /\ closed l <= opened l /\
  match s with
  | Fresh => opened l = 0
  | Suspended _ => held l = (if r_owns r then 1 else 0)
  | Finished => held l = 0
  end.
Proof.
  pose proof (grun_consistent r es Fresh l0 (fresh_consistent r)) as H.
  destruct (grun r Fresh l0 es) as [s l]. destruct H as (C & LE & H). split; [exact C|]. split; [exact LE|].
  destruct s; [tauto|tauto|exact H].
Qed.

(* after any terminal event the generator is finished *)
Lemma terminal_finishes r s l e :
  (e = GClose \/ e = GDrop) -> fst (fst (gstep r s l e)) = Finished.
Proof. intros [-> | ->]; destruct s; reflexivity. Qed.

(* writers: whatever table fails, the file write_csv opened is closed and a caller stream untouched;
   write_excel creates nothing unless every table serialised *)
Theorem write_csv_balanced owns n f :
  let '(l, _) := write_csv_ledger owns n f in held l = 0 /\ caller_closed l = 0 /\ opened l = (if owns then 1 else 0).
Proof.
  unfold write_csv_ledger, do_open, do_close, held, l0.
  destruct f as [j|]; [destruct (Nat.ltb j n)|]; destruct owns; cbn [opened closed caller_closed]; repeat split; lia.
Qed.

Theorem write_excel_balanced owns n f :
  let '(l, raised) := write_excel_ledger owns n f in
  held l = 0 /\ caller_closed l = 0 /\ (raised = true -> opened l = 0).
Proof.
  unfold write_excel_ledger, do_open, do_close, held, l0.
  destruct f as [j|]; [destruct (Nat.ltb j n)|]; destruct owns; cbn [opened closed caller_closed]; repeat split; try lia; discriminate.
Qed.

(* ---------------- load_files over several locations ---------------- *)
(* the ledger relative to earlier, finished readers: nothing held unless suspended *)
Definition hinv (r : reader) (s : gstate) (l : ledger) : Prop :=
  caller_closed l = 0 /\ closed l <= opened l /\
  match s with
  | Suspended k => held l = (if r_owns r then 1 else 0) /\ k <= r_blocks r /\ 0 < k
  | _ => held l = 0
  end.

Lemma advance_hinv r k l :
  caller_closed l = 0 -> closed l <= opened l -> held l = (if r_owns r then 1 else 0) -> k <= r_blocks r ->
  let '(s', l', o) := advance r k l in hinv r s' l' /\ (o = Yielded \/ s' = Finished).
Proof.
  intros C LE H K. unfold advance. destruct (Nat.eqb_spec k (r_blocks r)).
  - split; [|now right]. unfold hinv, do_close, held in *. destruct (r_owns r); cbn [opened closed caller_closed] in *; repeat split; try lia.
  - assert (S k <= r_blocks r) by lia.
    destruct (r_fault r) as [f|]; [destruct (Nat.eqb f k)|]; (split; [|auto]);
      unfold hinv, do_close, held in *; destruct (r_owns r); cbn [opened closed caller_closed] in *; repeat split; try lia.
Qed.

Lemma gstep_hinv r s l e :
  hinv r s l -> let '(s', l', o) := gstep r s l e in hinv r s' l' /\ (e = GNext -> o = Yielded \/ s' = Finished) /\ (e <> GNext -> s' = Finished).
Proof.
  intros (C & LE & H). destruct s as [|k|]; destruct e; cbn [gstep].
  - pose proof (advance_hinv r 0 (do_open r l)) as A.
    assert (caller_closed (do_open r l) = 0 /\ closed (do_open r l) <= opened (do_open r l) /\
            held (do_open r l) = (if r_owns r then 1 else 0)) as (A1 & A2 & A3)
      by (unfold do_open, held in *; destruct (r_owns r); cbn [opened closed caller_closed]; lia).
    specialize (A A1 A2 A3 ltac:(lia)). destruct (advance r 0 (do_open r l)) as [[s' l'] o]. destruct A as [A B].
    split; [exact A|]. split; [intros _; exact B|intro N; contradiction].
  - split; [unfold hinv; cbn [opened closed caller_closed]; tauto|]. split; [discriminate|reflexivity].
  - split; [unfold hinv; cbn [opened closed caller_closed]; tauto|]. split; [discriminate|reflexivity].
  - destruct H as (H1 & H2 & H3). pose proof (advance_hinv r k l C LE H1 H2) as A.
    destruct (advance r k l) as [[s' l'] o]. destruct A as [A B]. split; [exact A|]. split; [intros _; exact B|intro N; contradiction].
  - destruct H as (H1 & H2 & H3). split; [|split; [discriminate|reflexivity]].
    unfold hinv, do_close, held in *. destruct (r_owns r); cbn [opened closed caller_closed] in *; repeat split; lia.
  - destruct H as (H1 & H2 & H3). split; [|split; [discriminate|reflexivity]].
    unfold hinv, do_close, held in *. destruct (r_owns r); cbn [opened closed caller_closed] in *; repeat split; lia.
  - split; [unfold hinv; auto|]. split; [intros _; now right|reflexivity].
  - split; [unfold hinv; auto|]. split; [discriminate|reflexivity].
  - split; [unfold hinv; auto|]. split; [discriminate|reflexivity].
Qed.

Definition linv (rs : list reader) (s : gstate) (l : ledger) : Prop :=
  match rs with
  | [] => caller_closed l = 0 /\ closed l <= opened l /\ held l = 0
  | r :: _ => hinv r s l
  end.

Lemma hinv_finished_next r r' l : hinv r Finished l -> hinv r' Fresh l.
Proof. unfold hinv. tauto. Qed.

Lemma lnext_linv rs : forall s l, linv rs s l -> let '(rs', s', l', _) := lnext rs s l in linv rs' s' l'.
Proof.
  induction rs as [|r rest IH]; intros s l H; cbn [lnext].
  - exact H.
  - cbn [linv] in H. pose proof (gstep_hinv r s l GNext H) as G.
    destruct (gstep r s l GNext) as [[s' l'] o]. destruct G as (G1 & G2 & _). specialize (G2 eq_refl).
    assert (o <> Yielded -> linv rest Fresh l') as NextOk.
    { intro N. destruct G2 as [E|E]; [contradiction|]. subst s'. destruct rest as [|r' rest']; cbn [linv].
      - unfold hinv in G1. tauto.
      - exact (hinv_finished_next r r' l' G1). }
    destruct o.
    + exact G1.
    + specialize (IH Fresh l' (NextOk ltac:(discriminate))). exact IH.
    + cbn [linv]. destruct G2 as [C|E]; [discriminate|]. subst s'. unfold hinv in G1. tauto.
    + specialize (IH Fresh l' (NextOk ltac:(discriminate))). exact IH.
Qed.

Lemma lstep_linv rs s l e : linv rs s l -> let '(rs', s', l', _) := lstep rs s l e in linv rs' s' l'.
Proof.
  intro H. destruct e; cbn [lstep].
  - now apply lnext_linv.
  - destruct rs as [|r rest]; [exact H|]. cbn [linv] in H. pose proof (gstep_hinv r s l GClose H) as G.
    destruct (gstep r s l GClose) as [[s' l'] o]. destruct G as (G1 & _ & G3). rewrite (G3 ltac:(discriminate)) in G1.
    cbn [linv]. unfold hinv in G1. tauto.
  - destruct rs as [|r rest]; [exact H|]. cbn [linv] in H. pose proof (gstep_hinv r s l GDrop H) as G.
    destruct (gstep r s l GDrop) as [[s' l'] o]. destruct G as (G1 & _ & G3). rewrite (G3 ltac:(discriminate)) in G1.
    cbn [linv]. unfold hinv in G1. tauto.
Qed.

Lemma lrun_linv es : forall rs s l, linv rs s l -> let '(rs', s', l') := lrun rs s l es in linv rs' s' l'.
Proof.
  induction es as [|e rest IH]; intros rs s l H; cbn [lrun]; [exact H|].
  pose proof (lstep_linv rs s l e H) as H'. destruct (lstep rs s l e) as [[[rs' s'] l'] o]. now apply IH.
Qed.

(* C19 for load_files: for every list of locations (each with its number of blocks, its fault
   position, path or caller stream) and every trace of next / close / drop on the loader: the
   caller's streams are never closed; at most the one file of the reader the loader is suspended in
   is held; as soon as the loader has finished - exhausted, closed, dropped or ended by an error in
   any block of any file - nothing is held *)
Theorem loader_balanced rs es :
  let '(rs', s, l) := lrun rs Fresh l0 es in
  caller_closed l = 0 /\ closed l <= opened l /\ held l <= 1 /\
  match rs', s with
  | r :: _, Suspended _ => held l = (if r_owns r then 1 else 0)
  | _, _ => held l = 0
  end.
Proof.
  assert (linv rs Fresh l0) as H0 by (destruct rs; unfold linv, hinv, held, l0; cbn; lia).
  pose proof (lrun_linv es rs Fresh l0 H0) as H. destruct (lrun rs Fresh l0 es) as [[rs' s] l].
  destruct rs' as [|r rest]; cbn [linv] in H.
  - destruct H as (C & LE & Hh). repeat split; [exact C|exact LE|lia|exact Hh].
  - destruct H as (C & LE & Hh). destruct s; [repeat split; try lia; exact C| |repeat split; try lia; exact C].
    destruct Hh as (Hh & _). repeat split; [exact C|exact LE| |exact Hh]. destruct (r_owns r); lia.
Qed.

(* a terminal event finishes the loader whatever it was doing *)
Lemma loader_terminal rs s l e : (e = GClose \/ e = GDrop) -> fst (fst (fst (lstep rs s l e))) = [].
Proof. intros [-> | ->]; cbn [lstep]; destruct rs; try reflexivity; destruct (gstep r s l _) as [[? ?] ?]; reflexivity. Qed.
