(* Proofs about M-Life (Model/Lifecycle.v). *)
From Coq Require Import Lia.
From PdV.Model Require Import Lifecycle.
Local Open Scope nat_scope.

(* the ledger matches the generator state: a file is held exactly while suspended *)
Definition consistent (r : reader) (s : gstate) (l : ledger) : Prop :=
  caller_closed l = 0 /\ closed l <= opened l /\
  match s with
  | Fresh => opened l = 0 /\ closed l = 0
  | Suspended k => held l = (if r_owns r then 1 else 0) /\ k <= r_blocks r /\ 0 < k
  | Finished => held l = 0
  end.

Lemma advance_consistent r k l :
  caller_closed l = 0 -> closed l <= opened l -> held l = (if r_owns r then 1 else 0) -> k <= r_blocks r ->
  let '(s', l', _) := advance r k l in consistent r s' l'.
Proof.
  intros C LE H K. unfold advance. destruct (Nat.eqb_spec k (r_blocks r)).
  - unfold consistent, do_close, held in *. destruct (r_owns r); cbn [opened closed caller_closed] in *; repeat split; try lia.
  - assert (S k <= r_blocks r) by lia.
    destruct (r_fault r) as [f|]; [destruct (Nat.eqb f k)|];
      unfold consistent, do_close, held in *; destruct (r_owns r); cbn [opened closed caller_closed] in *; repeat split; try lia.
  all: try (destruct k; lia).
Qed.

Lemma gstep_consistent r s l e :
  consistent r s l -> let '(s', l', _) := gstep r s l e in consistent r s' l'.
Proof.
  intros (C & LE & H). destruct s as [|k|]; destruct e; cbn [gstep].
  - destruct H as [H1 H2]. apply advance_consistent; unfold do_open, held; destruct (r_owns r); cbn [opened closed caller_closed]; lia.
  - unfold consistent, held. cbn [opened closed caller_closed]. lia.
  - unfold consistent, held. cbn [opened closed caller_closed]. lia.
  - destruct H as (H1 & H2 & H3). now apply advance_consistent.
  - destruct H as (H1 & H2 & H3). unfold consistent, do_close, held in *. destruct (r_owns r); cbn [opened closed caller_closed] in *; repeat split; lia.
  - destruct H as (H1 & H2 & H3). unfold consistent, do_close, held in *. destruct (r_owns r); cbn [opened closed caller_closed] in *; repeat split; lia.
  - unfold consistent. auto.
  - unfold consistent. auto.
  - unfold consistent. auto.
Qed.

Lemma grun_consistent r es : forall s l, consistent r s l -> let '(s', l') := grun r s l es in consistent r s' l'.
Proof.
  induction es as [|e rest IH]; intros s l H; cbn [grun]; [exact H|].
  pose proof (gstep_consistent r s l e H) as H'. destruct (gstep r s l e) as [[s' l'] o]. now apply IH.
Qed.

Lemma fresh_consistent r : consistent r Fresh l0.
Proof. unfold consistent, l0. cbn. lia. Qed.

(* C19: for every reader, every number of blocks, every fault position and EVERY trace of next /
   close / drop events: the caller's stream is never closed; nothing is opened before the first next;
   while suspended exactly the one file opened from a path is held; once the generator has finished
   in whatever way (exhausted, closed, dropped, ended by an error) everything it opened is closed *)
Theorem reader_balanced r es :
  let '(s, l) := grun r Fresh l0 es in
  caller_closed l = 0 /\
  match s with
  | Fresh => opened l = 0
  | Suspended _ => held l = (if r_owns r then 1 else 0)
  | Finished => held l = 0
  end.
Proof.
  pose proof (grun_consistent r es Fresh l0 (fresh_consistent r)) as H.
  destruct (grun r Fresh l0 es) as [s l]. destruct H as (C & _ & H). split; [exact C|].
  destruct s; [tauto|tauto|exact H].
Qed.

(* after any terminal event the generator is finished *)
Lemma terminal_finishes r s l e :
  (e = GClose \/ e = GDrop) -> fst (fst (gstep r s l e)) = Finished.
Proof. intros [-> | ->]; destruct s; reflexivity. Qed.

(* writers: whatever table fails, the file write_csv opened is closed and a caller stream untouched;
   write_excel creates nothing unless every table serialised *)
Theorem write_csv_balanced owns n f :
  let '(l, _) := write_csv_ledger owns n f in held l = 0 /\ caller_closed l = 0 /\ opened l = (if owns then 1 else 0).
Proof.
  unfold write_csv_ledger, do_open, do_close, held, l0.
  destruct f as [j|]; [destruct (Nat.ltb j n)|]; destruct owns; cbn [opened closed caller_closed]; repeat split; lia.
Qed.

Theorem write_excel_balanced owns n f :
  let '(l, raised) := write_excel_ledger owns n f in
  held l = 0 /\ caller_closed l = 0 /\ (raised = true -> opened l = 0).
Proof.
  unfold write_excel_ledger, do_open, do_close, held, l0.
  destruct f as [j|]; [destruct (Nat.ltb j n)|]; destruct owns; cbn [opened closed caller_closed]; repeat split; try lia; discriminate.
Qed.
