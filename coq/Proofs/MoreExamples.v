(* Non-vacuity of headline theorems that had no instantiated example: C05 (heap), C07 (forms),
   C10 block end, C18 (origin row, chain, forest), and the datetime branch of the cell round trip. *)
From Coq Require Import Lia.
From PdV Require Import ParseTable LayoutProofs RoundTrip BlockEndProofs SegmentProofs ReaderProofs HeapProofs LoadProofs TreeProofs FormsAgree.
From PdV.Model Require Import Segment Reader Heap Load Tree WriteCsv Json.
From PdV.Corr Require C05.
Local Open Scope nat_scope.

(* ---- C10_block_end / C18_row on a concrete row sequence ---- *)
Definition ex_kind (n : nat) : Segment.kind := match n with 0 => KTable | 1 => KPlain | _ => KBlank0 end.

Example block_end_applies :
  In (BTable, 1, [0; 1; 1]) (segment ex_kind ([2] ++ 0 :: [1; 1] ++ [2; 0])).
Proof.
  apply (table_block_end nat ex_kind [2] 0 [1; 1] [2; 0]); [reflexivity|repeat constructor|].
  right. eexists _, _. split; [reflexivity|discriminate].
Qed.

Example origin_row_applies :
  exists r0 g', nth_error [2; 0; 1; 1; 2; 0] 1 = Some r0 /\ ex_kind r0 = KTable /\ [0; 1; 1] = r0 :: g'.
Proof. exact (table_origin_row ex_kind [2; 0; 1; 1; 2; 0] 1 [0; 1; 1] block_end_applies). Qed.

(* ---- C18: chain and forest ---- *)
Definition ex_push (i : nat) : list nat := match i with 0 => [1; 2] | 1 => [2] | _ => [] end.

Example history_exists_applies :
  forall i, In i [1; 2; 0] -> reach nat nat Some ex_push [0] i.
Proof.
  apply (history_exists nat Nat.eqb Nat.eqb_eq nat Some ex_push nat (fun _ => []) false [0] 20 [1; 2; 0]
                        [Visit 0; Visit 2; Visit 1; Dup 2]).
  vm_compute. reflexivity.
Qed.

Example forest_leaves_applies :
  let tables := [(10, [1; 0]); (11, [2; 1; 0]); (12, [1; 0])] in
  count nat (is_leaf nat 11) (all_children nat (make_trees nat Nat.eqb tables)) = 1 /\
  In (CLeaf 11) (children_of nat Nat.eqb 2 (make_trees nat Nat.eqb tables)).
Proof.
  cbv zeta. apply (make_trees_leaves nat Nat.eqb Nat.eqb_eq _ 11 2 [1; 0]).
  - repeat constructor; cbn; intuition discriminate.
  - repeat constructor; discriminate.
  - right. now left.
Qed.

(* ---- C07: the three forms on a concrete sheet (a table and a stray row) ---- *)
Definition ex_rows : list row :=
  [ [CStr [42; 42; 116]%N]; [CStr [97]%N]; [CStr [99]%N]; [CStr [45]%N]; [CStr [49]%N]; []; [CNone; CStr [120]%N] ].
Definition ex_cfg : fixer_cfg := {| stop_on_errors := true; strict_types := true; fix_value := stock_fix |}.
Definition ex_pf (s : str) : option ftok := match s with [49%N] => Some 1%N | _ => None end.

Example grid_same_types_applies :
  map ev_shape (flat_map (grid_event None) (segment_rows ex_rows))
  = map ev_shape (fst (deliver ex_pf (fun _ => DBad) ex_cfg FPd None true (segment_rows ex_rows) [])).
Proof.
  apply (deliver_grid_shape ex_pf (fun _ => DBad) ex_cfg None true (segment_rows ex_rows) []).
  - vm_compute. reflexivity.
  - vm_compute. repeat constructor; discriminate.
Qed.

(* C07_json_is_table_to_json applied: the table of the sheet above, converted through its frame,
   is the JsonData the precursor route renders - and that JsonData has the column with its value *)
Example forms_agree_applies :
  exists p, In (EBlock BTable 0 (CtTable p)) (fst (deliver ex_pf (fun _ => DBad) ex_cfg FPd None true (segment_rows ex_rows) [])) /\
    table_to_json (p_name p) (p_dests p) (frame_cols (fun _ => []) (fun _ => []) p) = Some (json_of_ptable (fun _ => []) p) /\
    j_cols (json_of_ptable (fun _ => []) p) = [([99]%N, [45]%N, [JFloat 1%N])].
Proof.
  eexists. split; [vm_compute; left; reflexivity|]. split.
  - eapply (forms_agree (fun _ => []) (fun _ => []) ex_pf (fun _ => DBad) ex_cfg None true (segment_rows ex_rows) [] _ _ BTable 0).
    + exact stock_fix_kind.
    + apply surjective_pairing.
    + vm_compute. left. reflexivity.
  - vm_compute. reflexivity.
Qed.

(* ---- C05: a concrete heap with one table frame; copying it yields only new objects ---- *)
Definition ex_heap_frame := C05.new_frame {| nxt := 0; objs := [] |} [116]%N [[97]%N] [([120]%N, [109]%N); ([121]%N, [45]%N)] 7.

Lemma ex_heap_wf : wf_heap (fst ex_heap_frame).
Proof.
  intros id o H. change (nxt (fst ex_heap_frame)) with 5.
  do 5 (destruct id as [|id]; [lia|]). vm_compute in H. discriminate.
Qed.

Example result_fresh_applies :
  exists h' r,
    Heap.combine (fst ex_heap_frame) [snd ex_heap_frame] [[120]%N; [121]%N] [99; 111; 112; 121]%N true = (h', Some (inl r)) /\
    wf_heap h' /\ (forall id, In id (owned h' r) -> nxt (fst ex_heap_frame) <= id < nxt h') /\
    v_name (observe h' r) = Some [116]%N.
Proof.
  destruct (Heap.combine (fst ex_heap_frame) [snd ex_heap_frame] [[120]%N; [121]%N] [99; 111; 112; 121]%N true) as [h' [[r|e]|]] eqn:E;
    try (vm_compute in E; discriminate).
  exists h', r. split; [reflexivity|].
  destruct (combine_fresh _ _ _ _ _ _ _ ex_heap_wf E) as (W & F & _). split; [exact W|]. split; [exact F|].
  vm_compute in E. inversion E; subst. reflexivity.
Qed.

(* ---- the datetime branch of the cell round trip (dt_ok) ---- *)
Definition ex_pd (s : str) : dres := match s with [50; 48; 50; 48]%N => DOk 1577836800000000000%Z | _ => DBad end.

Example cell_roundtrip_datetime_applies :
  cell_parser (fun _ => None) ex_pd s_datetime (CStr (render s_datetime false (WDate 1577836800000000000%Z [50; 48; 50; 48]%N)))
  = CVal (VDate 1577836800000000000%Z).
Proof.
  apply (cell_roundtrip (fun _ => None) ex_pd s_datetime false (WDate 1577836800000000000%Z [50; 48; 50; 48]%N)).
  unfold wf_val. cbn. left. eexists _, _. split; [reflexivity|].
  unfold dt_ok. repeat split; try reflexivity. eexists _, _. split; reflexivity.
Qed.
