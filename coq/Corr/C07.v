(* Correspondence checker for C07: the reader checker of Corr/Read.v plus, for the 'pdtable' form,
   table_to_json_data of every delivered table against the model's route through the frame
   (frame_cols, then table_to_json) - the two sides of Properties/C07.v C07_json_is_table_to_json. *)
From PdV.Corr Require Export Read.
Local Open Scope N_scope.

Record case7 := mk7 {
  c7_case : case;
  c7_tjson : list ocontent     (* table_to_json_data(table) per TABLE block of the 'pdtable' read; [] for the other forms *)
}.

Definition tables_of (evs : list event) : list ptable :=
  flat_map (fun e => match e with EBlock _ _ (CtTable p) => [p] | _ => [] end) evs.

Definition tj_eqb (dstr : list (Z * str)) (p : ptable) (o : ocontent) : bool :=
  match table_to_json (p_name p) (p_dests p) (frame_cols (render_dt dstr) (fun _ => []) p), o with
  | Some j, OJson name dests cols =>
      str_eqb (j_name j) name && set_eqb (j_dests j) dests && list_eqb jcol_eqb (j_cols j) cols
  | _, _ => false
  end.

Fixpoint all2 {A B} (f : A -> B -> bool) (a : list A) (b : list B) : bool :=
  match a, b with
  | [], [] => true
  | x :: a', y :: b' => f x y && all2 f a' b'
  | _, _ => false
  end.

Definition check7 (c : case7) : bool :=
  check (c7_case c) &&
  match rc_form (c7_case c) with
  | FPd => all2 (tj_eqb (rc_dstr (c7_case c))) (tables_of (fst (run_model (c7_case c)))) (c7_tjson c)
  | _ => true
  end.
