(* Correspondence checker for C20 (TableBundle). *)
From PdV Require Export Common Bundle.

Inductive item :=
| IObj (id : nat) (name : str)                    (* Table / TableDataFrame / JsonData dict *)
| IGrid (id : nat) (nrows : nat) (cell0 : str).   (* cell grid: list of rows *)

Definition item_id (i : item) : nat := match i with IObj n _ => n | IGrid n _ _ => n end.

Definition name_of (i : item) : option str :=
  match i with
  | IObj _ n => Some n
  | IGrid _ nrows c0 => if Nat.ltb 1 nrows then grid_name c0 else None
  end.

(* per queried name: code of unique() (0 found, 1 not unique, 2 missing), found id, ids of all(), in *)
Definition qres : Type := N * nat * list nat * bool.
Definition query (b : bundle item) (n : str) : qres :=
  let '(code, fid) := match unique b n with
                      | Found t => (0%N, item_id t) | NotUnique => (1%N, 0) | Missing => (2%N, 0) end in
  (code, fid, map item_id (all b n), contains b n).

Definition qres_eqb (a b : qres) : bool :=
  let '(c, f, l, i) := a in let '(c', f', l', i') := b in
  N.eqb c c' && Nat.eqb f f' && list_eqb Nat.eqb l l' && Bool.eqb i i'.

(* observed: None = NotImplementedError at construction; else iteration ids, len, query results,
   integer-index results *)
Definition obs : Type := option (list nat * nat * list qres * list (option nat)).
Definition case : Type := list (bool * item) * list str * list Z * obs.

Definition check (c : case) : bool :=
  let '(bs, qs, idxs, o) := c in
  match build name_of bs, o with
  | None, None => true
  | Some b, Some (it, ln, qr, ir) =>
      list_eqb Nat.eqb (map item_id (iter b)) it && Nat.eqb (len b) ln
      && list_eqb qres_eqb (map (query b) qs) qr
      && list_eqb (opt_eqb Nat.eqb) (map (fun i => option_map item_id (getitem_int b i)) idxs) ir
  | _, _ => false
  end.
