(* Correspondence checker for C09: the worksheet model against what openpyxl loads back, and the
   reader model on the loaded grid against read_excel. *)
From PdV.Corr Require Export Read C01.
From PdV.Model Require Export WriteXl.

(* numeric cells compare by value (a float 3.0 comes back from the workbook as int 3, -0.0 as 0) *)
Definition fnorm (f : ftok) : ftok := if N.eqb f negzero_tok then zero_tok else f.
Definition xcell_eqv (a b : cell) : bool :=
  match a, b with
  | CStr x, CStr y => str_eqb x y
  | CNone, CNone => true
  | CNone, CStr [] => true       (* an empty string is stored as an empty cell *)
  | CStr [], CNone => true
  | CInt _ f _, CInt _ g _ | CInt _ f _, CFloat g _ | CFloat f _, CInt _ g _ | CFloat f _, CFloat g _ => N.eqb (fnorm f) (fnorm g)
  | CBool x, CBool y => Bool.eqb x y
  | CDate x _, CDate y _ => Z.eqb x y
  | _, _ => false
  end.

Definition row_blank (r : row) : bool := forallb (fun c => match c with CNone => true | _ => false end) r.
Fixpoint strip_trailing_blank (rs : list row) : list row :=
  match rs with
  | [] => []
  | r :: rest => match strip_trailing_blank rest with
                 | [] => if row_blank r then [] else [r]
                 | l => r :: l
                 end
  end.

Record case := mkcase9 {
  c_sep_lines : nat;
  c_tables : list wtable;
  c_grid : list row;                        (* the sheet as openpyxl loads it *)
  c_ftab : list (str * option ftok);
  c_dtab : list (str * dres);
  c_read : list oevent                      (* the blocks read_excel yields for this sheet *)
}.

Definition check (c : case) : bool :=
  list_eqb (list_eqb xcell_eqv) (strip_trailing_blank (sheet_rows (c_sep_lines c) (c_tables c)))
                                (strip_trailing_blank (c_grid c))
  && (let (evs, fin) := read (fun s => match assoc s (c_ftab c) with Some r => r | None => None end)
                             (fun s => match assoc s (c_dtab c) with Some r => r | None => DBad end)
                             (mk_cfg true None) FPd None true (c_grid c) in
      (* only the TABLE blocks are compared: blank separator rows of a sheet wider than one cell
         come out as BLANK blocks, whose rows are openpyxl's own tuples *)
      events_eqb (c_grid c) [] (filter (fun e => match e with EBlock BTable _ _ => true | _ => false end) evs) (c_read c)
      && final_eqb fin (0%N, 0%nat)).
