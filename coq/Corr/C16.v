(* Correspondence checker for C16 / C17 / C18: load_files on a real directory tree against the
   file-system loader model. *)
From PdV Require Export Common.
From PdV.Model Require Export Load.

(* observed outcome: 0 completed, 1 InputError, 2 LoadError, 3 other exception; the sequence of
   locations opened / listed (Visit), tables yielded per file, repeated locations reported *)
Inductive oev := OVisit (p : path) | OYield (p : path) (n : nat) | ODup (p : path).

Definition fb_code (b : fblock) : nat := match b with FBTable n => n | FBOther n => n | FBInclude _ => 0 end.

Definition ev_match (e : ev path fblock) (o : oev) : bool :=
  match e, o with
  | Visit p, OVisit q => path_eqb p q
  | Yield p b, OYield q n => path_eqb p q && Nat.eqb (fb_code b) n
  | Dup p, ODup q => path_eqb p q
  | _, _ => false
  end.

Fixpoint evs_match (es : list (ev path fblock)) (os : list oev) : bool :=
  match es, os with
  | [], [] => true
  | e :: es', o :: os' => ev_match e o && evs_match es' os'
  | _, _ => false
  end.

Record case := mkcase16 {
  c_fs : xfs;
  c_root : option path;
  c_roots : list str;
  c_allow_include : bool;
  c_raising : bool;
  c_pattern_ok : list str;          (* entry names the file-name pattern matches *)
  c_code : N;
  c_events : list oev
}.

Definition run16 (c : case) :=
  fs_load (c_fs c) 200 (c_root c) (fun n => existsb (str_eqb n) (c_pattern_ok c)) (c_allow_include c)
          (c_raising c) 2000 (c_roots c).

Definition check (c : case) : bool :=
  match run16 c with
  | Done _ evs => N.eqb (c_code c) 0 && evs_match evs (c_events c)
  | Aborted _ evs => (N.eqb (c_code c) 1 || N.eqb (c_code c) 2 || N.eqb (c_code c) 3) && evs_match evs (c_events c)
  | DupAbort _ evs => N.eqb (c_code c) 1 && evs_match evs (c_events c)
  | OutOfFuel => false
  end.
