(* Correspondence checker for C06 (convert_units). Column values: the cells' float-bit tokens. *)
From PdV Require Export Common.
From PdV.Model Require Export Convert.

Definition vals := list N.
Definition vals_eqb (a b : vals) : bool := list_eqb N.eqb a b.

(* the converter as a table of the calls that can occur: (unit, target, values) -> result *)
Definition conv_tab : Type := list (str * option str * vals * option (vals * str)).
Fixpoint lookup (t : conv_tab) (u : str) (to : option str) (v : vals) : option (vals * str) :=
  match t with
  | [] => None
  | (u', to', v', r) :: rest =>
      if str_eqb u u' && opt_eqb str_eqb to to' && vals_eqb v v' then r else lookup rest u to v
  end.

Inductive disp := PBase | POrigin | PList (l : list (option str)) | PDict (d : list (str * option str))
                | PFun (d : list (str * option str)).
Definition to_dispatcher (p : disp) : dispatcher :=
  match p with
  | PBase => DBase | POrigin => DOrigin | PList l => DList l | PDict d => DDict d
  | PFun d => DFun (fun n => dict_get n d)
  end.

Definition err_code (e : cerr) : N :=
  match e with ENotDefined => 1 | ENotImplemented => 2 | EConverter => 3 | ELength => 4 | EType => 5 end%N.

Definition col_eqb (a b : column vals) : bool :=
  str_eqb (c_name a) (c_name b) && str_eqb (c_unit a) (c_unit b) && vals_eqb (c_vals a) (c_vals b).
Definition mkcol (n u : str) (v : vals) : column vals := {| c_name := n; c_unit := u; c_vals := v |}.

(* observed: error code (0 = a table was returned) and the returned columns *)
Definition case : Type := list (column vals) * disp * conv_tab * N * list (column vals).

Definition check (c : case) : bool :=
  let '(cols, p, tab, code, res) := c in
  match convert_units (lookup tab) (to_dispatcher p) cols with
  | inl r => N.eqb code 0 && list_eqb col_eqb r res
  | inr e => N.eqb code (err_code e)
  end.
