(* Correspondence checker for C06 (convert_units). Column values: the cells' float-bit tokens. *)
From PdV Require Export Common.
From PdV.Model Require Export Convert Normalize ConvertStore.

Definition vals := list N.
Definition vals_eqb (a b : vals) : bool := list_eqb N.eqb a b.

(* the converter as a table of the calls that can occur: (unit, target, values) -> result *)
Definition conv_tab : Type := list (str * option str * vals * option (vals * str)).
Fixpoint lookup (t : conv_tab) (u : str) (to : option str) (v : vals) : option (vals * str) :=
  match t with
  | [] => None
  | (u', to', v', r) :: rest =>
      if str_eqb u u' && opt_eqb str_eqb to to' && vals_eqb v v' then r else lookup rest u to v
  end.

Inductive disp := PBase | POrigin | PList (l : list (option str)) | PDict (d : list (str * option str))
                | PFun (d : list (str * option str)).
Definition to_dispatcher (p : disp) : dispatcher :=
  match p with
  | PBase => DBase | POrigin => DOrigin | PList l => DList l | PDict d => DDict d
  | PFun d => DFun (fun n => dict_get n d)
  end.

Definition err_code (e : cerr) : N :=
  match e with ENotDefined => 1 | ENotImplemented => 2 | EConverter => 3 | ELength => 4 | EType => 5 end%N.

Definition col_eqb (a b : column vals) : bool :=
  str_eqb (c_name a) (c_name b) && str_eqb (c_unit a) (c_unit b) && vals_eqb (c_vals a) (c_vals b).
Definition mkcol (n u : str) (v : vals) : column vals := {| c_name := n; c_unit := u; c_vals := v |}.

(* observed: error code (0 = a table was returned), the returned columns, and the columns of the
   original table as they are after the call *)
Definition case : Type := list (column vals) * disp * conv_tab * N * list (column vals) * list (column vals).

(* the call as the code performs it, on a store holding the original as object 0: the outcome, the
   new object, and the original afterwards; and the pure specification beside it *)
Definition check (c : case) : bool :=
  let '(cols, p, tab, code, res, after) := c in
  let '(st', r) := convert_units_store (lookup tab) (to_dispatcher p) [cols] 0 in
  match nth_error st' 0 with Some o => list_eqb col_eqb o after | None => false end &&
  match r with
  | inl id => N.eqb code 0 && match nth_error st' id with Some o => list_eqb col_eqb o res | None => false end
  | inr e => N.eqb code (err_code e)
  end &&
  match convert_units (lookup tab) (to_dispatcher p) cols with
  | inl r' => N.eqb code 0 && list_eqb col_eqb r' res
  | inr e => N.eqb code (err_code e)
  end.

(* ---- the stream function normalized_table_generator (pdtable/utils.py) ----
   stream: an other block, the table [name] (dispatched to p), an other block, the same columns as
   table "other" (not dispatched).  Observed: number of blocks delivered, error code, the columns of
   the first and of the second delivered table. *)
Definition scase : Type := str * list (column vals) * disp * conv_tab * N * nat * list (column vals) * list (column vals).

Definition s_other : str := [111; 116; 104; 101; 114]%N.
Definition tab_cols (b : sblock vals) : list (column vals) := match b with SBTable _ c => c | SBOther _ => [] end.

Definition check_stream (c : scase) : bool :=
  let '(name, cols, p, tab, code, n_out, res1, res2) := c in
  let td := fun n => if str_eqb n name then Some (to_dispatcher p) else None in
  let '(out, err) := normalize (lookup tab) td [SBOther 1; SBTable name cols; SBOther 2; SBTable s_other cols] in
  Nat.eqb (length out) n_out &&
  match err with
  | None => N.eqb code 0 && list_eqb col_eqb (tab_cols (nth 1 out (SBOther 0))) res1
            && list_eqb col_eqb (tab_cols (nth 3 out (SBOther 0))) res2
  | Some e => N.eqb code (err_code e)
  end.

Definition case2 : Type := case + scase.
Definition check2 (c : case2) : bool := match c with inl a => check a | inr s => check_stream s end.
