(* Correspondence checker for C19: descriptor observations after every event against the ledger. *)
From PdV Require Export Common.
From PdV.Model Require Export Lifecycle.

(* a case: the reader, and per event the number of descriptors observed open on the source after it *)
Definition case : Type := reader * list (gevent * nat).

Fixpoint replay (r : reader) (s : gstate) (l : ledger) (es : list (gevent * nat)) : bool :=
  match es with
  | [] => true
  | (e, n) :: rest =>
      let '(s', l', _) := gstep r s l e in
      Nat.eqb (held l') n && replay r s' l' rest
  end.
Definition check (c : case) : bool := let (r, es) := c in replay r Fresh l0 es.
