(* Correspondence checker for C19: descriptor observations after every event against the ledger,
   for one reader and for load_files over several locations. *)
From PdV Require Export Common.
From PdV.Model Require Export Lifecycle.

(* a case: the reader(s), and per event the number of descriptors observed open on the source(s) after it *)
Inductive case :=
| KOne (r : reader) (es : list (gevent * nat))
| KMany (rs : list reader) (es : list (gevent * nat)).

Fixpoint replay (r : reader) (s : gstate) (l : ledger) (es : list (gevent * nat)) : bool :=
  match es with
  | [] => true
  | (e, n) :: rest =>
      let '(s', l', _) := gstep r s l e in
      Nat.eqb (held l') n && replay r s' l' rest
  end.

Fixpoint lreplay (rs : list reader) (s : gstate) (l : ledger) (es : list (gevent * nat)) : bool :=
  match es with
  | [] => true
  | (e, n) :: rest =>
      let '(rs', s', l', _) := lstep rs s l e in
      Nat.eqb (held l') n && lreplay rs' s' l' rest
  end.

Definition check (c : case) : bool :=
  match c with
  | KOne r es => replay r Fresh l0 es
  | KMany rs es => lreplay rs Fresh l0 es
  end.
