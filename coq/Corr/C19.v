(* Correspondence checker for C19: descriptor observations after every event against the ledger,
   for one reader and for load_files over several locations. *)
From PdV Require Export Common.
From PdV.Model Require Export Lifecycle.

(* a case: the reader(s) in reading order, and per event the number of descriptors observed open on
   the source(s) after it and what the event produced (a block, StopIteration, an exception, nothing) *)
Definition obsev : Type := gevent * nat * outcome.
Inductive case :=
| KOne (r : reader) (es : list obsev)
| KMany (rs : list reader) (es : list obsev).

Definition outcome_eqb (a b : outcome) : bool :=
  match a, b with
  | Yielded, Yielded | Stopped, Stopped | Raised, Raised | Nothing, Nothing => true
  | _, _ => false
  end.

Fixpoint replay (r : reader) (s : gstate) (l : ledger) (es : list obsev) : bool :=
  match es with
  | [] => true
  | (e, n, o) :: rest =>
      let '(s', l', o') := gstep r s l e in
      Nat.eqb (held l') n && outcome_eqb o' o && replay r s' l' rest
  end.

Fixpoint lreplay (rs : list reader) (s : gstate) (l : ledger) (es : list obsev) : bool :=
  match es with
  | [] => true
  | (e, n, o) :: rest =>
      let '(rs', s', l', o') := lstep rs s l e in
      Nat.eqb (held l') n && outcome_eqb o' o && lreplay rs' s' l' rest
  end.

Definition check (c : case) : bool :=
  match c with
  | KOne r es => replay r Fresh l0 es
  | KMany rs es => lreplay rs Fresh l0 es
  end.
