(* Correspondence checker for C14 (Table.equals): the cells are the python scalars the frames
   hand out (Model/PyEq.v), compared by the model of _equal_or_same; the operands are python
   objects (a Table with its origin and orientation, or something else). *)
From PdV Require Export Common Equals PyEq.

Definition mk (name : str) (dests cols units : list str) (rows : list (list pyval)) : table pyval :=
  {| t_name := name; t_dests := dests; t_colnames := cols; t_units := units; t_rows := rows |}.

Inductive case :=
| KTables (a b : pyobj pyval) (ab ba aa bb : bool)    (* a.equals(b), b.equals(a), a.equals(a), b.equals(b) *)
| KOther (a : pyobj pyval) (tag : N) (r : bool)       (* a.equals(<not a table>) *)
| KScalars (x y : pyval) (r : bool).                  (* _equal_or_same(x, y) *)

Definition meq := method_equals equal_or_same.

Definition check (c : case) : bool :=
  match c with
  | KTables a b ab ba aa bb =>
      Bool.eqb (meq a b) ab && Bool.eqb (meq b a) ba && Bool.eqb (meq a a) aa && Bool.eqb (meq b b) bb
  | KOther a tag r => Bool.eqb (meq a (ONotTable tag)) r
  | KScalars x y r => Bool.eqb (equal_or_same x y) r
  end.
