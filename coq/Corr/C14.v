(* Correspondence checker for C14 (Table.equals). *)
From PdV Require Export Common Equals.

(* canonical comparison tokens of cell values (computed by the harness; H_eqv ties them to
   _equal_or_same) *)
Inductive tokv := TM | TN (b : N) | TS (s : str) | TD (z : Z) | TB (b : bool) | TO (s : str).

Definition tok_eqb (a b : tokv) : bool :=
  match a, b with
  | TM, TM => true
  | TN x, TN y => N.eqb x y
  | TS x, TS y => str_eqb x y
  | TD x, TD y => Z.eqb x y
  | TB x, TB y => Bool.eqb x y
  | TO x, TO y => str_eqb x y
  | _, _ => false
  end.

Definition mk (name : str) (dests cols units : list str) (rows : list (list tokv)) : table tokv :=
  {| t_name := name; t_dests := dests; t_colnames := cols; t_units := units; t_rows := rows |}.

Definition case : Type := table tokv * table tokv * bool * bool.

Definition check (c : case) : bool :=
  let '(a, b, ab, ba) := c in
  Bool.eqb (equals tok_eqb a b) ab && Bool.eqb (equals tok_eqb b a) ba.
