(* Correspondence checker for the reader model (M-Seg + M-Parse + M-Read + M-Json), shared by
   C02, C07, C10, C11, C12, C13. *)
From PdV Require Export Common Reader Json.
Local Open Scope N_scope.

Definition cell_eqb (a b : cell) : bool :=
  match a, b with
  | CStr x, CStr y => str_eqb x y
  | CNone, CNone => true
  | CInt x f r, CInt y g s => Z.eqb x y && N.eqb f g && str_eqb r s
  | CFloat f r, CFloat g s => N.eqb f g && str_eqb r s
  | CBool x, CBool y => Bool.eqb x y
  | CDate x r, CDate y s => Z.eqb x y && str_eqb r s
  | CNaT, CNaT => true
  | COther x r, COther y s => N.eqb x y && str_eqb r s
  | _, _ => false
  end.

Definition value_eqb (a b : value) : bool :=
  match a, b with
  | VText x, VText y => str_eqb x y
  | VBool x, VBool y => Bool.eqb x y
  | VNum x, VNum y => N.eqb x y
  | VDate x, VDate y => Z.eqb x y
  | VNaT, VNaT => true
  | VCustom x, VCustom y => N.eqb x y
  | _, _ => false
  end.

Definition jleaf_eqb (a b : jleaf) : bool :=
  match a, b with
  | JNull, JNull => true
  | JBool x, JBool y => Bool.eqb x y
  | JInt x, JInt y => Z.eqb x y
  | JFloat x, JFloat y => N.eqb x y
  | JStr x, JStr y => str_eqb x y
  | _, _ => false
  end.

Definition subset (a b : list str) : bool := forallb (fun s => existsb (str_eqb s) b) a.
Definition set_eqb (a b : list str) : bool := subset a b && subset b a.

Inductive ocontent :=
| OTable (name : str) (tr : bool) (dests names units : list str) (cols : list (list value))
         (err warn : nat)
| OJson (name : str) (dests : list str) (cols : list (str * str * list jleaf))
| OGrid (idx : list nat)
| OMeta (kv : list (str * str))
| ODir (name : str) (lines : list cell).
(* origin = None: the block object carries no origin (raw cell grids); origins of all block types
   are compared by the C03 checker *)
Inductive oevent := OBlock (t : N) (origin : option nat) (c : ocontent) | OIssue (origin : nat).

Definition btype_code (t : btype) : N :=
  match t with BDir => 1 | BTable => 2 | BTempl => 3 | BMeta => 4 | BBlank => 5 end.

Fixpoint assoc {A} (k : str) (l : list (str * A)) : option A :=
  match l with
  | [] => None
  | (k', v) :: rest => if str_eqb k' k then Some v else assoc k rest
  end.
Fixpoint assocZ {A} (k : Z) (l : list (Z * A)) : option A :=
  match l with
  | [] => None
  | (k', v) :: rest => if Z.eqb k' k then Some v else assocZ k rest
  end.

Section Check.
Variable rows : list row.
Variable dstr : list (Z * str).
Definition render_dt (d : dtok) : str := match assocZ d dstr with Some s => s | None => [63] end.

Definition pair_eqb {A B} (ea : A -> A -> bool) (eb : B -> B -> bool) (x y : A * B) : bool :=
  ea (fst x) (fst y) && eb (snd x) (snd y).

Definition jcol_eqb (a b : str * str * list jleaf) : bool :=
  let '(n, u, v) := a in let '(n', u', v') := b in
  str_eqb n n' && str_eqb u u' && list_eqb jleaf_eqb v v'.

Definition content_eqb (m : content) (o : ocontent) : bool :=
  match m, o with
  | CtTable p, OTable name tr dests names units cols err warn =>
      str_eqb (p_name p) name && Bool.eqb (p_transposed p) tr && set_eqb (p_dests p) dests
      && list_eqb str_eqb (p_names p) names && list_eqb str_eqb (p_units p) units
      && list_eqb (list_eqb value_eqb) (p_cols p) cols
      && Nat.eqb (fx_errors (p_fx p)) err && Nat.eqb (fx_warnings (p_fx p)) warn
  | CtJson p, OJson name dests cols =>
      let j := json_of_ptable render_dt p in
      str_eqb (j_name j) name && set_eqb (j_dests j) dests && list_eqb jcol_eqb (j_cols j) cols
  | CtGrid g, OGrid idx =>
      list_eqb (opt_eqb (list_eqb cell_eqb)) (map Some g) (map (nth_error rows) idx)
  | CtMeta kv, OMeta kv' => list_eqb (pair_eqb str_eqb str_eqb) kv kv'
  | CtDirective n l, ODir n' l' => str_eqb n n' && list_eqb cell_eqb l l'
  | _, _ => false
  end.

Definition event_eqb (m : event) (o : oevent) : bool :=
  match m, o with
  | EBlock t i c, OBlock t' i' c' =>
      N.eqb (btype_code t) t' && (match i' with Some j => Nat.eqb i j | None => true end) && content_eqb c c'
  | EIssue i _, OIssue i' => Nat.eqb i i'
  | _, _ => false
  end.

Fixpoint events_eqb (m : list event) (o : list oevent) : bool :=
  match m, o with
  | [], [] => true
  | x :: m', y :: o' => event_eqb x y && events_eqb m' o'
  | _, _ => false
  end.

(* final: 0 done, 1 InputError (origin), 2 any other exception *)
Definition final_eqb (f : final) (o : N * nat) : bool :=
  match f, o with
  | FDone, (0, _) => true
  | FInputError i, (1, j) => Nat.eqb i j
  | FCrash, (2, _) => true
  | _, _ => false
  end.
End Check.

Definition mk_filter (spec : option (bool * list (N * str))) : option (btype -> str -> bool) :=
  match spec with
  | None => None
  | Some (invert, l) =>
      Some (fun t n => xorb invert (existsb (fun p => N.eqb (fst p) (btype_code t) && str_eqb (snd p) n) l))
  end.

Definition mk_cfg (stop : bool) (custom : option (value * value * value)) : fixer_cfg :=
  {| stop_on_errors := stop; strict_types := true;
     fix_value := match custom with
                  | None => stock_fix
                  | Some (o, d, f) => fun vt => match vt with TOnoff => o | TDatetime => d | TFloat => f end
                  end |}.

Record case := mkcase {
  rc_rows : list row;
  rc_ftab : list (str * option ftok);
  rc_dtab : list (str * dres);
  rc_dstr : list (Z * str);
  rc_stop : bool;
  rc_custom : option (value * value * value);
  rc_form : form;
  rc_filter : option (bool * list (N * str));
  rc_raising : bool;
  rc_events : list oevent;
  rc_final : N * nat
}.

Definition run_model (c : case) : list event * final :=
  read (fun s => match assoc s (rc_ftab c) with Some r => r | None => None end)
       (fun s => match assoc s (rc_dtab c) with Some r => r | None => DBad end)
       (mk_cfg (rc_stop c) (rc_custom c)) (rc_form c) (mk_filter (rc_filter c)) (rc_raising c)
       (rc_rows c).

Definition check (c : case) : bool :=
  let (evs, fin) := run_model c in
  events_eqb (rc_rows c) (rc_dstr c) evs (rc_events c) && final_eqb fin (rc_final c).
