(* Correspondence checker for C01: the CSV writer model against write_csv, and the model-level
   composition read_csv (write_csv ts) evaluated on the same bundles. *)
From PdV.Corr Require Export Read.
From PdV.Model Require Export WriteCsv.

Definition mkcol (n u : str) (v : list wval) : wcol := {| wc_name := n; wc_unit := u; wc_vals := v |}.
Definition mktab (n : str) (d : list str) (tr : bool) (c : list wcol) : wtable :=
  {| w_name := n; w_dests := d; w_transposed := tr; w_cols := c |}.

(* read_csv on a text: lines, split on sep, parse_blocks (default strict fixer, raising tracker) *)
Definition read_text (ftab : list (str * option ftok)) (dtab : list (str * dres)) (sep : N) (text : str)
  : list event * final :=
  read (fun s => match assoc s ftab with Some r => r | None => None end)
       (fun s => match assoc s dtab with Some r => r | None => DBad end)
       (mk_cfg true None) FPd None true
       (map (fun l => map CStr (split_on sep l)) (lines text)).

Record case := mkcase1 {
  c_sep : N;
  c_tables : list wtable;
  c_text : str;                          (* what write_csv produced *)
  c_ftab : list (str * option ftok);
  c_dtab : list (str * dres);
  c_read : list oevent                   (* what read_csv gave back on that text *)
}.

Definition check (c : case) : bool :=
  str_eqb (write_csv (c_sep c) (c_tables c)) (c_text c)
  && (let (evs, fin) := read_text (c_ftab c) (c_dtab c) (c_sep c) (c_text c) in
      events_eqb [] [] evs (c_read c) && final_eqb fin (0%N, 0%nat)).
