(* Correspondence checkers for C03 (segmentation, marker classification, isspace table). *)
From PdV Require Export Common Segment.

(* a case: the rows, and what parse_blocks_stable produced: per block its type code, origin row
   and the input indices of the rows it holds *)
Definition btype_code (t : btype) : N :=
  match t with BDir => 1 | BTable => 2 | BTempl => 3 | BMeta => 4 | BBlank => 5 end%N.

Definition case : Type := list row * list (N * nat * list nat).

Definition model_blocks (rs : list row) : list (N * nat * list nat) :=
  map (fun b : block (nat * row) => let '(t, i, g) := b in (btype_code t, i, map fst g))
      (segment (fun ir => row_kind (snd ir)) (number 0 rs)).

Definition blk_eqb (a b : N * nat * list nat) : bool :=
  let '(t, i, g) := a in let '(t', i', g') := b in
  N.eqb t t' && Nat.eqb i i' && list_eqb Nat.eqb g g'.

Definition check (c : case) : bool :=
  let (rs, obs) := c in list_eqb blk_eqb (model_blocks rs) obs.

(* exhaustive sweep of [classify] over all strings of a given length over an alphabet, in
   lexicographic order (first character slowest) *)
Fixpoint strings_of_len (alpha : list N) (n : nat) : list str :=
  match n with
  | O => [[]]
  | S m => flat_map (fun c => map (cons c) (strings_of_len alpha m)) alpha
  end.

Definition mkind_code (m : mkind) : N :=
  match m with MPlain => 0 | MTable => 1 | MDirective => 2 | MTemplate => 3 | MKey => 4 end%N.

Definition classify_digest (alpha : list N) (n : nat) : N :=
  digest (map (fun s => mkind_code (classify s)) (strings_of_len alpha n)).

Definition classify_codes (alpha : list N) (n : nat) : list N :=
  map (fun s => mkind_code (classify s)) (strings_of_len alpha n).

(* all code points below [bound] for which is_space holds, ascending *)
Definition spaces_below (bound : N) : list N :=
  rev (snd (N.iter bound (fun '(c, acc) => (N.succ c, if is_space c then c :: acc else acc))
                   (0%N, []))).

Definition row_kind_code (r : row) : N :=
  match row_kind r with
  | KPlain => 0 | KTable => 1 | KDir => 2 | KTempl => 3 | KKey => 4 | KBlank0 => 5 | KBlankP => 6
  end%N.
