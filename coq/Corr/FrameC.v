(* Correspondence checker for the frame bookkeeping model (C04, C15): an operation history on a
   real TableDataFrame against the model's steps, compared after every operation. *)
From PdV Require Export Common.
From PdV.Model Require Export Frame.

(* one observed call of TableDataFrame.__finalize__: the register of the (single) source that carries
   metadata as (name, unit) pairs, the strictness _combine_tables derives, and the new frame's columns *)
Definition fin_ev : Type := list (str * str) * bool * list (str * dtype) * bool.

Inductive op :=
| OData (cols : list (str * dtype)) (empty : bool)            (* direct dataframe manipulation *)
| OAdd (n : str) (d : dtype) (u : option str) (empty : bool)  (* facade add_column / setitem *)
| ORelabel (n u : str)                                        (* unit setter (after its own consult) *)
| OConsult                                                    (* checked access *)
| OPandas (evs : list fin_ev) (inplace : bool) (cols : list (str * dtype)) (empty : bool)
    (* a pandas operation: the __finalize__ calls it made, in order; any refusal aborts it.  Then the
       data ends as (cols, empty) - on the last finalized frame, or (inplace, e.g. df.loc[n] = row)
       on the original frame, whose register stays *)
| ORewrap.                                                    (* Table(df, name=...): new frame from the old units *)

Definition obs : Type := bool * list (str * str) * bool.

Definition reg_view (f : frame) : list (str * str) := map (fun km => (fst km, cm_unit (snd km))) (f_reg f).
Definition pair_str_eqb (a b : str * str) : bool := str_eqb (fst a) (fst b) && str_eqb (snd a) (snd b).

Definition reg_of_view (v : list (str * str)) : register :=
  map (fun nu => (fst nu, {| cm_unit := snd nu; cm_display_unit := None; cm_format := None |})) v.

Definition finalize_ev (e : fin_ev) : frame * option exc :=
  let '(view, strict, cols, empty) := e in
  finalize {| f_cols := []; f_empty := true; f_strict := strict; f_reg := reg_of_view view; f_last := None |} cols empty.

Fixpoint run_evs (evs : list fin_ev) (last : option frame) : option (option frame) :=   (* None = raised *)
  match evs with
  | [] => Some last
  | e :: rest => match finalize_ev e with
                 | (f', None) => run_evs rest (Some f')
                 | (_, Some _) => None
                 end
  end.

Definition apply_op (f : frame) (o : op) : frame * bool :=
  match o with
  | OData cols e => do_step f (SData cols e)
  | OAdd n d u e => do_step f (SAddColumn n d u e)
  | ORelabel n u =>
      match consult f with
      | (f', None) => if reg_has n (f_reg f') then (relabel_any f' n u, false)
                      else (f', true)     (* KeyError: the column has no register entry *)
      | (f', Some _) => (f', true)
      end
  | OConsult => do_step f SConsult
  | OPandas evs inplace cols e =>
      match run_evs evs None with
      | None => (f, true)                       (* refused: the source is untouched *)
      | Some last =>
          if inplace then do_step f (SData cols e)
          else match last with
               | Some f' => do_step f' (SData cols e)
               | None => do_step f (SData cols e)
               end
      end
  | ORewrap =>
      match consult f with
      | (f1, None) =>
          match make_frame (f_cols f1) (f_empty f1) (f_strict f1) (Some (units f1)) with
          | (f2, None) => (f2, false)
          | (_, Some _) => (f1, true)
          end
      | (f1, Some _) => (f1, true)
      end
  end.

Fixpoint replay (f : frame) (l : list (op * obs)) : bool :=
  match l with
  | [] => true
  | (o, (raised, view, nolast)) :: rest =>
      let (f', r) := apply_op f o in
      Bool.eqb r raised && list_eqb pair_str_eqb (reg_view f') view
      && Bool.eqb (match f_last f' with None => true | Some _ => false end) nolast
      && replay f' rest
  end.

(* a case: initial dataframe columns, emptiness, strictness, units given at construction,
   the observation right after construction, and the history *)
Definition case : Type :=
  list (str * dtype) * bool * bool * option (list str) * obs * list (op * obs).

Definition check (c : case) : bool :=
  let '(cols, e, strict, us, (raised0, view0, nolast0), hist) := c in
  let (f, ex) := make_frame cols e strict us in
  Bool.eqb (match ex with Some _ => true | None => false end) raised0
  && (if raised0 then true
      else list_eqb pair_str_eqb (reg_view f) view0
           && Bool.eqb (match f_last f with None => true | Some _ => false end) nolast0
           && replay f hist).

(* for debugging: what the model says after each operation *)
Fixpoint trace (f : frame) (l : list (op * obs)) : list obs :=
  match l with
  | [] => []
  | (o, _) :: rest =>
      let (f', r) := apply_op f o in
      (r, reg_view f', match f_last f' with None => true | Some _ => false end) :: trace f' rest
  end.
Definition trace_case (c : case) : option (obs * list obs) :=
  let '(cols, e, strict, us, _, hist) := c in
  let (f, ex) := make_frame cols e strict us in
  match ex with
  | Some _ => None
  | None => Some ((false, reg_view f, match f_last f with None => true | Some _ => false end), trace f hist)
  end.
