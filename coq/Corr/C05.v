(* Correspondence checker for C05: a program of frame creations, observed __finalize__ calls,
   re-wraps and mutations, replayed on the heap model; all user-visible frames are compared after
   every action. *)
From PdV Require Export Common.
From PdV.Model Require Export Heap.

Inductive action :=
| ANew (key : nat) (name : str) (dests : list str) (cols : list (str * str)) (loc : nat)
| AFinalize (key : nat) (srcs : list nat) (out : list str) (method : str) (strict : bool)
            (defaults : list (str * str))     (* default units by dtype for the result's columns *)
| ARewrap (key : nat) (src : nat) (name : option str) (units : option (list str))
| AMutate (key : nat) (m : mutation)
| ADrop (key : nat).                        (* the register entries of columns no longer in the frame go *)

Definition frames := list (nat * info).
Fixpoint flook (k : nat) (fs : frames) : option info :=
  match fs with [] => None | (k', i) :: r => if Nat.eqb k k' then Some i else flook k r end.

Fixpoint alloc_cols (h : heap) (cols : list (str * str)) : heap * list (str * nat) :=
  match cols with
  | [] => (h, [])
  | (n, u) :: rest =>
      let (h1, id) := alloc h (OCm {| cm_unit := u; cm_display_unit := None; cm_format := None |}) in
      let (h2, r) := alloc_cols h1 rest in (h2, (n, id) :: r)
  end.

Definition new_frame (h : heap) (name : str) (dests : list str) (cols : list (str * str)) (loc : nat) : heap * info :=
  let (h1, sid) := alloc h (OSet dests) in
  let (h2, mid) := alloc h1 (OMeta {| tm_name := name; tm_dests := sid; tm_origin := OLeaf loc;
                                     tm_transposed := false; tm_strict := true |}) in
  let (h3, d) := alloc_cols h2 cols in
  let (h4, did) := alloc h3 (ODict d) in
  (h4, {| i_meta := mid; i_dict := did |}).

(* _check_dataframe on the new frame: entries of vanished columns go, new columns get defaults *)
Fixpoint add_defaults (h : heap) (i : info) (defaults : list (str * str)) : heap :=
  match defaults with
  | [] => h
  | (n, u) :: rest =>
      match dict_get n (dict_of h i) with
      | Some _ => add_defaults h i rest
      | None => add_defaults (mutate h i (MAddCol n u)) i rest
      end
  end.
(* _update_columns leaves the register in the frame's column order (fix cd08929) *)
Definition reorder (h : heap) (i : info) (names : list str) : heap :=
  let d := dict_of h i in
  put h (i_dict i) (ODict (flat_map (fun n => match dict_get n d with Some id => [(n, id)] | None => [] end) names
                           ++ filter (fun nc => negb (mem_str (fst nc) names)) d)).
Definition restrict (h : heap) (i : info) (keep : list str) : heap :=
  put h (i_dict i) (ODict (filter (fun nc => mem_str (fst nc) keep) (dict_of h i))).

(* the dtype check of _check_dataframe on the new frame: a column whose dtype default is text/onoff
   must carry exactly that unit; any other column must not carry text/onoff *)
Definition compat_ok (h : heap) (i : info) (defaults : list (str * str)) : bool :=
  forallb (fun nd =>
             match dict_get (fst nd) (dict_of h i) with
             | Some id => match cm_of h id with
                          | Some c => if is_special (snd nd) then str_eqb (snd nd) (cm_unit c)
                                      else negb (is_special (cm_unit c))
                          | None => true
                          end
             | None => true
             end) defaults.

Fixpoint nodup_names (l : list str) : bool :=
  match l with [] => true | n :: r => negb (mem_str n r) && nodup_names r end.

(* one action; None = refused (InvalidTableCombineError / ColumnUnitException) *)
Definition step (st : heap * frames) (a : action) : option (heap * frames) :=
  let (h, fs) := st in
  match a with
  | ANew k name dests cols loc => let (h', i) := new_frame h name dests cols loc in Some (h', (k, i) :: fs)
  | AFinalize k srcs out method strict defaults =>
      let infos := flat_map (fun s => match flook s fs with Some i => [i] | None => [] end) srcs in
      match combine h infos out method strict with
      | (h', Some (inl r)) =>
          if compat_ok h' r defaults && nodup_names out   (* repeated labels: InvalidNamingError *)
          then Some (reorder (add_defaults h' r defaults) r (map fst defaults), (k, r) :: fs) else None
      | (h', Some (inr _)) => None
      | (h', None) => Some (h', fs)
      end
  | ARewrap k src name units =>
      match flook src fs with
      | Some i => match rewrap h i name units with
                  | (h', Some r) => Some (h', (k, r) :: fs)
                  | (h', None) => Some (h', fs)
                  end
      | None => Some (h, fs)
      end
  | AMutate k m => match flook k fs with Some i => Some (mutate h i m, fs) | None => Some (h, fs) end
  | ADrop k => Some (h, fs)
  end.

(* canonical view for comparison: name, destinations (sorted by the harness on both sides as sets),
   units by name, origin operation and ancestors *)
Definition oview : Type := str * list str * list (str * str) * option str * list nat.
Definition view_of (h : heap) (i : info) : oview :=
  let v := observe h i in
  (match v_name v with Some n => n | None => [] end,
   v_dests v,
   map (fun nu => (fst nu, match snd nu with Some u => u | None => [] end)) (v_units v),
   match v_origin v with Some (ODerived op _) => Some op | _ => None end,
   match v_origin v with Some o => ancestors o | None => [] end).

Definition subset (a b : list str) : bool := forallb (fun s => existsb (str_eqb s) b) a.
Definition assoc_sub (a b : list (str * str)) : bool :=
  forallb (fun p => existsb (fun q => str_eqb (fst p) (fst q) && str_eqb (snd p) (snd q)) b) a.
Definition oview_eqb (a b : oview) : bool :=
  let '(n, d, u, o, an) := a in let '(n', d', u', o', an') := b in
  str_eqb n n' && subset d d' && subset d' d && assoc_sub u u' && assoc_sub u' u
  && opt_eqb str_eqb o o' && list_eqb Nat.eqb an an'.

(* the program: each action with the observed outcome: refused?, and - after a checked access to each
   frame the harness still holds - that frame's current columns with their dtype-default units and
   its view, by key *)
Definition obs : Type := bool * list (nat * list (str * str) * oview).

(* a checked access: entries of vanished columns go, unregistered columns get their defaults *)
Definition sync (h : heap) (i : info) (cols : list (str * str)) : heap :=
  reorder (add_defaults (restrict h i (map fst cols)) i cols) i (map fst cols).
Fixpoint sync_all (h : heap) (fs : frames) (l : list (nat * list (str * str) * oview)) : heap :=
  match l with
  | [] => h
  | (k, cols, _) :: rest =>
      sync_all (match flook k fs with Some i => sync h i cols | None => h end) fs rest
  end.

Fixpoint replay (st : heap * frames) (prog : list (action * obs)) : bool :=
  match prog with
  | [] => true
  | (a, (refused, views)) :: rest =>
      match step st a with
      | None => refused && replay st rest
      | Some (h1, fs1) =>
          let h2 := sync_all h1 fs1 views in
          negb refused &&
          forallb (fun kv => match flook (fst (fst kv)) fs1 with
                             | Some i => oview_eqb (view_of h2 i) (snd kv)
                             | None => false
                             end) views
          && replay (h2, fs1) rest
      end
  end.

Definition case : Type := list (action * obs).
Definition check (c : case) : bool := replay ({| nxt := 0; objs := [] |}, []) c.

(* for debugging *)
Fixpoint trace (st : heap * frames) (prog : list (action * obs)) : list (option (list (nat * oview))) :=
  match prog with
  | [] => []
  | (a, (_, views)) :: rest =>
      match step st a with
      | None => None :: trace st rest
      | Some (h1, fs1) =>
          let h2 := sync_all h1 fs1 views in
          Some (map (fun ki => (fst ki, view_of h2 (snd ki))) fs1) :: trace (h2, fs1) rest
      end
  end.
