(* Helpers shared by the generated cases files. *)
From Coq Require Export List NArith ZArith Bool.
From Coq Require String Ascii.
Export ListNotations.

Fixpoint mismatches_aux {A} (chk : A -> bool) (i : nat) (l : list A) : list nat :=
  match l with
  | [] => []
  | x :: t => if chk x then mismatches_aux chk (S i) t else i :: mismatches_aux chk (S i) t
  end.
(* indices of the cases on which model and implementation differ (first 60) *)
Definition mismatches {A} (chk : A -> bool) (l : list A) : list nat :=
  firstn 60 (mismatches_aux chk 0 l).

Fixpoint list_eqb {A} (eqb : A -> A -> bool) (a b : list A) : bool :=
  match a, b with
  | [], [] => true
  | x :: a', y :: b' => eqb x y && list_eqb eqb a' b'
  | _, _ => false
  end.

Definition opt_eqb {A} (eqb : A -> A -> bool) (a b : option A) : bool :=
  match a, b with
  | None, None => true
  | Some x, Some y => eqb x y
  | _, _ => false
  end.

(* 61-bit polynomial digest of a list of small codes *)
Definition digest (l : list N) : N :=
  fold_left (fun h x => ((h * 1000003 + x + 1) mod 2305843009213693951)%N) l 0%N.

(* compact string literals in generated cases files: U8 "..." decodes the UTF-8 bytes of a Coq
   string literal into code points (evaluated by vm_compute; invalid sequences cannot occur since
   the harness writes valid UTF-8) *)
Fixpoint bytes_of (s : String.string) : list N :=
  match s with String.EmptyString => [] | String.String a t => Ascii.N_of_ascii a :: bytes_of t end.
Fixpoint utf8_dec (fuel : nat) (b : list N) : list N :=
  match fuel with
  | O => []
  | S f =>
    match b with
    | [] => []
    | x :: r =>
      if (x <? 128)%N then x :: utf8_dec f r
      else if (x <? 224)%N then
        match r with
        | y :: r' => ((x - 192) * 64 + (y - 128))%N :: utf8_dec f r'
        | _ => []
        end
      else if (x <? 240)%N then
        match r with
        | y :: z :: r' => ((x - 224) * 4096 + (y - 128) * 64 + (z - 128))%N :: utf8_dec f r'
        | _ => []
        end
      else
        match r with
        | y :: z :: w :: r' =>
            ((x - 240) * 262144 + (y - 128) * 4096 + (z - 128) * 64 + (w - 128))%N :: utf8_dec f r'
        | _ => []
        end
    end
  end.
Definition U8 (s : String.string) : list N := let b := bytes_of s in utf8_dec (List.length b) b.
