(* Helpers shared by the generated cases files. *)
From Coq Require Export List NArith ZArith Bool.
Export ListNotations.

Fixpoint mismatches_aux {A} (chk : A -> bool) (i : nat) (l : list A) : list nat :=
  match l with
  | [] => []
  | x :: t => if chk x then mismatches_aux chk (S i) t else i :: mismatches_aux chk (S i) t
  end.
(* indices of the cases on which model and implementation differ (first 60) *)
Definition mismatches {A} (chk : A -> bool) (l : list A) : list nat :=
  firstn 60 (mismatches_aux chk 0 l).

Fixpoint list_eqb {A} (eqb : A -> A -> bool) (a b : list A) : bool :=
  match a, b with
  | [], [] => true
  | x :: a', y :: b' => eqb x y && list_eqb eqb a' b'
  | _, _ => false
  end.

Definition opt_eqb {A} (eqb : A -> A -> bool) (a b : option A) : bool :=
  match a, b with
  | None, None => true
  | Some x, Some y => eqb x y
  | _, _ => false
  end.

(* 61-bit polynomial digest of a list of small codes *)
Definition digest (l : list N) : N :=
  fold_left (fun h x => ((h * 1000003 + x + 1) mod 2305843009213693951)%N) l 0%N.
