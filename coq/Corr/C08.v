(* Correspondence checker for C08: table_to_json_data and json_data_to_table. *)
From PdV.Corr Require Export Read.

Definition jleaf_list_eqb := list_eqb jleaf_eqb.
Definition jtable_eqb (a b : jtable) : bool :=
  str_eqb (j_name a) (j_name b) && set_eqb (j_dests a) (j_dests b) && list_eqb jcol_eqb (j_cols a) (j_cols b).

Definition mkj (n : str) (d : list str) (c : list (str * str * list jleaf)) : jtable :=
  {| j_name := n; j_dests := d; j_cols := c |}.

Fixpoint assocN {A} (k : N) (l : list (N * A)) : option A :=
  match l with [] => None | (k', v) :: r => if N.eqb k k' then Some v else assocN k r end.

Record case := mkcase8 {
  c_name : str; c_dests : list str; c_cols : list (str * str * list cell);
  c_json : option jtable;                  (* table_to_json_data(table); None = it raised *)
  c_ftab : list (str * option ftok);
  c_dtab : list (str * dres);
  c_frepr : list (N * str);                (* str(float) for the float leaves *)
  c_ifl : list (Z * N);                    (* float(int) for the int leaves *)
  c_back : option ocontent                 (* json_data_to_table(json.loads(json.dumps(jd))); None = it raised *)
}.

Definition back_model (c : case) (j : jtable) : res ptable :=
  parse_table (fun s => match assoc s (c_ftab c) with Some r => r | None => None end)
              (fun s => match assoc s (c_dtab c) with Some r => r | None => DBad end)
              (mk_cfg true None)
              (grid_of_json (fun f => match assocN f (c_frepr c) with Some s => s | None => [] end)
                            (fun z => []) (fun z => match assocZ z (c_ifl c) with Some f => f | None => 0%N end) j)
              fx_init.

Definition check (c : case) : bool :=
  match table_to_json (c_name c) (c_dests c) (c_cols c), c_json c with
  | Some j, Some oj =>
      jtable_eqb j oj &&
      match back_model c oj, c_back c with
      | Ok p, Some o => content_eqb [] [] (CtTable p) o
      | VErr _, None => true
      | _, _ => false
      end
  | None, None => true
  | _, _ => false
  end.
