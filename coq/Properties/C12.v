(* C12 - Malformed input is reported as a located input error, never an internal crash.
   Only statements here; every proof is one [exact] of a lemma from Proofs/. *)
From PdV Require Import Reader ParseProofs ReaderProofs.

(* For EVERY sequence of rows over cells of any kind (a superset of all corruptions of valid
   inputs), every output form, every filter and every tracker mode, the reader ends normally or with
   InputError: no other exception escapes.  Premises: pandas' to_datetime raises nothing but
   ValueError (H_datetime), and no table has 1000 or more column-name cells. *)
Theorem C12_no_crash :
  forall parse_float parse_dt cfg,
    (forall s, parse_dt s <> DCrash) ->
    forall fm raising filter rows,
      Forall (fun b : block row => ncolcells (snd b) < 1000) (segment_rows rows) ->
      snd (read parse_float parse_dt cfg fm filter raising rows) <> FCrash.
Proof. exact read_no_crash. Qed.
Print Assumptions C12_no_crash.

(* one table block: ValueError or success, never anything else *)
Theorem C12_table_no_crash :
  forall parse_float parse_dt cfg,
    (forall s, parse_dt s <> DCrash) ->
    forall cells fx,
      table_shape cells -> ncolcells cells < 1000 ->
      parse_table parse_float parse_dt cfg cells fx <> Crash.
Proof. exact parse_table_no_crash. Qed.
Print Assumptions C12_table_no_crash.

(* Default tracker: the first faulty block ends the stream as InputError located at that block -
   a TABLE block of the segmentation - and the blocks before it are delivered exactly as they would
   be if the input ended before the faulty block. *)
Theorem C12_prefix_delivered :
  forall parse_float parse_dt cfg fm raising filter bs hist evs i,
    raising = true ->
    deliver parse_float parse_dt cfg fm filter raising bs hist = (evs, FInputError i) ->
    exists bs1 g bs2 h,
      bs = bs1 ++ (BTable, i, g) :: bs2 /\
      deliver parse_float parse_dt cfg fm filter raising bs1 hist = (evs, FDone) /\
      (exists m, handle parse_float parse_dt cfg fm filter BTable g h = VErr m).
Proof. exact deliver_raising. Qed.
Print Assumptions C12_prefix_delivered.

(* Collecting tracker: reading continues past every faulty block; the stream is the concatenation
   of what each block yields on its own (a block or one located issue), and it ends normally. *)
Theorem C12_collect_continues :
  forall parse_float parse_dt cfg,
    (forall s, parse_dt s <> DCrash) ->
    forall fm raising filter bs hist,
      Forall block_shape bs -> raising = false ->
      map strip_ev (fst (deliver parse_float parse_dt cfg fm filter raising bs hist))
        = flat_map (block_events parse_float parse_dt cfg fm filter) bs /\
      snd (deliver parse_float parse_dt cfg fm filter raising bs hist) = FDone.
Proof. exact deliver_collecting. Qed.
Print Assumptions C12_collect_continues.

(* the blocks of the segmentation have the shape the handlers rely on *)
Theorem C12_block_shapes :
  forall rows,
    Forall (fun b : block row => ncolcells (snd b) < 1000) (segment_rows rows) ->
    Forall block_shape (segment_rows rows).
Proof. exact segment_block_shape. Qed.
Print Assumptions C12_block_shapes.

(* non-vacuity: a table cut off after its name row is an InputError at row 0, not a crash *)
Example C12_example :
  read (fun _ => None) (fun _ => DBad) {| stop_on_errors := true; strict_types := true; fix_value := stock_fix |}
       FPd None true [[CStr [42; 42; 97]%N]] = ([], FInputError 0).
Proof. vm_compute. reflexivity. Qed.
