(* C16 - Loading reads exactly the reachable files, once each, and always terminates.
   Only statements here; every proof is one [exact] of a lemma from Proofs/.
   The work-list of queued_load over abstract resolution (resolve), enqueued items (pushes) and
   yielded blocks (blocks): the theorems hold for every loader composition, every file tree and
   every include graph; Model/Load.v instantiates them on a file system with include directives. *)
From PdV.Model Require Import Path Load.
From PdV Require Import LoadProofs FsLoadProofs.

(* termination, with an explicit fuel bound: stack length + the pushes still pending from
   unvisited locations of a finite universe *)
Theorem C16_terminates :
  forall (id : Type) (id_eqb : id -> id -> bool),
    (forall a b, id_eqb a b = true <-> a = b) ->
    forall (item : Type) (resolve : item -> option id) (pushes : id -> list item)
           (blk : Type) (blocks : id -> list blk) (raising : bool) (universe : list id),
      NoDup universe -> (forall it i, resolve it = Some i -> In i universe) ->
      forall fuel stack visited evs,
        length stack + pending id id_eqb item pushes universe visited < fuel ->
        load id id_eqb item resolve pushes blk blocks raising fuel stack visited evs <> OutOfFuel.
Proof. exact load_terminates. Qed.
Print Assumptions C16_terminates.

(* each location is read at most once *)
Theorem C16_once :
  forall (id : Type) (id_eqb : id -> id -> bool),
    (forall a b, id_eqb a b = true <-> a = b) ->
    forall (item : Type) (resolve : item -> option id) (pushes : id -> list item)
           (blk : Type) (blocks : id -> list blk) (raising : bool) fuel stack visited evs v e,
      NoDup visited ->
      load id id_eqb item resolve pushes blk blocks raising fuel stack visited evs = Done v e -> NoDup v.
Proof. exact load_nodup. Qed.
Print Assumptions C16_once.

(* a completed load has read exactly the locations reachable from the roots through resolution
   of the enqueued items (folder entries, include lines) *)
Theorem C16_exact :
  forall (id : Type) (id_eqb : id -> id -> bool),
    (forall a b, id_eqb a b = true <-> a = b) ->
    forall (item : Type) (resolve : item -> option id) (pushes : id -> list item)
           (blk : Type) (blocks : id -> list blk) (raising : bool) roots fuel stack visited evs v e,
      inv id item resolve pushes roots stack visited ->
      load id id_eqb item resolve pushes blk blocks raising fuel stack visited evs = Done v e ->
      forall i, In i v <-> reach id item resolve pushes roots i.
Proof. exact load_exact. Qed.
Print Assumptions C16_exact.

Theorem C16_exact_start :
  forall (id item : Type) (resolve : item -> option id) (pushes : id -> list item) roots,
    inv id item resolve pushes roots (rev roots) [].
Proof. exact inv_init. Qed.
Print Assumptions C16_exact_start.

(* the output: per location read, in reading order, its blocks together and in their own order
   (include directives are not among [blocks]: they are consumed) *)
Theorem C16_output :
  forall (id : Type) (id_eqb : id -> id -> bool) (item : Type) (resolve : item -> option id)
         (pushes : id -> list item) (blk : Type) (blocks : id -> list blk) (raising : bool)
         fuel stack visited evs v e,
    filter (fun x => negb (is_dup id blk x)) evs = flat_map (visit_events id blk blocks) (rev visited) ->
    load id id_eqb item resolve pushes blk blocks raising fuel stack visited evs = Done v e ->
    filter (fun x => negb (is_dup id blk x)) e = flat_map (visit_events id blk blocks) (rev v).
Proof. exact load_output. Qed.
Print Assumptions C16_output.

(* every reported repetition names a location that was read *)
Theorem C16_repeat_reported :
  forall (id : Type) (id_eqb : id -> id -> bool),
    (forall a b, id_eqb a b = true <-> a = b) ->
    forall (item : Type) (resolve : item -> option id) (pushes : id -> list item)
           (blk : Type) (blocks : id -> list blk) (raising : bool) fuel stack visited evs v e i,
      load id id_eqb item resolve pushes blk blocks raising fuel stack visited evs = Done v e ->
      In (Dup i) e -> In (Dup i) evs \/ In i v.
Proof. exact load_dups_reported. Qed.
Print Assumptions C16_repeat_reported.

(* non-vacuity: two files including each other, and a self-include: 3 reads, 3 reported repeats (a is
   named by itself and by b, b by a after the folder listing); the fuel given exceeds the bound of
   C16_fs_terminates *)
Example C16_example :
  let n (l : list N) : str := l in
  let a := n [97%N] in let b := n [98%N] in
  let x : xfs := [ ([], XDir [a; b]);
                   ([a], XFile [FBTable 1; FBInclude [n [47; 98]%N; n [47; 97]%N]]);
                   ([b], XFile [FBInclude [n [47; 97]%N]; FBTable 2]) ] in
  match fs_load x 50 (Some []) (fun _ => true) true false 100 [n [47%N]] with
  | Done v e => length v = 3 /\ length (filter (is_dup path fblock) e) = 3
  | _ => False
  end /\ fs_fuel_bound x (fun _ => true) true [n [47%N]] <= 100.
Proof. vm_compute. split; [split; reflexivity|repeat constructor]. Qed.

(* The file-system instance discharges the premises of C16_terminates: its universe is the finite
   set of paths of the file system, so load_files terminates on every tree, with every include graph
   and every set of symbolic links, within an explicit bound. *)
Theorem C16_fs_terminates :
  forall (x : xfs) (rfuel : nat) (root : option path) (matches : str -> bool) (allow_include raising : bool)
         (fuel : nat) (roots : list str),
    fs_fuel_bound x matches allow_include roots <= fuel ->
    fs_load x rfuel root matches allow_include raising fuel roots <> OutOfFuel.
Proof. exact fs_load_terminates. Qed.
Print Assumptions C16_fs_terminates.
