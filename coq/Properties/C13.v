(* C13 - Every repaired defect is counted and reported; nothing else is altered.
   Only statements here; every proof is one [exact] of a lemma from Proofs/. *)
From PdV Require Import Reader ParseProofs ReaderProofs.

(* a strict read accepts only a table that needed no repair at all *)
Theorem C13_strict :
  forall parse_float parse_dt cfg cells fx p,
    stop_on_errors cfg = true ->
    parse_table parse_float parse_dt cfg cells fx = Ok p ->
    fx_fixes (p_fx p) = fx_fixes fx \/ fx_fixes (p_fx p) = 0.
Proof. exact strict_accepts_clean. Qed.
Print Assumptions C13_strict.

(* every counted repair has its own log entry (the strict error message is that log) *)
Theorem C13_every_fix_logged :
  forall parse_float parse_dt cfg cells fx p,
    parse_table parse_float parse_dt cfg cells fx = Ok p -> balanced fx (p_fx p).
Proof. exact fixes_logged. Qed.
Print Assumptions C13_every_fix_logged.

(* a column: every non-defective cell keeps its defect-free parse, every illegal cell holds the
   fixer's replacement, the warning counter grows by exactly the number of illegal cells and the
   error counter is untouched *)
Theorem C13_column :
  forall cfg p cs fx vs fx',
    parse_cells cfg p cs fx = Ok (vs, fx') ->
    col_values cfg p cs = Some vs /\ length vs = length cs /\
    fx_errors fx' = fx_errors fx /\ fx_warnings fx' = fx_warnings fx + n_fix p cs /\
    (exists m, fx_messages fx' = fx_messages fx ++ m /\ length m = n_fix p cs).
Proof. exact parse_cells_spec. Qed.
Print Assumptions C13_column.

(* rows cut short: each costs exactly one error, is completed with the filler, and no other row
   changes *)
Theorem C13_short_rows :
  forall n_col rows i fx rows' fx',
    fill_rows n_col rows i fx = (rows', fx') ->
    length rows' = length rows /\ Forall (fun r => n_col <= length r) rows' /\
    fx_warnings fx' = fx_warnings fx /\ fx_errors fx' = fx_errors fx + n_short n_col rows /\
    balanced fx fx' /\
    Forall2 (fun r r' => r' = if Nat.ltb (length r) n_col
                              then r ++ repeat s_NaN_cell (n_col - length r) else r) rows rows'.
Proof. exact fill_rows_spec. Qed.
Print Assumptions C13_short_rows.

(* duplicate column names: the result is duplicate-free, as long as the raw names, and without
   duplicates nothing is changed or counted *)
Theorem C13_duplicates :
  forall (parse_float : str -> option ftok) (parse_dt : str -> dres) raw pos acc fx,
    NoDup acc -> length acc + length raw < 1000 ->
    exists names fx',
      fix_duplicates raw pos acc fx = Ok (names, fx') /\
      NoDup names /\ length names = length acc + length raw /\
      fx_warnings fx' = fx_warnings fx /\ fx_errors fx <= fx_errors fx' /\
      fx_errors fx' <= fx_errors fx + length raw /\
      (NoDup (acc ++ raw) -> names = acc ++ raw /\ fx' = fx).
Proof. exact fix_duplicates_spec. Qed.
Print Assumptions C13_duplicates.

Theorem C13_names_unique :
  forall parse_float parse_dt cfg cells fx p,
    parse_table parse_float parse_dt cfg cells fx = Ok p ->
    length (p_names p) < 1000 -> NoDup (p_names p).
Proof. exact names_unique. Qed.
Print Assumptions C13_names_unique.

Theorem C13_full_shape :
  forall parse_float parse_dt cfg cells fx p,
    parse_table parse_float parse_dt cfg cells fx = Ok p ->
    length (p_units p) = length (p_names p) /\ length (p_cols p) = length (p_names p).
Proof. exact table_shape_full. Qed.
Print Assumptions C13_full_shape.

(* isolation: with a collecting tracker each block's outcome is what it yields on its own - defects
   of earlier blocks never change the verdict on a later one (every block is parsed from the reset
   fixer state [fx_init]) *)
Theorem C13_isolated :
  forall parse_float parse_dt cfg,
    (forall s, parse_dt s <> DCrash) ->
    forall fm raising filter bs hist,
      Forall block_shape bs -> raising = false ->
      map strip_ev (fst (deliver parse_float parse_dt cfg fm filter raising bs hist))
        = flat_map (block_events parse_float parse_dt cfg fm filter) bs /\
      snd (deliver parse_float parse_dt cfg fm filter raising bs hist) = FDone.
Proof. exact deliver_collecting. Qed.
Print Assumptions C13_isolated.

(* non-vacuity: a lenient read of a table with one illegal number and a duplicated name *)
Example C13_example :
  let n (l : list N) : str := l in
  match parse_table (fun _ => None) (fun _ => DBad)
          {| stop_on_errors := false; strict_types := true; fix_value := stock_fix |}
          [ [CStr (n [42; 42; 116]%N)]; [CStr (n [97]%N)];
            [CStr (n [120]%N); CStr (n [120]%N)]; [CStr (n [109]%N); CStr (n [109]%N)];
            [CStr (n [113]%N); CStr (n [45]%N)] ]
          fx_init with
  | Ok p => fx_errors (p_fx p) = 1 /\ fx_warnings (p_fx p) = 1 /\ length (p_names p) = 2 /\
            p_cols p = [[VNum nan_tok]; [VNum nan_tok]]
  | _ => False
  end.
Proof. vm_compute. repeat split; reflexivity. Qed.
