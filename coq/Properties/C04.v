(* C04 - Every column keeps exactly its own unit, whatever is done to the frame.
   Only statements here; every proof is one [exact] of a lemma from Proofs/.
   A frame is abstracted to (column name, dtype) list + emptiness + register + validated snapshot;
   a history is any finite list of steps: arbitrary replacement of the dataframe's columns (covers
   insert / delete / rename / reorder done directly), facade add_column / setitem, physical-unit
   relabelling, checked accesses. *)
From PdV.Model Require Import Frame.
From PdV Require Import FrameProofs.

(* After ANY history over that alphabet (the unit setter relabels between physical units only, see
   C15), a checked access to a strict frame with at least one row either refuses, or leaves the
   register listing exactly the dataframe's columns in dataframe order (Inv04), each with a unit
   compatible with its dtype (Inv15).  What is proved is this invariant - one unit per column, in
   column order, positional list = per-column lookup - not a relation between a column's unit before
   and after a history (new columns get defaults, overwritten ones may be relabelled by the facade). *)
Theorem C04_history_invariant :
  forall f0 ss f',
    J f0 -> f_strict f0 = true ->
    f_empty (run f0 ss) = false ->
    consult (run f0 ss) = (f', None) ->
    Inv15 f' /\ Inv04 f'.
Proof. exact history_invariant. Qed.
Print Assumptions C04_history_invariant.

(* ... so the positional unit list is the per-column lookup, in dataframe column order: what the
   CSV / Excel / JSON writers zip with the column names is each column's own unit *)
Theorem C04_units_positional :
  forall f, Inv04 f -> NoDup (names f) -> map Some (units f) = map (unit_of f) (names f).
Proof. exact units_positional. Qed.
Print Assumptions C04_units_positional.

(* a frame fresh from make_table_dataframe is a legitimate starting point *)
Theorem C04_start :
  forall cols e strict us f, make_frame cols e strict us = (f, None) -> strict = true -> J f.
Proof. exact make_frame_J. Qed.
Print Assumptions C04_start.

(* the single consultation step *)
Theorem C04_consult :
  forall f f',
    J f -> f_strict f = true -> f_empty f = false -> consult f = (f', None) ->
    Inv15 f' /\ Inv04 f' /\ J f' /\ f_cols f' = f_cols f.
Proof. exact consult_establishes. Qed.
Print Assumptions C04_consult.

(* non-vacuity: a (float m, text) frame; a column inserted at the front directly; then consulted *)
Example C04_example :
  let a : str := [97%N] in let b : str := [98%N] in let n : str := [110%N] in let m : str := [109%N] in
  match make_frame [(a, (KNumeric, 1%N)); (b, (KText, 2%N))] false true (Some [m; u_text]) with
  | (f0, None) =>
      match consult (run f0 [SData [(n, (KBool, 3%N)); (a, (KNumeric, 1%N)); (b, (KText, 2%N))] false]) with
      | (f', None) => units f' = [u_onoff; m; u_text] /\ names f' = [n; a; b]
      | _ => False
      end
  | _ => False
  end.
Proof. vm_compute. repeat split; reflexivity. Qed.
