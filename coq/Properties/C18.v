(* C18 - Each table's origin pinpoints where it was read and how it got included.
   Only statements here; every proof is one [exact] of a lemma from Proofs/. *)
From PdV Require Import Segment SegmentProofs.
From PdV.Model Require Import Load Tree.
From PdV Require Import LoadProofs TreeProofs.

(* the origin row of a TABLE block is the 0-based index of its '**' row: the block's first row is
   input row i and that row is a table-marker row (from the segmentation theorem) *)
Theorem C18_row :
  forall (R : Type) (kind_of : R -> kind) (rs : list R) i g,
    In (BTable, i, g) (segment kind_of rs) ->
    exists r0 g', nth_error rs i = Some r0 /\ kind_of r0 = KTable /\ g = r0 :: g'.
Proof. exact table_origin_row. Qed.
Print Assumptions C18_row.

(* every location that is read is reachable from a root through resolution of enqueued items (folder
   entries, include lines): a chain of load items back to a root exists.  That load_history reports
   exactly this chain, with the directive rows, is checked on the implementation by the oracle only. *)
Theorem C18_history_exists :
  forall (id : Type) (id_eqb : id -> id -> bool),
    (forall a b, id_eqb a b = true <-> a = b) ->
    forall (item : Type) (resolve : item -> option id) (pushes : id -> list item)
           (blk : Type) (blocks : id -> list blk) (raising : bool) roots fuel v e,
      load id id_eqb item resolve pushes blk blocks raising fuel (rev roots) [] [] = Done v e ->
      forall i, In i v -> reach id item resolve pushes roots i.
Proof. exact history_exists. Qed.
Print Assumptions C18_history_exists.

(* location trees: every table is a leaf exactly once, beneath the node of its file *)
Theorem C18_forest_leaves :
  forall (loc : Type) (loc_eqb : loc -> loc -> bool),
    (forall a b, loc_eqb a b = true <-> a = b) ->
    forall tables t f rest,
      NoDup (map fst tables) -> Forall (fun tc => snd tc <> []) tables ->
      In (t, f :: rest) tables ->
      count loc (is_leaf loc t) (all_children loc (make_trees loc loc_eqb tables)) = 1 /\
      In (CLeaf t) (children_of loc loc_eqb f (make_trees loc loc_eqb tables)).
Proof. exact make_trees_leaves. Qed.
Print Assumptions C18_forest_leaves.

(* a newly registered child ends up under the head of its chain: a file under the location that
   included it, and so on up to a root *)
Theorem C18_parent :
  forall (loc : Type) (loc_eqb : loc -> loc -> bool),
    (forall a b, loc_eqb a b = true <-> a = b) ->
    forall l rest c b,
      NoDup (map fst b) ->
      In c (children_of loc loc_eqb l (register loc loc_eqb (l :: rest) c b)) /\
      In l (map fst (register loc loc_eqb (l :: rest) c b)).
Proof. exact register_parent. Qed.
Print Assumptions C18_parent.
