(* C14 - Table.equals is true exactly for the same header and the same cells.
   Only statements here; every proof is one [exact] of a lemma from Proofs/. *)
From PdV Require Import Equals EqualsProofs PyEq PyEqProofs EqualsCells.

(* For all pairs of tables (default row numbering; every row holds one cell per column) and every
   cell comparison [eqv]: equals holds iff name, destination set, column names in order, units and
   number of rows agree and the cells are pairwise [eqv].  (For the concrete cell comparison and
   for origin, orientation and operands that are not tables see the second half of this file.) *)
Theorem C14_equals_iff :
  forall (V : Type) (eqv : V -> V -> bool) (a b : table V),
    wf a -> wf b ->
    (equals eqv a b = true <->
     t_name a = t_name b /\ (forall s, In s (t_dests a) <-> In s (t_dests b)) /\
     t_colnames a = t_colnames b /\ t_units a = t_units b /\
     length (t_rows a) = length (t_rows b) /\ Forall2 (row_eqv eqv) (t_rows a) (t_rows b)).
Proof. exact equals_iff. Qed.
Print Assumptions C14_equals_iff.

Theorem C14_refl :
  forall (V : Type) (eqv : V -> V -> bool) (a : table V),
    (forall x, eqv x x = true) -> equals eqv a a = true.
Proof. exact equals_refl. Qed.
Print Assumptions C14_refl.

Theorem C14_sym :
  forall (V : Type) (eqv : V -> V -> bool) (a b : table V),
    (forall x y, eqv x y = eqv y x) -> equals eqv a b = equals eqv b a.
Proof. exact equals_sym. Qed.
Print Assumptions C14_sym.

(* the function as it stood before the repair (fix: commit in /repo) violated the statement *)
Theorem C14_unrepaired_refuted :
  exists (a b : table nat),
    wf a /\ wf b /\ equals_unrepaired Nat.eqb a b = true /\ length (t_rows a) <> length (t_rows b).
Proof. exact unrepaired_refuted. Qed.
Print Assumptions C14_unrepaired_refuted.

(* non-vacuity: a 2x2 table satisfies the hypotheses and equals itself but not a shorter one *)
Example C14_example :
  let t rows := {| t_name := [116%N]; t_dests := [[97%N]; [98%N]]; t_colnames := [[99%N]; [100%N]];
                   t_units := [[45%N]; [109%N]]; t_rows := rows |} in
  wf (t [[1; 2]; [3; 4]]) /\ equals Nat.eqb (t [[1; 2]; [3; 4]]) (t [[1; 2]; [3; 4]]) = true /\
  equals Nat.eqb (t [[1; 2]; [3; 4]]) (t [[1; 2]]) = false.
Proof. split; [repeat constructor|split; vm_compute; reflexivity]. Qed.

(* ---- the cell comparison itself: pdtable.proxy._equal_or_same on python scalars ---- *)

(* with it, equals is reflexive and symmetric without further hypotheses *)
Theorem C14_cells_refl : forall a : table pyval, equals equal_or_same a a = true.
Proof. exact cells_refl. Qed.
Print Assumptions C14_cells_refl.

Theorem C14_cells_sym : forall a b : table pyval, equals equal_or_same a b = equals equal_or_same b a.
Proof. exact cells_sym. Qed.
Print Assumptions C14_cells_sym.

(* numbers compare by value regardless of numeric type: an int z is z * 2^0, a bool is 0 or 1, a
   finite float is mantissa * 2^exponent; two numbers are equal cells exactly when these values are
   equal (stated over the integers at any common scale 2^k) *)
Theorem C14_numbers_by_value :
  forall a b m1 e1 m2 e2 k,
    num_of a = Some (NFin m1 e1) -> num_of b = Some (NFin m2 e2) -> (k <= e1)%Z -> (k <= e2)%Z ->
    (equal_or_same a b = true <-> (m1 * 2 ^ (e1 - k) = m2 * 2 ^ (e2 - k))%Z).
Proof. exact eos_numbers. Qed.
Print Assumptions C14_numbers_by_value.

(* missing equals missing (None, NaN, NaT, pd.NA alike) and nothing else *)
Theorem C14_missing :
  forall a b, is_missing a = true -> equal_or_same a b = is_missing b.
Proof. exact eos_missing. Qed.
Print Assumptions C14_missing.

(* on the modelled domain of cells (Model/PyEq.v: int, bool, float, str, naive timestamp, the four
   missing values) the cell comparison is an equivalence relation *)
Theorem C14_cell_equivalence :
  (forall a, equal_or_same a a = true) /\
  (forall a b, equal_or_same a b = equal_or_same b a) /\
  (forall a b c, equal_or_same a b = true -> equal_or_same b c = true -> equal_or_same a c = true).
Proof. exact (conj eos_refl (conj eos_sym eos_trans)). Qed.
Print Assumptions C14_cell_equivalence.

(* origin and orientation are ignored; comparison with anything that is not a Table is false *)
Theorem C14_origin_orientation_ignored :
  forall (c1 c2 o1 o2 o1' o2' : N) (t1 t2 t1' t2' : bool) (a b : table pyval),
    method_equals equal_or_same (OTable c1 o1 t1 a) (OTable c2 o2 t2 b)
    = method_equals equal_or_same (OTable c1 o1' t1' a) (OTable c2 o2' t2' b).
Proof. exact method_ignores_origin_orientation. Qed.
Print Assumptions C14_origin_orientation_ignored.

Theorem C14_not_a_table :
  forall (self : pyobj pyval) (tag : N), method_equals equal_or_same self (ONotTable tag) = false.
Proof. exact method_not_table. Qed.
Print Assumptions C14_not_a_table.

(* on objects the method is reflexive and symmetric, whatever the classes of the two tables (subclasses
   that do not override equals) *)
Theorem C14_method_refl :
  forall (c o : N) (t : bool) (a : table pyval), method_equals equal_or_same (OTable c o t a) (OTable c o t a) = true.
Proof. exact method_refl. Qed.
Print Assumptions C14_method_refl.

Theorem C14_method_sym :
  forall x y : pyobj pyval, method_equals equal_or_same x y = method_equals equal_or_same y x.
Proof. exact method_sym. Qed.
Print Assumptions C14_method_sym.

(* before the third repair (isinstance(other, self.__class__)) a Table and a subclass instance with
   the same content were equal in one direction only *)
Theorem C14_subclass_unrepaired_refuted :
  exists x y : pyobj pyval,
    method_equals_unrepaired equal_or_same x y = true /\ method_equals_unrepaired equal_or_same y x = false /\
    method_equals equal_or_same x y = true /\ method_equals equal_or_same y x = true.
Proof. exact method_unrepaired_asymmetric. Qed.
Print Assumptions C14_subclass_unrepaired_refuted.

(* the cell comparison as it stood before the second repair (fix: commit in /repo): a pd.NA cell made
   a == b raise inside Table.equals, so a table holding pd.NA did not even equal itself; wherever the
   old code answered (on python-number cells; numpy scalars are the third repair), the repaired code
   answers the same *)
Theorem C14_pdNA_unrepaired_refuted :
  equal_or_same_unrepaired PNA PNA = None /\ equal_or_same PNA PNA = true.
Proof. exact unrepaired_pdNA. Qed.
Print Assumptions C14_pdNA_unrepaired_refuted.

Theorem C14_repair_conservative :
  forall a b r, equal_or_same_unrepaired a b = Some r -> equal_or_same a b = r.
Proof. exact repair_conservative. Qed.
Print Assumptions C14_repair_conservative.

(* non-vacuity: 10 == 10.0 == True + 9, 2^53 + 1 differs from the float 2^53, NaN equals None *)
Example C14_cells_example :
  equal_or_same (PInt 10) (PFloat 4621819117588971520) = true /\
  equal_or_same (PBool true) (PFloat 4607182418800017408) = true /\
  equal_or_same (PInt (2 ^ 53 + 1)) (PFloat 4845873199050653696) = false /\
  equal_or_same (PInt (2 ^ 53)) (PFloat 4845873199050653696) = true /\
  equal_or_same (PFloat 9221120237041090560) PNone = true /\
  equal_or_same (PFloat 9223372036854775808) (PInt 0) = true /\
  num_of (PFloat 4621819117588971520) = Some (NFin 5629499534213120 (-49)).
Proof. repeat split; vm_compute; reflexivity. Qed.
