(* C14 - Table.equals is true exactly for the same header and the same cells.
   Only statements here; every proof is one [exact] of a lemma from Proofs/. *)
From PdV Require Import Equals EqualsProofs.

(* For all pairs of tables (default row numbering; every row holds one cell per column) and every
   cell comparison [eqv]: equals holds iff name, destination set, column names in order, units and
   number of rows agree and the cells are pairwise [eqv].  Origin and orientation do not occur in
   the function at all. *)
Theorem C14_equals_iff :
  forall (V : Type) (eqv : V -> V -> bool) (a b : table V),
    wf a -> wf b ->
    (equals eqv a b = true <->
     t_name a = t_name b /\ (forall s, In s (t_dests a) <-> In s (t_dests b)) /\
     t_colnames a = t_colnames b /\ t_units a = t_units b /\
     length (t_rows a) = length (t_rows b) /\ Forall2 (row_eqv eqv) (t_rows a) (t_rows b)).
Proof. exact equals_iff. Qed.
Print Assumptions C14_equals_iff.

Theorem C14_refl :
  forall (V : Type) (eqv : V -> V -> bool) (a : table V),
    (forall x, eqv x x = true) -> equals eqv a a = true.
Proof. exact equals_refl. Qed.
Print Assumptions C14_refl.

Theorem C14_sym :
  forall (V : Type) (eqv : V -> V -> bool) (a b : table V),
    (forall x y, eqv x y = eqv y x) -> equals eqv a b = equals eqv b a.
Proof. exact equals_sym. Qed.
Print Assumptions C14_sym.

(* the function as it stood before the repair (fix: commit in /repo) violated the statement *)
Theorem C14_unrepaired_refuted :
  exists (a b : table nat),
    wf a /\ wf b /\ equals_unrepaired Nat.eqb a b = true /\ length (t_rows a) <> length (t_rows b).
Proof. exact unrepaired_refuted. Qed.
Print Assumptions C14_unrepaired_refuted.

(* non-vacuity: a 2x2 table satisfies the hypotheses and equals itself but not a shorter one *)
Example C14_example :
  let t rows := {| t_name := [116%N]; t_dests := [[97%N]; [98%N]]; t_colnames := [[99%N]; [100%N]];
                   t_units := [[45%N]; [109%N]]; t_rows := rows |} in
  wf (t [[1; 2]; [3; 4]]) /\ equals Nat.eqb (t [[1; 2]; [3; 4]]) (t [[1; 2]; [3; 4]]) = true /\
  equals Nat.eqb (t [[1; 2]; [3; 4]]) (t [[1; 2]]) = false.
Proof. split; [repeat constructor|split; vm_compute; reflexivity]. Qed.
