(* C17 - With a root folder set, nothing outside it is ever opened.
   Only statements here; every proof is one [exact] of a lemma from Proofs/. *)
From PdV.Model Require Import Load.
From PdV Require Import LoadProofs PathProofs FsLoadProofs.

(* a specification resolves to a canonical path (no component is a symbolic link) that has the
   root as a prefix - or it is a load error; for every file system, source folder and specification *)
Theorem C17_contained :
  forall fs fuel r src spec p,
    resolve_item fs fuel (Some r) src spec = ROk p -> is_prefix r p = true /\ canonical fs p.
Proof. exact resolve_contained. Qed.
Print Assumptions C17_contained.

(* realpath never leaves a symbolic link in its result *)
Theorem C17_realpath_canonical :
  forall fs fuel cur rest p,
    canonical fs cur -> realpath fs fuel cur rest = Some p -> canonical fs p.
Proof. exact realpath_canonical. Qed.
Print Assumptions C17_realpath_canonical.

(* lifted to the loader: however the load ends (completed, load error, repeated location), every
   location it opened, listed or read blocks from is a canonical path under the root; an item that
   does not resolve aborts the load before it is visited *)
Theorem C17_nothing_outside :
  forall x rfuel r matches allow_include raising fuel roots,
    Forall (ev_ok path fblock (fun p => is_prefix r p = true /\ canonical (to_fs x) p))
           (evs_of path litem fblock (fs_load x rfuel (Some r) matches allow_include raising fuel roots)).
Proof. exact fs_load_contained. Qed.
Print Assumptions C17_nothing_outside.

(* The same with the fuel question settled (C17_nothing_outside alone says nothing about a run that
   exhausts its fuel): given the explicit bound of C16_fs_terminates the load ends - completed, load
   error or repeated location - and everything it opened, listed or read from is canonical and under
   the root. *)
Theorem C17_nothing_outside_total :
  forall x rfuel r matches allow_include raising fuel roots,
    fs_fuel_bound x matches allow_include roots <= fuel ->
    let res := fs_load x rfuel (Some r) matches allow_include raising fuel roots in
    res <> OutOfFuel /\
    Forall (ev_ok path fblock (fun p => is_prefix r p = true /\ canonical (to_fs x) p)) (evs_of path litem fblock res).
Proof. exact fs_load_contained_total. Qed.
Print Assumptions C17_nothing_outside_total.

(* non-vacuity: an include that escapes through a symlink is a load error, before any access *)
Example C17_example :
  let n (l : list N) : str := l in
  let r := n [114%N] in let o := n [111%N] in let f := n [102%N] in let l := n [108%N] in
  let x : xfs := [ ([], XDir [r; o]); ([r], XDir [f; l]); ([o], XDir [f]);
                   ([r; f], XFile [FBInclude [n [108; 47; 102]%N]]);      (* include "l/f" *)
                   ([r; l], XLink (n [46; 46; 47; 111]%N));                (* l -> ../o *)
                   ([o; f], XFile [FBTable 7]) ] in
  match fs_load x 50 (Some [r]) (fun _ => true) true false 100 [n [47; 102]%N] with
  | Aborted _ e => e = [Visit [r; f]]
  | _ => False
  end /\ fs_fuel_bound x (fun _ => true) true [n [47; 102]%N] <= 100.
Proof. vm_compute. split; [reflexivity|repeat constructor]. Qed.
