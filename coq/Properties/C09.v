(* C09 - Excel write-then-read preserves tables across sheets, styles and spacing.
   Only statements here; every proof is one [exact] of a lemma from Proofs/.
   The worksheet model (Model/WriteXl.v: rows appended per table, sep_lines empty rows, None padding)
   is compared with what openpyxl loads back, and the reader model is run on the loaded grid, by the
   correspondence check; styles only ever add empty cells, which the reader treats as blank. *)
From Coq Require Import List Arith.
From PdV.Model Require Import WriteCsv WriteXl Segment Reader.
From PdV Require Import XlProofs ParseTable RoundTrip XlRoundTrip PlainLines XlPlain.
Import ListNotations.

(* styling addresses exactly the rows and cells that were written, for every list of table
   dimensions, both orientations and any number of separator lines *)
Theorem C09_style_ranges :
  forall sep_lines ds i,
    starts (rows_styled sep_lines) i ds = starts (rows_written sep_lines) i ds.
Proof. exact style_ranges. Qed.
Print Assumptions C09_style_ranges.

Theorem C09_style_columns : forall d, cols_styled d = cols_written d.
Proof. exact cols_styled_written. Qed.
Print Assumptions C09_style_columns.

(* the rows written for a table are as many as the bookkeeping says *)
Theorem C09_rows_written :
  forall sep_lines t,
    length (xl_table_rows sep_lines t) =
    rows_written sep_lines (n_rows (w_cols t), length (w_cols t), w_transposed t).
Proof. exact xl_table_rows_length. Qed.
Print Assumptions C09_rows_written.

(* One native cell, as write_excel stores it, parses under its column's unit to the written value;
   no float() / to_datetime hypothesis is involved (numbers, timestamps and booleans travel as such). *)
Theorem C09_cell_roundtrip :
  forall (parse_float : str -> option ftok) (parse_dt : str -> dres) u first v,
    wf_xval u first v -> cell_parser parse_float parse_dt u (xl_cell u first v) = CVal (value_of u v).
Proof. exact xl_cell_roundtrip. Qed.
Print Assumptions C09_cell_roundtrip.

(* The rows appended for a well-formed table (either orientation, zero or more rows), each padded
   with None to any sheet width, parse back to the table. *)
Theorem C09_table_roundtrip :
  forall (parse_float : str -> option ftok) (parse_dt : str -> dres) (cfg : fixer_cfg) (w : nat) (t : wtable),
    wf_xtable t ->
    parse_table parse_float parse_dt cfg (map (pad_row w) (xl_core_rows t)) fx_init = Ok (table_read_back t).
Proof. exact xl_table_roundtrip. Qed.
Print Assumptions C09_table_roundtrip.

(* Every table of a sheet (any tables before and after it, any sep_lines >= 1) is one TABLE block of
   the sheet as read back, its origin the row where it was appended, and that block parses to it. *)
Theorem C09_sheet_table_roundtrip :
  forall (parse_float : str -> option ftok) (parse_dt : str -> dres) (cfg : fixer_cfg)
         (sep_lines : nat) (pre : list wtable) (t : wtable) (post : list wtable),
    1 <= sep_lines -> wf_xtable t -> xl_plain sep_lines pre post t ->
    let rows := map (pad_row (width sep_lines pre post t)) (xl_core_rows t) in
    In (BTable, length (flat_map (xl_table_rows sep_lines) pre), rows)
       (segment_rows (sheet_rows sep_lines (pre ++ t :: post))) /\
    parse_table parse_float parse_dt cfg rows fx_init = Ok (table_read_back t).
Proof. exact sheet_table_roundtrip. Qed.
Print Assumptions C09_sheet_table_roundtrip.

(* The block-shape hypothesis xl_plain follows from conditions on first cells: the name does not start
   with a star; the destinations line, every column name and the first unit are neither blank nor a
   block marker; every first-column value is stored as a native cell (number, timestamp, boolean) or as
   a text that is neither blank nor a block marker. *)
Theorem C09_xl_plain_from_first_cells :
  forall (sep_lines : nat) (pre post : list wtable) (t : wtable),
    w_cols t <> [] -> first_cells_plain_xl t -> xl_plain sep_lines pre post t.
Proof. exact xl_plain_intro. Qed.
Print Assumptions C09_xl_plain_from_first_cells.
