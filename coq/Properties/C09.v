(* C09 - Excel write-then-read preserves tables across sheets, styles and spacing.
   Only statements here; every proof is one [exact] of a lemma from Proofs/.
   The worksheet model (Model/WriteXl.v: rows appended per table, sep_lines empty rows, None padding)
   is compared with what openpyxl loads back, and the reader model is run on the loaded grid, by the
   correspondence check; styles only ever add empty cells, which the reader treats as blank. *)
From PdV.Model Require Import WriteXl.
From PdV Require Import XlProofs.

(* styling addresses exactly the rows and cells that were written, for every list of table
   dimensions, both orientations and any number of separator lines *)
Theorem C09_style_ranges :
  forall sep_lines ds i,
    starts (rows_styled sep_lines) i ds = starts (rows_written sep_lines) i ds.
Proof. exact style_ranges. Qed.
Print Assumptions C09_style_ranges.

Theorem C09_style_columns : forall d, cols_styled d = cols_written d.
Proof. exact cols_styled_written. Qed.
Print Assumptions C09_style_columns.

(* the rows written for a table are as many as the bookkeeping says *)
Theorem C09_rows_written :
  forall sep_lines t,
    length (xl_table_rows sep_lines t) =
    rows_written sep_lines (n_rows (w_cols t), length (w_cols t), w_transposed t).
Proof. exact xl_table_rows_length. Qed.
Print Assumptions C09_rows_written.
