(* C06 - Unit conversion changes values and unit labels together, or neither.
   Only statements here; every proof is one [exact] of a lemma from Proofs/.
   V = a column's values (opaque), conv = the converter (any function; None = it raises). *)
From Coq Require Import List.
From PdV.Model Require Import Convert Normalize ConvertStore.
From PdV Require Import ConvertProofs NormalizeProofs ConvertStoreProofs.
Import ListNotations.

(* For every table, dispatcher form and converter: convert_units fails as a whole, or returns the
   same columns in the same order where each column is [converted] for its target: identical when
   untargeted / already in that unit; otherwise holding exactly the converter's output for the
   original values and carrying the requested unit (for '__base__' the unit the converter reported). *)
Theorem C06_convert :
  forall (V : Type) (conv : str -> option str -> V -> option (V * str)) d cols res,
    convert_units conv d cols = inl res ->
    exists ts, targets d cols = inl ts /\ length res = length cols /\
               Forall2 (fun ct c' => converted conv (fst ct) (snd ct) c') (combine cols ts) res.
Proof. exact convert_units_ok. Qed.
Print Assumptions C06_convert.

(* 'base' skips text / onoff / datetime columns *)
Theorem C06_base_skips_special :
  forall (V : Type) (cols : list (column V)),
    targets DBase cols = inl (map (fun c => if inconvertible (c_unit c) then None else Some s_base) cols).
Proof. exact base_skips_special. Qed.
Print Assumptions C06_base_skips_special.

(* a different unit requested for such a column is refused *)
Theorem C06_special_refused :
  forall (V : Type) (conv : str -> option str -> V -> option (V * str)) (c : column V) t,
    inconvertible (c_unit c) = true -> t <> c_unit c -> convert_col conv c (Some t) = inr ENotDefined.
Proof. exact special_refused. Qed.
Print Assumptions C06_special_refused.

(* when a conversion fails the caller gets an error, never a partly converted table *)
Theorem C06_failure_propagates :
  forall (V : Type) (conv : str -> option str -> V -> option (V * str)) cols ts i c t e,
    length ts = length cols -> nth_error cols i = Some c -> nth_error ts i = Some t ->
    convert_col conv c t = inr e -> exists e', convert_all conv cols ts = inr e'.
Proof. exact failure_propagates. Qed.
Print Assumptions C06_failure_propagates.

(* The call as the code performs it - a copy of the table becomes a new object and its columns are
   converted IN PLACE one after the other - on a store of table objects: no object that existed before
   the call is written to (the original included), and the caller receives a new object holding exactly
   what the specification convert_units computes, or, when that fails, the error and no object: the
   half-converted copy is never handed out.  For every store, dispatcher form and converter. *)
Theorem C06_in_place_loop_refines :
  forall (V : Type) (conv : str -> option str -> V -> option (V * str)) d (st : store V) self cols,
    nth_error st self = Some cols ->
    let '(st', r) := convert_units_store conv d st self in
    (forall k, k < length st -> nth_error st' k = nth_error st k) /\
    match convert_units conv d cols with
    | inl res => r = inl (length st) /\ nth_error st' (length st) = Some res
    | inr e => r = inr e
    end.
Proof. exact convert_units_store_refines. Qed.
Print Assumptions C06_in_place_loop_refines.

Theorem C06_original_untouched :
  forall (V : Type) (conv : str -> option str -> V -> option (V * str)) d (st : store V) self cols,
    nth_error st self = Some cols -> nth_error (fst (convert_units_store conv d st self)) self = Some cols.
Proof. exact original_untouched. Qed.
Print Assumptions C06_original_untouched.

(* The bulk form (normalized_table_generator, pdtable/utils.py): the stream keeps its shape - block
   for block the delivered block is what norm_block makes of the input block: a non-table block
   itself, a table without a dispatcher itself, a dispatched table its convert_units result - and
   when a conversion fails exactly the blocks before that table have been delivered. *)
Theorem C06_stream :
  forall (V : Type) (conv : str -> option str -> V -> option (V * str)) (td : tdispatch)
         (bs out : list (sblock V)) (err : option cerr),
    normalize conv td bs = (out, err) ->
    Forall2 (fun b b' => norm_block conv td b = inl b') (firstn (length out) bs) out /\
    match err with
    | None => length out = length bs
    | Some e => exists b, nth_error bs (length out) = Some b /\ norm_block conv td b = inr e
    end.
Proof. exact normalize_spec. Qed.
Print Assumptions C06_stream.

Theorem C06_stream_passes_others :
  forall (V : Type) (conv : str -> option str -> V -> option (V * str)) (td : tdispatch) t,
    norm_block conv td (SBOther t) = inl (SBOther t).
Proof. exact norm_block_other. Qed.
Print Assumptions C06_stream_passes_others.

Theorem C06_stream_undispatched :
  forall (V : Type) (conv : str -> option str -> V -> option (V * str)) (td : tdispatch) n cols,
    td n = None -> norm_block conv td (SBTable n cols) = inl (SBTable n cols).
Proof. exact norm_block_undispatched. Qed.
Print Assumptions C06_stream_undispatched.

(* non-vacuity: m -> mm through a dict, text column untouched *)
Example C06_example :
  let m : str := [109%N] in let mm : str := [109%N; 109%N] in let a : str := [97%N] in let b : str := [98%N] in
  convert_units (fun u t (v : list nat) => if str_eqb u m then Some (map (fun x => x * 1000) v, mm) else None)
                (DDict [(a, Some mm)])
                [ {| c_name := a; c_unit := m; c_vals := [1; 2] |}; {| c_name := b; c_unit := u_text; c_vals := [7; 8] |} ]
  = inl [ {| c_name := a; c_unit := mm; c_vals := [1000; 2000] |}; {| c_name := b; c_unit := u_text; c_vals := [7; 8] |} ].
Proof. vm_compute. reflexivity. Qed.

(* non-vacuity of the store theorem: two columns, the converter fails on the second: the caller gets
   the error, the original is intact, and the half-converted copy (first column already in mm) sits in
   the store unreferenced *)
Example C06_store_example :
  let m : str := [109%N] in let mm : str := [109%N; 109%N] in let s : str := [115%N] in
  let conv (u : str) (t : option str) (v : nat) : option (nat * str) :=
      if str_eqb u m then Some (v * 1000, mm) else None in
  let orig := [ {| c_name := [97%N]; c_unit := m; c_vals := 2 |}; {| c_name := [98%N]; c_unit := s; c_vals := 5 |} ] in
  convert_units_store conv (DList [Some mm; Some m]) [orig] 0
  = ([orig; [ {| c_name := [97%N]; c_unit := mm; c_vals := 2000 |}; {| c_name := [98%N]; c_unit := s; c_vals := 5 |} ]],
     inr EConverter).
Proof. vm_compute. reflexivity. Qed.
