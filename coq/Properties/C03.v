(* C03 - Rows are split into blocks by first-cell markers: in order, none lost.
   Only statements here; every proof is one [exact] of a lemma from Proofs/. *)
From PdV Require Import Segment SegmentProofs MarkerProofs Text TextLossless.

(* Block types, origin rows and the kinds of the rows in each block are a function of the
   sequence of first-cell kinds alone (for every row type and every classifier). *)
Theorem C03_kinds_only :
  forall (R R' : Type) (k : R -> kind) (k' : R' -> kind) (rs : list R) (rs' : list R'),
    map k rs = map k' rs' ->
    map (bmap k) (segment k rs) = map (bmap k') (segment k' rs').
Proof. exact kinds_only. Qed.
Print Assumptions C03_kinds_only.

(* The rows of all blocks, concatenated, are a subsequence of the input that contains, in order
   and exactly once, every row whose first cell is not blank. *)
Theorem C03_rows_preserved :
  forall (R : Type) (kind_of : R -> kind) (rs : list R),
    sublist (grids (segment kind_of rs)) rs /\
    filter (fun r => negb (is_blank_kind (kind_of r))) (grids (segment kind_of rs)) =
    filter (fun r => negb (is_blank_kind (kind_of r))) rs.
Proof. exact rows_preserved. Qed.
Print Assumptions C03_rows_preserved.

(* Every emitted block is non-empty; its origin row i exists in the input, the block type is the
   one the kind of row i dictates (the transition table of the automaton: table / directive /
   template markers open their block type, a blank first cell or a key row outside the leading
   metadata block opens a BLANK block, METADATA only starts at row 0), and row i is the block's
   first row - except for a BLANK block opened by a payload-free blank line, whose rows follow it. *)
Theorem C03_origin :
  forall (R : Type) (kind_of : R -> kind) (rs : list R) t i g,
    In (t, i, g) (segment kind_of rs) -> origin_ok kind_of rs t i g /\ g <> [].
Proof. exact origin_row. Qed.
Print Assumptions C03_origin.

(* Blocks come out in input order. *)
Theorem C03_ordered :
  forall (R : Type) (kind_of : R -> kind) (rs : list R) l1 b1 l2 b2,
    segment kind_of rs = l1 ++ b1 :: l2 -> In b2 l2 -> snd (fst b1) <= snd (fst b2).
Proof. exact origins_ordered. Qed.
Print Assumptions C03_ordered.

(* The blocks produced from any prefix of the rows, minus the last one, are a prefix of the
   blocks produced from all rows. *)
Theorem C03_prefix_stable :
  forall (R : Type) (kind_of : R -> kind) (rs1 rs2 : list R),
    prefix (removelast (segment kind_of rs1)) (segment kind_of (rs1 ++ rs2)).
Proof. exact prefix_stable. Qed.
Print Assumptions C03_prefix_stable.

(* The marker classifier, as list predicates. *)
Theorem C03_classify_table :
  forall s, classify s = MTable <->
    exists r, s = star :: star :: r /\ (match r with x :: _ => x <> star | [] => True end).
Proof. exact classify_table. Qed.
Print Assumptions C03_classify_table.

Theorem C03_classify_directive :
  forall s, classify s = MDirective <->
    exists r, s = star :: star :: star :: r /\ (match r with x :: _ => x <> star | [] => True end).
Proof. exact classify_directive. Qed.
Print Assumptions C03_classify_directive.

Theorem C03_template_spec :
  forall s, is_template s = true <->
    exists k r, (1 <= k <= 3)%nat /\ s = repeat colon k ++ r /\ ~ In colon r.
Proof. exact is_template_spec. Qed.
Print Assumptions C03_template_spec.

Theorem C03_key_spec :
  forall s, is_key s = true <->
    exists a r, a <> [] /\ ~ In colon a /\ s = a ++ colon :: r /\ forallb is_space r = true.
Proof. exact is_key_spec. Qed.
Print Assumptions C03_key_spec.

(* non-vacuity: a concrete sheet with every block type, cut as the statement says *)
Example C03_example :
  let n (l : list N) : str := l in
  map (fun b : block row => let '(t, i, g) := b in (t, i, length g))
      (segment_rows
         [ [CStr (n [97; 58]%N); CStr (n [120]%N)];            (* a:     -> METADATA  row 0 *)
           [];                                     (* blank                      *)
           [CStr (n [42; 42; 116]%N)];                   (* **t    -> TABLE     row 2 *)
           [CStr (n [120]%N)];
           [CStr (n [42; 42; 42; 100]%N)];               (* ***d   -> DIRECTIVE row 4 *)
           [CStr (n [58; 99]%N)];                        (* :c     -> TEMPLATE  row 5 *)
           [CStr (n []%N); CStr (n [99]%N)];                   (* blank first cell + payload -> BLANK row 6 *)
           [CStr (n [98; 58]%N)] ])                      (* b:     -> BLANK     row 7 *)
  = [(BMeta, 0, 1); (BTable, 2, 2); (BDir, 4, 1); (BTempl, 5, 1); (BBlank, 6, 1); (BBlank, 7, 1)]%nat.
Proof. vm_compute. reflexivity. Qed.

(* Below the rows: nothing is lost by the text layer either.  The cells of a line, re-joined with
   the separator, are the line; the lines of a text, each followed by a line feed, are the text
   (plus one line feed when the text did not end in one). *)
Theorem C03_cells_lossless : forall sep s, join [sep] (split_on sep s) = s.
Proof. exact join_split. Qed.
Print Assumptions C03_cells_lossless.

Theorem C03_lines_lossless :
  forall s, flat_map (fun l => l ++ [10%N]) (lines s) = s \/ flat_map (fun l => l ++ [10%N]) (lines s) = s ++ [10%N].
Proof. exact lines_lossless. Qed.
Print Assumptions C03_lines_lossless.
