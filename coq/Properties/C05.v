(* C05 - Pandas operations carry table metadata along and never alias it.
   Only statements here; every proof is one [exact] of a lemma from Proofs/.
   Metadata lives in a heap of identified mutable objects (ColumnMetadata, destination sets,
   column dicts, TableMetadata); a frame owns the objects reachable from its info record. *)
From PdV.Model Require Import Heap.
From PdV Require Import HeapProofs HeapTyped HeapMutate.

(* the metadata of a pandas result consists of NEW objects only, and building it leaves every
   existing object untouched *)
Theorem C05_result_fresh :
  forall h srcs out method strict h' r,
    wf_heap h -> combine h srcs out method strict = (h', Some (inl r)) ->
    wf_heap h' /\ (forall id, In id (owned h' r) -> nxt h <= id < nxt h') /\
    (forall id, id < nxt h -> get h' id = get h id).
Proof. exact combine_fresh. Qed.
Print Assumptions C05_result_fresh.

(* the same for Table(df, name=..., units=...) on an existing table frame *)
Theorem C05_rewrap_fresh :
  forall h i nn nu h' r,
    wf_heap h -> rewrap h i nn nu = (h', Some r) ->
    wf_heap h' /\ (forall id, In id (owned h' r) -> nxt h <= id < nxt h') /\
    (forall id, id < nxt h -> get h' id = get h id).
Proof. exact rewrap_fresh. Qed.
Print Assumptions C05_rewrap_fresh.

(* hence a separated population of frames stays separated when such a frame joins it *)
Theorem C05_separation :
  forall h fs h' r,
    separated h fs -> wf_heap h' -> nxt h <= nxt h' ->
    (forall id, In id (owned h' r) -> nxt h <= id < nxt h') ->
    (forall id, id < nxt h -> get h' id = get h id) ->
    separated h' (r :: fs).
Proof. exact separated_add. Qed.
Print Assumptions C05_separation.

(* and between separated frames nothing interferes: changing units, destinations, name or
   columns through one leaves every observation of the other unchanged *)
Theorem C05_noninterference :
  forall h a b m,
    (forall id, In id (owned h b) -> ~ In id (owned h a)) -> bounded h b ->
    observe (mutate h a m) b = observe h b /\ owned (mutate h a m) b = owned h b.
Proof. exact noninterference. Qed.
Print Assumptions C05_noninterference.

(* propagation: name and destinations of the first source; derived origin over all sources *)
Theorem C05_header :
  forall h srcs out method strict h' r first rest m0,
    wf_heap h -> srcs = first :: rest -> meta_of h first = Some m0 ->
    combine h srcs out method strict = (h', Some (inl r)) ->
    v_name (observe h' r) = Some (tm_name m0) /\
    v_dests (observe h' r) = dests_of h first /\
    v_origin (observe h' r) =
      Some (ODerived (s_pandas ++ method)
              (map (fun s => match meta_of h s with Some m => tm_origin m | None => OAbsent end) srcs)).
Proof. exact combine_header. Qed.
Print Assumptions C05_header.

Theorem C05_ancestors :
  forall op ps, ancestors (ODerived op ps) = flat_map ancestors ps.
Proof. exact derived_ancestors. Qed.
Print Assumptions C05_ancestors.

(* a single source: every surviving column keeps the unit it had (and nothing else appears) *)
Theorem C05_units_kept :
  forall out src h acc h' acc' e,
    wf_heap h -> NoDup (map fst src) ->
    (forall n, In n (map fst src) -> ~ In n (map fst acc)) ->
    (forall n id, In (n, id) acc -> id < nxt h) ->
    (forall n id, In (n, id) src -> id < nxt h /\ exists c, cm_of h id = Some c) ->
    merge_dict h out src acc = (h', acc', e) ->
    e = None /\ nxt h <= nxt h' /\ (forall id, id < nxt h -> get h' id = get h id) /\
    unit_view h' acc' = unit_view h acc ++ unit_view h (filter (fun nc => mem_str (fst nc) out) src).
Proof. exact merge_dict_single. Qed.
Print Assumptions C05_units_kept.

(* refusal: a shared column with different units; no metadata at all *)
Theorem C05_refuse_conflict :
  forall h out n cid rest acc aid a c,
    mem_str n out = true -> dict_get n acc = Some aid ->
    cm_of h aid = Some a -> cm_of h cid = Some c -> str_eqb (cm_unit a) (cm_unit c) = false ->
    merge_dict h out ((n, cid) :: rest) acc = (h, acc, Some ECombine).
Proof. exact merge_conflict. Qed.
Print Assumptions C05_refuse_conflict.

Theorem C05_no_source :
  forall h out method strict, combine h [] out method strict = (h, None).
Proof. exact combine_no_source. Qed.
Print Assumptions C05_no_source.

(* The metadata of a pandas result is well-formed whatever the sources looked like: its TableMetadata
   object exists and points at an existing destination set, its columns dict exists and every entry
   points at a ColumnMetadata object - so none of the defaults of the model's readers (dests_of, dict_of,
   cm_of) is taken when the result is observed or used as a source in turn. *)
Theorem C05_result_typed :
  forall h srcs out method strict h' r,
    wf_heap h -> combine h srcs out method strict = (h', Some (inl r)) -> typed h' r.
Proof. exact combine_typed. Qed.
Print Assumptions C05_result_typed.

(* the same for a re-wrapped table *)
Theorem C05_rewrap_typed :
  forall h i nn nu h' r,
    wf_heap h -> rewrap h i nn nu = (h', Some r) -> typed h' r.
Proof. exact rewrap_typed. Qed.
Print Assumptions C05_rewrap_typed.

(* and every mutation through a frame (unit, destination, name, column removed / added) leaves that
   frame's metadata well-formed *)
Theorem C05_mutate_typed :
  forall h a m, wf_heap h -> typed h a -> typed (mutate h a m) a.
Proof. exact mutate_typed. Qed.
Print Assumptions C05_mutate_typed.

(* ... and on a well-formed source the destinations the result starts from (C05_header) are the
   contents of the source's own set object *)
Theorem C05_source_destinations :
  forall h i, typed h i ->
    exists m l, meta_of h i = Some m /\ get h (tm_dests m) = Some (OSet l) /\ dests_of h i = l.
Proof. exact dests_of_typed. Qed.
Print Assumptions C05_source_destinations.
