(* C02 - Cells are typed by their column's unit exactly as the StarTable rules say.
   Only statements here; every proof is one [exact] of a lemma from Proofs/.
   parse_float / parse_dt stand for python's float() and pandas' to_datetime (hypotheses H_float,
   H_datetime: any functions - the theorems hold for all of them). *)
From PdV Require Import ParseTable Reader ParseProofs ReaderProofs.

(* header: name, orientation, destinations *)
Theorem C02_header :
  forall parse_float parse_dt cfg rows fx p,
    parse_table parse_float parse_dt cfg rows fx = Ok p ->
    exists c00 x d0 y rest,
      rows = (CStr c00 :: x) :: (d0 :: y) :: rest /\
      (p_name p, p_transposed p) = drop_last_star (skipn 2 c00) /\
      p_dests p = destinations d0.
Proof. exact parse_table_header. Qed.
Print Assumptions C02_header.

(* one unit and one value list per column name *)
Theorem C02_shape :
  forall parse_float parse_dt cfg cells fx p,
    parse_table parse_float parse_dt cfg cells fx = Ok p ->
    length (p_units p) = length (p_names p) /\ length (p_cols p) = length (p_names p).
Proof. exact table_shape_full. Qed.
Print Assumptions C02_shape.

(* each column's values are determined by that column's unit and its own raw cells only *)
Theorem C02_column_local :
  forall parse_float parse_dt cfg units cols fx vss fx',
    parse_columns parse_float parse_dt cfg units cols fx = Ok (vss, fx') ->
    length vss = Nat.min (length units) (length cols) /\
    forall j vs, nth_error vss j = Some vs ->
      exists u c, nth_error units j = Some u /\ nth_error cols j = Some c /\
                  col_values cfg (cell_parser parse_float parse_dt u) c = Some vs.
Proof. exact parse_columns_spec. Qed.
Print Assumptions C02_column_local.

(* every value is the cell's own parse, or - for an illegal cell - the fixer's replacement *)
Theorem C02_cell_values :
  forall cfg p cs vs,
    col_values cfg p cs = Some vs ->
    Forall2 (fun c v => match p c with
                        | CVal v' => v = v'
                        | CFix vt _ => v = fix_value cfg vt
                        | _ => False
                        end) cs vs.
Proof. exact col_values_cells. Qed.
Print Assumptions C02_cell_values.

Theorem C02_text : forall s, text_cell (CStr s) = CVal (VText s).
Proof. exact text_cell_str. Qed.
Print Assumptions C02_text.

Theorem C02_onoff_str :
  forall s b,
    onoff_cell (CStr s) = CVal (VBool b) <->
    (b = false /\ (normalize s = s_0 \/ normalize s = s_false)) \/
    (b = true /\ (normalize s = s_1 \/ normalize s = s_true)).
Proof. exact onoff_cell_str. Qed.
Print Assumptions C02_onoff_str.

Theorem C02_onoff_nothing_else :
  forall c, (exists b, onoff_cell c = CVal (VBool b)) \/ onoff_cell c = CFix TOnoff c.
Proof. exact onoff_cell_cases. Qed.
Print Assumptions C02_onoff_nothing_else.

Theorem C02_numeric_missing_iff :
  forall parse_float c,
    float_cell parse_float c = CVal (VNum nan_tok) <->
    c = CNone \/
    (exists s, c = CStr s /\ (is_marker (normalize s) = true \/ parse_float (normalize s) = Some nan_tok)) \/
    (exists r, c = CFloat nan_tok r) \/ (exists z r, c = CInt z nan_tok r).
Proof. exact float_cell_missing_iff. Qed.
Print Assumptions C02_numeric_missing_iff.

Theorem C02_numeric_str :
  forall parse_float s,
    float_cell parse_float (CStr s) =
    if is_marker (normalize s) then CVal (VNum nan_tok)
    else match parse_float (normalize s) with
         | Some f => CVal (VNum f)
         | None => CFix TFloat (CStr (normalize s))
         end.
Proof. exact float_cell_str. Qed.
Print Assumptions C02_numeric_str.

Theorem C02_numeric_nothing_else :
  forall parse_float c,
    (exists f, float_cell parse_float c = CVal (VNum f)) \/
    (exists shown, float_cell parse_float c = CFix TFloat shown).
Proof. exact float_cell_cases. Qed.
Print Assumptions C02_numeric_nothing_else.

Theorem C02_datetime_marker :
  forall parse_dt s,
    is_marker (lower (strip s)) = true -> datetime_cell parse_dt (CStr s) = CVal VNaT.
Proof. exact datetime_cell_marker. Qed.
Print Assumptions C02_datetime_marker.

Theorem C02_datetime_nothing_else :
  forall parse_dt c,
    (exists d, datetime_cell parse_dt c = CVal (VDate d)) \/ datetime_cell parse_dt c = CVal VNaT \/
    (exists shown, datetime_cell parse_dt c = CFix TDatetime shown) \/ datetime_cell parse_dt c = CAbort \/
    datetime_cell parse_dt c = CCrash.
Proof. exact datetime_cell_cases. Qed.
Print Assumptions C02_datetime_nothing_else.

(* non-vacuity: a 2x2 grid (numeric with a marker, onoff) parses as the rules say *)
Example C02_example :
  let n (l : list N) : str := l in
  let pf (s : str) := if str_eqb s (n [49%N]) then Some one_tok else None in
  match parse_table pf (fun _ => DBad) {| stop_on_errors := true; strict_types := true; fix_value := stock_fix |}
          [ [CStr (n [42; 42; 116]%N)]; [CStr (n [97]%N)];
            [CStr (n [120]%N); CStr (n [121]%N)]; [CStr (n [109]%N); CStr s_onoff];
            [CStr (n [32; 49]%N); CStr (n [84; 82; 85; 69]%N)];
            [CStr (n [78; 97; 78]%N); CStr (n [48]%N)] ]
          fx_init with
  | Ok p => p_cols p = [[VNum one_tok; VNum nan_tok]; [VBool true; VBool false]]
            /\ p_name p = n [116%N] /\ p_transposed p = false
  | _ => False
  end.
Proof. vm_compute. repeat split; reflexivity. Qed.
