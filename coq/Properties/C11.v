(* C11 - A read filter selects blocks exactly; rejected blocks are never parsed.
   Only statements here; every proof is one [exact] of a lemma from Proofs/. *)
From PdV Require Import Reader ReaderProofs.

(* Reading with a filter is reading the accepted blocks only - for every input, predicate, output
   form and tracker.  The content of a rejected block does not occur on the right-hand side at all:
   it is never interpreted, so malformed content there raises nothing and changes nothing. *)
Theorem C11_filter_exact :
  forall parse_float parse_dt cfg fm raising f bs hist,
    deliver parse_float parse_dt cfg fm (Some f) raising bs hist =
    deliver parse_float parse_dt cfg fm None raising
      (filter (fun b : block row => let '(t, i, rows) := b in accepted (Some f) t rows) bs) hist.
Proof. exact deliver_filter. Qed.
Print Assumptions C11_filter_exact.

(* the name offered for a table block is the name the parsed table reports *)
Theorem C11_offered_name :
  forall parse_float parse_dt cfg rows fx p,
    parse_table parse_float parse_dt cfg rows fx = Ok p -> p_name p = offered_name rows.
Proof. exact offered_name_parsed. Qed.
Print Assumptions C11_offered_name.

(* a rejected block is not handed to its handler *)
Theorem C11_rejected_untouched :
  forall parse_float parse_dt cfg fm filter t rows fx,
    accepted filter t rows = false ->
    handle parse_float parse_dt cfg fm filter t rows fx = Ok (None, fx).
Proof. exact handle_rejected. Qed.
Print Assumptions C11_rejected_untouched.

(* non-vacuity: a transposed table "a" is offered as "a"; rejecting it hides its malformed body *)
Example C11_example :
  let rows := [[CStr [42; 42; 97; 42]%N]; [CStr [100]%N]; [CStr [99]%N]; [];
               [CStr [42; 42; 98]%N]; [CStr [100]%N]] in
  offered_name [[CStr [42; 42; 97; 42]%N]] = [97]%N /\
  snd (read (fun _ => None) (fun _ => DBad) {| stop_on_errors := true; strict_types := true; fix_value := stock_fix |}
            FPd (Some (fun t n => negb (str_eqb n [97]%N))) true rows) = FDone /\
  snd (read (fun _ => None) (fun _ => DBad) {| stop_on_errors := true; strict_types := true; fix_value := stock_fix |}
            FPd None true rows) = FInputError 0.
Proof. vm_compute. repeat split; reflexivity. Qed.
