(* C07 - The three output forms of a reader describe the same blocks.
   Only statements here; every proof is one [exact] of a lemma from Proofs/. *)
From PdV Require Import Reader Json ReaderProofs.

(* 'jsondata' = 'pdtable' with every table replaced by the JSON rendering of the SAME parse
   (CtJson p stands for to_json_serializable of the precursor p, rendered by json_of_ptable);
   block types, origins, errors and all other blocks are identical - for every input. *)
Theorem C07_json_same_blocks :
  forall parse_float parse_dt cfg filter raising bs hist,
    deliver parse_float parse_dt cfg FJson filter raising bs hist =
    (map to_json_ev (fst (deliver parse_float parse_dt cfg FPd filter raising bs hist)),
     snd (deliver parse_float parse_dt cfg FPd filter raising bs hist)).
Proof. exact deliver_json. Qed.
Print Assumptions C07_json_same_blocks.

(* 'cellgrid' never fails and each table is exactly the raw rows of its block *)
Theorem C07_grid_raw_rows :
  forall parse_float parse_dt cfg filter raising bs hist,
    deliver parse_float parse_dt cfg FGrid filter raising bs hist = (flat_map (grid_event filter) bs, FDone).
Proof. exact deliver_grid. Qed.
Print Assumptions C07_grid_raw_rows.

(* whenever the 'pdtable' read succeeds, 'cellgrid' has the same sequence of block types/origins *)
Theorem C07_grid_same_types :
  forall parse_float parse_dt cfg filter raising bs hist evs,
    deliver parse_float parse_dt cfg FPd filter raising bs hist = (evs, FDone) ->
    Forall (fun e => ev_shape e <> None) evs ->
    map ev_shape (flat_map (grid_event filter) bs) = map ev_shape evs.
Proof. exact deliver_grid_shape. Qed.
Print Assumptions C07_grid_same_types.
