(* C07 - The three output forms of a reader describe the same blocks.
   Only statements here; every proof is one [exact] of a lemma from Proofs/. *)
From PdV Require Import Reader Json ReaderProofs FormsAgree.

(* 'jsondata' = 'pdtable' with every table replaced by the JSON rendering of the SAME parse
   (CtJson p stands for to_json_serializable of the precursor p, rendered by json_of_ptable);
   block types, origins, errors and all other blocks are identical - for every input. *)
Theorem C07_json_same_blocks :
  forall parse_float parse_dt cfg filter raising bs hist,
    deliver parse_float parse_dt cfg FJson filter raising bs hist =
    (map to_json_ev (fst (deliver parse_float parse_dt cfg FPd filter raising bs hist)),
     snd (deliver parse_float parse_dt cfg FPd filter raising bs hist)).
Proof. exact deliver_json. Qed.
Print Assumptions C07_json_same_blocks.

(* 'cellgrid' never fails and each table is exactly the raw rows of its block *)
Theorem C07_grid_raw_rows :
  forall parse_float parse_dt cfg filter raising bs hist,
    deliver parse_float parse_dt cfg FGrid filter raising bs hist = (flat_map (grid_event filter) bs, FDone).
Proof. exact deliver_grid. Qed.
Print Assumptions C07_grid_raw_rows.

(* whenever the 'pdtable' read succeeds, 'cellgrid' has the same sequence of block types/origins *)
Theorem C07_grid_same_types :
  forall parse_float parse_dt cfg filter raising bs hist evs,
    deliver parse_float parse_dt cfg FPd filter raising bs hist = (evs, FDone) ->
    Forall (fun e => ev_shape e <> None) evs ->
    map ev_shape (flat_map (grid_event filter) bs) = map ev_shape evs.
Proof. exact deliver_grid_shape. Qed.
Print Assumptions C07_grid_same_types.

(* each 'jsondata' table equals table_to_json_data of the corresponding 'pdtable' table: for every
   table block p that the 'pdtable' form delivers (the 'jsondata' form delivers CtJson p at the same
   position, C07_json_same_blocks), converting the frame built from p - its values seen through
   list(df[col]), Json.frame_cols - with table_to_json_data gives exactly the JsonData rendered
   from the precursor.  What is PROVED is that the two leaf conversions (to_json_serializable on the
   precursor's values; on the scalars of the frame) agree value by value, for every input, filter and
   fixer whose replacement for a cell is a value of the column's own kind (C07_stock_fixer: the stock
   one is).  That the frame hands back exactly those scalars (Json.scalar_of_value: pandas stores the
   parsed values and list(df[col]) returns them) is hypothesis H_frame_identity, carried by the
   correspondence (Corr/C07.v: table_to_json_data of every real delivered table) and by the oracle. *)
Theorem C07_json_is_table_to_json :
  forall render_dt float_repr parse_float parse_dt cfg filter raising bs hist evs fin t i p,
    (forall vt, kind_ok vt (fix_value cfg vt)) ->
    deliver parse_float parse_dt cfg FPd filter raising bs hist = (evs, fin) ->
    In (EBlock t i (CtTable p)) evs ->
    table_to_json (p_name p) (p_dests p) (frame_cols render_dt float_repr p) = Some (json_of_ptable render_dt p).
Proof. exact forms_agree. Qed.
Print Assumptions C07_json_is_table_to_json.

Theorem C07_stock_fixer : forall vt, kind_ok vt (stock_fix vt).
Proof. exact stock_fix_kind. Qed.
Print Assumptions C07_stock_fixer.
