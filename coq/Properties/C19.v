(* C19 - Readers and writers close what they opened, and only that, on every exit path.
   Only statements here; every proof is one [exact] of a lemma from Proofs/.
   Level: proof for the protocol model; the runtime half - that CPython finalises a dropped generator
   at once and that closing(workbook) releases openpyxl's archive handle - is observed through
   /proc/self/fd by the check and named as hypothesis H_gen_finalise. *)
From PdV.Model Require Import Lifecycle.
From PdV Require Import LifeProofs.

Theorem C19_reader_balanced :
  forall r es,
    let '(s, l) := grun r Fresh l0 es in
    caller_closed l = 0 /\ closed l <= opened l /\
    match s with
    | Fresh => opened l = 0
    | Suspended _ => held l = (if r_owns r then 1 else 0)
    | Finished => held l = 0
    end.
Proof. exact reader_balanced. Qed.
Print Assumptions C19_reader_balanced.

Theorem C19_terminal_finishes :
  forall r s l e, (e = GClose \/ e = GDrop) -> fst (fst (gstep r s l e)) = Finished.
Proof. exact terminal_finishes. Qed.
Print Assumptions C19_terminal_finishes.

Theorem C19_write_csv :
  forall owns n f,
    let '(l, _) := write_csv_ledger owns n f in
    held l = 0 /\ caller_closed l = 0 /\ opened l = (if owns then 1 else 0).
Proof. exact write_csv_balanced. Qed.
Print Assumptions C19_write_csv.

Theorem C19_write_excel :
  forall owns n f,
    let '(l, raised) := write_excel_ledger owns n f in
    held l = 0 /\ caller_closed l = 0 /\ (raised = true -> opened l = 0).
Proof. exact write_excel_balanced. Qed.
Print Assumptions C19_write_excel.

(* non-vacuity: three blocks, a fault in the third: two deliveries, then the error closes the file *)
Example C19_example :
  grun {| r_blocks := 3; r_fault := Some 2; r_owns := true |} Fresh l0 [GNext; GNext; GNext]
  = (Finished, {| opened := 1; closed := 1; caller_closed := 0 |}).
Proof. vm_compute. reflexivity. Qed.

(* load_files over several locations (one reader at a time, default raising tracker): for every list
   of locations in reading order - each with its own number of blocks and fault position - and every
   trace of next / close / drop on the loader: never more closes than opens, at most the one file of
   the reader the loader is suspended in is held, and once the loader has finished - exhausted, closed,
   dropped or ended by an error in any block of any file - nothing is held (held = opened - closed,
   with closed <= opened stated beside it) *)
Theorem C19_loader_balanced :
  forall rs es,
    let '(rs', s, l) := lrun rs Fresh l0 es in
    caller_closed l = 0 /\ closed l <= opened l /\ held l <= 1 /\
    match rs', s with
    | r :: _, Suspended _ => held l = (if r_owns r then 1 else 0)
    | _, _ => held l = 0
    end.
Proof. exact loader_balanced. Qed.
Print Assumptions C19_loader_balanced.

Theorem C19_loader_terminal :
  forall rs s l e, (e = GClose \/ e = GDrop) -> fst (fst (fst (lstep rs s l e))) = [].
Proof. exact loader_terminal. Qed.
Print Assumptions C19_loader_terminal.

(* non-vacuity: three files of two blocks, the second file faulty in its second block: three
   deliveries, then the error ends the load with nothing held; the third file is never opened *)
Example C19_loader_example :
  let r := {| r_blocks := 2; r_fault := None; r_owns := true |} in
  let rf := {| r_blocks := 2; r_fault := Some 1; r_owns := true |} in
  let '(rs', s, l) := lrun [r; rf; r] Fresh l0 [GNext; GNext; GNext; GNext] in
  rs' = [] /\ s = Finished /\ opened l = 2 /\ closed l = 2.
Proof. vm_compute. repeat split; reflexivity. Qed.
