(* C10 - Orientation, trailing delimiters and header whitespace never change the table.
   Only statements here; every proof is one [exact] of a lemma from Proofs/.
   A table is given by its cells  cellat j i  (column j < n, row i < m), the header texts ws / us
   (names and units, possibly with blanks around them) and the destinations cell d0.  All the
   remaining arguments of the two grid functions are noise: cells after the table name (x0), after
   the destinations (x1), after a blank cell on the name row (tail2: empty trailing cells or
   comments), after the units (tail3), after each data row (tails i), after each transposed line
   (ttails j, blank cells).  The parsed table does not mention any of them. *)
From Coq Require Import List Arith.
From PdV Require Import ParseTable LayoutProofs BlockEndProofs Text TextLossless.
From PdV.Model Require Import Segment.
Import ListNotations.

(* Row-wise text, any noise: the table is  expected ... false. *)
Theorem C10_rowwise :
  forall (parse_float : str -> option ftok) (parse_dt : str -> dres) (cfg : fixer_cfg)
         (cellat : nat -> nat -> cell) (n m : nat) (c00 name : str) (x0 : list cell) (d0 : cell)
         (x1 : list cell) (ws us : list str) (tail2 tail3 : list cell) (tails : nat -> list cell)
         (fx : fixer_st),
    length ws = n -> length us = n ->
    Forall (fun w => is_blank w = false) ws ->
    (tail2 = [] \/ exists c t, tail2 = c :: t /\ cell_blank c = true) ->
    NoDup (names ws) -> Forall (fun c => c <> []) (names ws) ->
    fx_fixes fx = 0 ->
    (forall j i, j < n -> i < m ->
       exists v, cell_parser parse_float parse_dt (nth j (units us) []) (cellat j i) = CVal v) ->
    drop_last_star (skipn 2 c00) = (name, false) ->
    parse_table parse_float parse_dt cfg (rowwise_grid cellat n m c00 x0 d0 x1 ws us tail2 tail3 tails) fx
    = Ok (expected parse_float parse_dt cellat n m name d0 ws us fx false).
Proof. exact rowwise_spec. Qed.
Print Assumptions C10_rowwise.

(* The same table laid out transposed with other noise and other blanks around the header cells:
   the same table apart from the flag.  (No data row may be entirely blank: such a row ends the
   table in the transposed layout - DESIGN.md, well-formed tables.) *)
Theorem C10_layouts_agree :
  forall (parse_float : str -> option ftok) (parse_dt : str -> dres) (cfg : fixer_cfg)
         (cellat : nat -> nat -> cell) (n m : nat) (name : str) (d0 : cell) (fx : fixer_st)
         (c00 : str) (x0 x1 : list cell) (ws us : list str) (tail2 tail3 : list cell) (tails : nat -> list cell)
         (c00' : str) (x0' x1' : list cell) (ws' us' : list str) (ttails : nat -> list cell),
    length ws = n -> length us = n -> length ws' = n -> length us' = n ->
    Forall (fun w => is_blank w = false) ws -> Forall (fun w => is_blank w = false) ws' ->
    map strip ws' = map strip ws -> map strip us' = map strip us ->
    (tail2 = [] \/ exists c t, tail2 = c :: t /\ cell_blank c = true) ->
    NoDup (map strip ws) -> Forall (fun c => c <> []) (map strip ws) ->
    fx_fixes fx = 0 ->
    (forall j i, j < n -> i < m ->
       exists v, cell_parser parse_float parse_dt (nth j (map strip us) []) (cellat j i) = CVal v) ->
    drop_last_star (skipn 2 c00) = (name, false) ->
    drop_last_star (skipn 2 c00') = (name, true) ->
    0 < n ->
    (forall j, Forall (fun c => cell_blank c = true) (ttails j)) ->
    (forall i, i < m -> exists j, j < n /\ cell_blank (cellat j i) = false) ->
    exists p,
      parse_table parse_float parse_dt cfg (rowwise_grid cellat n m c00 x0 d0 x1 ws us tail2 tail3 tails) fx = Ok p /\
      parse_table parse_float parse_dt cfg (transposed_grid cellat n m c00' x0' d0 x1' ws' us' ttails) fx
        = Ok (with_flag p true) /\
      p_name p = name /\ p_transposed p = false /\ p_dests p = destinations d0 /\
      p_names p = map strip ws /\ p_units p = map strip us /\
      p_cols p = map (fun j => map (val_of (cell_parser parse_float parse_dt (nth j (map strip us) [])))
                                   (map (fun i => cellat j i) (seq 0 m))) (seq 0 n) /\
      p_fx p = fx.
Proof. exact layouts_agree. Qed.
Print Assumptions C10_layouts_agree.

(* How the block ends: the rows from a table marker row up to the next row that is not a plain row
   are one TABLE block, with the marker row as origin - at end of input, before a blank line, and
   directly before the start of another block alike. *)
Theorem C10_block_end :
  forall (R : Type) (kind_of : R -> kind) (pre : list R) (r : R) (body tail : list R),
    kind_of r = KTable -> Forall (is_plain R kind_of) body ->
    (tail = [] \/ exists t rest, tail = t :: rest /\ kind_of t <> KPlain) ->
    In (BTable, length pre, r :: body) (segment kind_of (pre ++ r :: body ++ tail)).
Proof. exact table_block_end. Qed.
Print Assumptions C10_block_end.

(* ... and at the level of the text: the line feed at the very end of the input is optional.  A non-empty
   text that does not end in a line feed is read as the same lines (hence the same cell rows and the same
   blocks) as the text with one appended; no character of the last line is lost. *)
Theorem C10_final_line_feed_optional :
  forall s : Text.str, s <> [] -> last s 0%N <> 10%N -> Text.lines (s ++ [10%N]) = Text.lines s.
Proof. exact TextLossless.lines_final_lf. Qed.
Print Assumptions C10_final_line_feed_optional.

Example C10_final_line_feed_example :
  Text.lines [42; 42; 116; 59; 10; 55; 56]%N = [[42; 42; 116; 59]; [55; 56]]%N /\
  Text.lines [42; 42; 116; 59; 10; 55; 56; 10]%N = [[42; 42; 116; 59]; [55; 56]]%N.
Proof. vm_compute. split; reflexivity. Qed.
