(* C15 - Special units always match the data: text is strings, onoff is booleans.
   Only statements here; every proof is one [exact] of a lemma from Proofs/. *)
From PdV.Model Require Import Frame.
From PdV Require Import FrameProofs.

(* what "compatible" means *)
Theorem C15_compatible_spec :
  forall m d,
    compatible m d <->
    match fst d with
    | KBool => cm_unit m = u_onoff
    | KText => cm_unit m = u_text
    | KNumeric => is_special (cm_unit m) = false
    | KOther => False
    end.
Proof. exact compatible_spec. Qed.
Print Assumptions C15_compatible_spec.

(* After ANY history of type-changing steps (arbitrary dtype changes of arbitrary columns, facade
   overwrites with or without unit, physical-unit relabelling, interleaved consultations), a
   consultation of a strict frame with at least one row either refuses or finds every column with a
   unit compatible with its dtype - including when validation was skipped because the dtypes equal
   the remembered snapshot.  The step alphabet's unit setter (SRelabel) relabels between physical
   units only: setting or removing 'text' / 'onoff' through the setter is a pure metadata edit that
   the statement of C15 puts outside the guarantee (the setter as the code has it is relabel_any in
   Model/Frame.v, used by the correspondence check, not by this theorem). *)
Theorem C15_invariant :
  forall f0 ss f',
    J f0 -> f_strict f0 = true ->
    f_empty (run f0 ss) = false ->
    consult (run f0 ss) = (f', None) ->
    Inv15 f' /\ Inv04 f'.
Proof. exact history_invariant. Qed.
Print Assumptions C15_invariant.

(* the relation between register and snapshot survives every step *)
Theorem C15_step :
  forall f s, f_strict f = true -> J f -> J (fst (do_step f s)) /\ f_strict (fst (do_step f s)) = true.
Proof. exact step_J. Qed.
Print Assumptions C15_step.

(* columns created without an explicit unit get text / onoff / - according to their dtype *)
Theorem C15_default_units :
  forall cols r r' n d,
    NoDup (map fst cols) -> update_loop cols false r = (r', None) ->
    In (n, d) cols -> reg_get n r = None ->
    exists u, unit_from_kind (fst d) = Some u /\
              reg_get n r' = Some {| cm_unit := u; cm_display_unit := None; cm_format := None |}.
Proof. exact default_units. Qed.
Print Assumptions C15_default_units.

(* non-vacuity, and the repaired stale-snapshot history: a float column overwritten through the
   facade with unit "text" is refused at the next consultation *)
Example C15_example :
  let a : str := [97%N] in let m : str := [109%N] in
  match make_frame [(a, (KNumeric, 1%N))] false true (Some [m]) with
  | (f0, None) =>
      snd (consult (run f0 [SAddColumn a (KNumeric, 1%N) (Some u_text) false])) = Some EColumnUnit
  | _ => False
  end.
Proof. vm_compute. repeat split; reflexivity. Qed.

(* the exchanged-types history: columns a (numeric) and b (text) are consulted, then exchange their
   dtypes by two plain assignments (labels and the multiset of dtypes are as remembered, the positions
   are not), and the next consultation refuses - the snapshot is compared position by position *)
Example C15_swap_example :
  let a : str := [97%N] in let b : str := [98%N] in
  match make_frame [(a, (KNumeric, 1%N)); (b, (KText, 0%N))] false true None with
  | (f0, None) =>
      snd (consult (run f0 [SConsult;
                            SData [(a, (KText, 0%N)); (b, (KText, 0%N))] false;
                            SData [(a, (KText, 0%N)); (b, (KNumeric, 1%N))] false])) = Some EColumnUnit
      /\ snd (consult (run f0 [SConsult])) = None
  | _ => False
  end.
Proof. vm_compute. repeat split; reflexivity. Qed.
