(* C20 - A TableBundle holds exactly the table blocks, in order, findable by name.
   Only statements here; every proof is one [exact] of a lemma from Proofs/.
   T is any table representation, name_of its name extraction (None = no name extractable). *)
From PdV Require Import Bundle BundleProofs.

Theorem C20_contents :
  forall (T : Type) (name_of : T -> option str) (bs : list (blk T)) (b : bundle T),
    build name_of bs = Some b -> iter b = tables bs.
Proof. exact contents. Qed.
Print Assumptions C20_contents.

Theorem C20_build_fails_iff :
  forall (T : Type) (name_of : T -> option str) (bs : list (blk T)),
    build name_of bs = None <-> exists t, In t (tables bs) /\ name_of t = None.
Proof. exact build_none. Qed.
Print Assumptions C20_build_fails_iff.

Theorem C20_len :
  forall (T : Type) (name_of : T -> option str) (bs : list (blk T)) (b : bundle T),
    build name_of bs = Some b -> len b = length (tables bs).
Proof. exact len_spec. Qed.
Print Assumptions C20_len.

Theorem C20_index :
  forall (T : Type) (name_of : T -> option str) (bs : list (blk T)) (b : bundle T) (i : Z),
    build name_of bs = Some b ->
    let n := Z.of_nat (length (tables bs)) in
    getitem_int b i =
      if ((0 <=? i) && (i <? n))%Z then nth_error (tables bs) (Z.to_nat i)
      else if ((i <? 0) && (- n <=? i))%Z then nth_error (tables bs) (Z.to_nat (n + i))
      else None.
Proof. exact getitem_spec. Qed.
Print Assumptions C20_index.

(* lookup by name: the single table of that name; not-unique when several; missing when none *)
Theorem C20_lookup :
  forall (T : Type) (name_of : T -> option str) (bs : list (blk T)) (b : bundle T) (n : str),
    build name_of bs = Some b ->
    unique b n = match filter (has_name name_of n) (tables bs) with
                 | [] => Missing
                 | [t] => Found t
                 | _ => NotUnique
                 end.
Proof. exact unique_spec. Qed.
Print Assumptions C20_lookup.

Theorem C20_all :
  forall (T : Type) (name_of : T -> option str) (bs : list (blk T)) (b : bundle T) (n : str),
    build name_of bs = Some b -> all b n = filter (has_name name_of n) (tables bs).
Proof. exact all_spec. Qed.
Print Assumptions C20_all.

Theorem C20_in :
  forall (T : Type) (name_of : T -> option str) (bs : list (blk T)) (b : bundle T) (n : str),
    build name_of bs = Some b ->
    (contains b n = true <-> exists t, In t (tables bs) /\ has_name name_of n t = true).
Proof. exact contains_spec. Qed.
Print Assumptions C20_in.

(* completeness and soundness of lookup by name: every table held is returned under its own name,
   and nothing is returned under a name that is not its own *)
Theorem C20_findable :
  forall (T : Type) (name_of : T -> option str) (bs : list (blk T)) (b : bundle T) (t : T),
    build name_of bs = Some b -> In t (tables bs) ->
    exists n, name_of t = Some n /\ In t (all b n) /\ contains b n = true.
Proof. exact findable. Qed.
Print Assumptions C20_findable.

Theorem C20_all_sound :
  forall (T : Type) (name_of : T -> option str) (bs : list (blk T)) (b : bundle T) (n : str) (t : T),
    build name_of bs = Some b -> In t (all b n) -> In t (tables bs) /\ name_of t = Some n.
Proof. exact all_sound. Qed.
Print Assumptions C20_all_sound.

(* non-vacuity: three table blocks, two of them named "a", one other block in between *)
Example C20_example :
  let a : str := [97%N] in let b : str := [98%N] in
  let bs := [(true, (1, a)); (false, (9, b)); (true, (2, b)); (true, (3, a))] in
  match build (fun t : nat * str => Some (snd t)) bs with
  | Some bd => iter bd = [(1, a); (2, b); (3, a)] /\ unique bd a = NotUnique /\ unique bd b = Found (2, b)
               /\ len bd = 3 /\ getitem_int bd (-1) = Some (3, a)
  | None => False
  end.
Proof. vm_compute. repeat split; reflexivity. Qed.
