(* C08 - JsonData is plain JSON and converts back to the same table.
   Only statements here; every proof is one [exact] of a lemma from Proofs/.
   jleaf has exactly the JSON leaf kinds (null, bool, int, float, str); [pure_leaf] excludes NaN. *)
From Coq Require Import List Arith.
From PdV Require Import Json JsonProofs ParseTable RoundTrip JsonRoundTrip DestsRoundTrip RoundTripCorollaries.
Import ListNotations.

(* table_to_json_data: name, destinations, columns in table order each with its own unit, all
   leaves JSON values, none NaN (missing numbers and missing timestamps travel as null) *)
Theorem C08_table_to_json_pure :
  forall name dests cols j,
    table_to_json name dests cols = Some j ->
    j_name j = name /\ j_dests j = dests /\
    map (fun c => fst (fst c)) (j_cols j) = map (fun c => fst (fst c)) cols /\
    map (fun c => snd (fst c)) (j_cols j) = map (fun c => snd (fst c)) cols /\
    Forall (fun c => Forall pure_leaf (snd c)) (j_cols j).
Proof. exact table_to_json_spec. Qed.
Print Assumptions C08_table_to_json_pure.

(* the JsonData the readers produce directly: same guarantees, for every parsed table *)
Theorem C08_reader_json_pure :
  forall render_dt p,
    length (p_units p) = length (p_names p) -> length (p_cols p) = length (p_names p) ->
    j_name (json_of_ptable render_dt p) = p_name p /\
    j_dests (json_of_ptable render_dt p) = p_dests p /\
    map (fun c => fst (fst c)) (j_cols (json_of_ptable render_dt p)) = p_names p /\
    map (fun c => snd (fst c)) (j_cols (json_of_ptable render_dt p)) = p_units p /\
    Forall (fun c => Forall pure_leaf (snd c)) (j_cols (json_of_ptable render_dt p)).
Proof. exact json_of_ptable_spec. Qed.
Print Assumptions C08_reader_json_pure.

Theorem C08_null_iff_missing :
  forall render_dt v,
    leaf_of_value render_dt v = JNull <-> v = VNum nan_tok \/ v = VNaT \/ exists k, v = VCustom k.
Proof. exact leaf_null_iff. Qed.
Print Assumptions C08_null_iff_missing.

(* One python scalar of a column, sent through to_json_serializable and back through the cell
   json.loads yields, parses under the column's unit to the value it stood for: text and onoff
   verbatim, numbers by value (NaN travels as null and stays missing, integers through their float),
   timestamps through str() / to_datetime (dt_ok: H_dt_roundtrip).  A missing timestamp is not
   admissible (wf_scalar): it travels as null, which is no legal datetime cell - the exception the
   statement makes. *)
Theorem C08_scalar_roundtrip :
  forall (parse_float : str -> option ftok) (parse_dt : str -> dres)
         (float_repr : ftok -> str) (int_repr : Z -> str) (int_float : Z -> ftok) u c,
    wf_scalar parse_dt int_float u c ->
    cell_parser parse_float parse_dt u (cell_of_leaf float_repr int_repr int_float (leaf c)) = CVal (scalar_value c).
Proof. exact scalar_roundtrip. Qed.
Print Assumptions C08_scalar_roundtrip.

(* json_data_to_table (table_to_json_data t) = t: for every table with at least one column and any
   number of rows (zero included) whose scalars are admissible for their units, the JsonData exists
   and the table rebuilt from it has t's name, destinations cell, column names, units and values. *)
Theorem C08_json_roundtrip :
  forall (parse_float : str -> option ftok) (parse_dt : str -> dres) (cfg : fixer_cfg)
         (float_repr : ftok -> str) (int_repr : Z -> str) (int_float : Z -> ftok)
         (name : str) (dests : list str) (cols : list (str * str * list cell)) (m : nat),
    Forall (fun c => length (snd c) = m) cols -> cols <> [] ->
    (forall j i, j < length cols -> i < m -> wf_scalar parse_dt int_float (junit_at cols j) (scal_at cols j i)) ->
    Forall (fun c => Forall (fun x => leaf_of_scalar x <> None) (snd c)) cols ->
    forall fx : fixer_st,
    fx_fixes fx = 0 -> drop_last_star name = (name, false) ->
    Forall (fun c : str * str * list cell => is_blank (fst (fst c)) = false) cols ->
    map strip (map (fun c : str * str * list cell => fst (fst c)) cols) = map (fun c => fst (fst c)) cols ->
    map strip (map (fun c : str * str * list cell => snd (fst c)) cols) = map (fun c => snd (fst c)) cols ->
    NoDup (map (fun c : str * str * list cell => fst (fst c)) cols) ->
    exists j, table_to_json name dests cols = Some j /\
              parse_table parse_float parse_dt cfg (grid_of_json float_repr int_repr int_float j) fx
              = Ok (json_read_back name dests cols fx).
Proof. exact json_roundtrip. Qed.
Print Assumptions C08_json_roundtrip.

(* the destinations of the rebuilt table are the destinations given, for non-empty lists of names
   without whitespace (json_read_back states them as the destinations of the joined cell) *)
Theorem C08_json_destinations :
  forall (name : str) (dests : list str) (cols : list (str * str * list cell)) (fx : fixer_st),
    dests <> [] -> Forall dest_ok dests -> p_dests (json_read_back name dests cols fx) = dests.
Proof. exact json_read_back_dests. Qed.
Print Assumptions C08_json_destinations.
