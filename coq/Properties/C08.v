(* C08 - JsonData is plain JSON and converts back to the same table.
   Only statements here; every proof is one [exact] of a lemma from Proofs/.
   jleaf has exactly the JSON leaf kinds (null, bool, int, float, str); [pure_leaf] excludes NaN. *)
From PdV Require Import Json JsonProofs.

(* table_to_json_data: name, destinations, columns in table order each with its own unit, all
   leaves JSON values, none NaN (missing numbers and missing timestamps travel as null) *)
Theorem C08_table_to_json_pure :
  forall name dests cols j,
    table_to_json name dests cols = Some j ->
    j_name j = name /\ j_dests j = dests /\
    map (fun c => fst (fst c)) (j_cols j) = map (fun c => fst (fst c)) cols /\
    map (fun c => snd (fst c)) (j_cols j) = map (fun c => snd (fst c)) cols /\
    Forall (fun c => Forall pure_leaf (snd c)) (j_cols j).
Proof. exact table_to_json_spec. Qed.
Print Assumptions C08_table_to_json_pure.

(* the JsonData the readers produce directly: same guarantees, for every parsed table *)
Theorem C08_reader_json_pure :
  forall render_dt p,
    length (p_units p) = length (p_names p) -> length (p_cols p) = length (p_names p) ->
    j_name (json_of_ptable render_dt p) = p_name p /\
    j_dests (json_of_ptable render_dt p) = p_dests p /\
    map (fun c => fst (fst c)) (j_cols (json_of_ptable render_dt p)) = p_names p /\
    map (fun c => snd (fst c)) (j_cols (json_of_ptable render_dt p)) = p_units p /\
    Forall (fun c => Forall pure_leaf (snd c)) (j_cols (json_of_ptable render_dt p)).
Proof. exact json_of_ptable_spec. Qed.
Print Assumptions C08_reader_json_pure.

Theorem C08_null_iff_missing :
  forall render_dt v,
    leaf_of_value render_dt v = JNull <-> v = VNum nan_tok \/ v = VNaT \/ exists k, v = VCustom k.
Proof. exact leaf_null_iff. Qed.
Print Assumptions C08_null_iff_missing.
