(* C01 - CSV write-then-read preserves every well-formed table bundle.
   Only statements here; every proof is one [exact] of a lemma from Proofs/.
   The text layer (lines and cells recovered exactly), one cell, one table, and the whole bundle
   read (write_csv ts) in the reader model, for tables with zero or more rows and zero or more columns.  The same composition is, in
   addition, evaluated on every generated bundle by the correspondence check (Corr/C01.v). *)
From Coq Require Import List Arith.
From PdV Require Import Text TextProofs WriteProofs ParseTable DestsRoundTrip RoundTrip RoundTripZero PlainLines RoundTripCorollaries.
From PdV.Model Require Import Marker.
From PdV.Model Require Import WriteCsv Segment Reader.
Import ListNotations.

(* splitting a written line on the separator gives back exactly the cells that were joined, for
   every separator that occurs in none of them *)
Theorem C01_cells_recovered :
  forall sep cs,
    cs <> [] -> forallb (fun c => negb (has sep c)) cs = true -> split_on sep (join [sep] cs) = cs.
Proof. exact split_join. Qed.
Print Assumptions C01_cells_recovered.

(* reading the written text line by line gives, table by table, exactly the written lines followed
   by one empty line (the block terminator), for bundles of any length *)
Theorem C01_lines_recovered :
  forall sep ts,
    forallb (fun t => forallb no_lf (table_lines sep t)) ts = true ->
    lines (write_csv sep ts) = flat_map (fun t => table_lines sep t ++ [[]]) ts.
Proof. exact lines_of_bundle. Qed.
Print Assumptions C01_lines_recovered.

(* One written cell read back under its column's unit is the value that was written: text verbatim
   (an empty string in the first column excepted: it is written as '-'), onoff as 0/1, numbers and
   timestamps through float() / to_datetime (the hypotheses num_ok / dt_ok inside wf_val:
   H_float_roundtrip, H_dt_roundtrip), and a missing number or timestamp stays missing. *)
Theorem C01_cell_roundtrip :
  forall (parse_float : str -> option ftok) (parse_dt : str -> dres) u first v,
    wf_val parse_float parse_dt u first v ->
    cell_parser parse_float parse_dt u (CStr (render u first v)) = CVal (value_of u v).
Proof. exact cell_roundtrip. Qed.
Print Assumptions C01_cell_roundtrip.

(* One well-formed table with at least one row, either orientation, any admissible separator: the
   table parser applied to the cells of the written lines returns name, destinations cell, flag,
   column names, units and every value as written, and the fixer is not touched. *)
Theorem C01_table_roundtrip :
  forall (parse_float : str -> option ftok) (parse_dt : str -> dres) (cfg : fixer_cfg) (sep : N) (t : wtable),
    wf_table parse_float parse_dt sep t ->
    parse_table parse_float parse_dt cfg (cells_of_lines sep (table_lines sep t)) fx_init
    = Ok (table_read_back t).
Proof. exact table_roundtrip. Qed.
Print Assumptions C01_table_roundtrip.

(* The whole statement in the model: for every sequence of such tables (any mix of orientations),
   reading the written text yields exactly one TABLE block per written table, in order, each equal
   to the written table, with origin rows at the tables' first lines, and nothing else. *)
Theorem C01_bundle_roundtrip :
  forall (parse_float : str -> option ftok) (parse_dt : str -> dres) (cfg : fixer_cfg) (raising : bool)
         (sep : N) (ts : list wtable),
    Forall (wf_table parse_float parse_dt sep) ts -> Forall (plain_lines sep) ts ->
    forallb (fun t => forallb no_lf (table_lines sep t)) ts = true ->
    read parse_float parse_dt cfg FPd None raising (cells_of_lines sep (lines (write_csv sep ts)))
    = (events_from sep 0 ts, FDone).
Proof. exact bundle_roundtrip. Qed.
Print Assumptions C01_bundle_roundtrip.

(* The same for every well-formed table (wf_any: a table with rows as above, a table with columns
   but no rows, or a table with neither; such tables are written with extra empty lines - one for
   the missing data rows, two more for missing name and unit lines - which the segmentation absorbs). *)
Theorem C01_bundle_roundtrip_any :
  forall (parse_float : str -> option ftok) (parse_dt : str -> dres) (cfg : fixer_cfg) (raising : bool)
         (sep : N) (ts : list wtable),
    Forall (wf_any parse_float parse_dt sep) ts -> Forall (plain_core sep) ts ->
    forallb (fun t => forallb no_lf (table_lines sep t)) ts = true ->
    read parse_float parse_dt cfg FPd None raising (cells_of_lines sep (lines (write_csv sep ts)))
    = (events_from sep 0 ts, FDone).
Proof. exact bundle_roundtrip_any. Qed.
Print Assumptions C01_bundle_roundtrip_any.

(* The destinations line: non-empty names without whitespace, joined by single blanks, read back
   as the same names in the same order (table_read_back states p_dests as the destinations of that
   cell; this is what it evaluates to). *)
Theorem C01_destinations_roundtrip :
  forall ds : list str,
    ds <> [] -> Forall dest_ok ds -> destinations (CStr (join [32%N] ds)) = ds.
Proof. exact dests_roundtrip. Qed.
Print Assumptions C01_destinations_roundtrip.

(* The hypothesis plain_lines of the bundle theorems follows from conditions on first cells (DESIGN
   section 3, items 1-4 and 6): the name does not start with a star, and the destinations line, every
   column name, the first unit and every first-column value are neither blank nor a block marker. *)
Theorem C01_plain_lines_from_first_cells :
  forall (parse_float : str -> option ftok) (parse_dt : str -> dres) (sep : N) (t : wtable),
    wf_table parse_float parse_dt sep t -> first_cells_plain t -> plain_lines sep t.
Proof. exact plain_lines_intro. Qed.
Print Assumptions C01_plain_lines_from_first_cells.

(* ... and a cell is "neither blank nor a block marker" as soon as it is not blank, holds no colon and
   does not start with a star. *)
Theorem C01_cell_plain_nocolon :
  forall s : str,
    is_blank s = false -> has colon s = false -> (match s with x :: _ => x <> star | [] => True end) ->
    cell_plain s.
Proof. exact cell_plain_nocolon. Qed.
Print Assumptions C01_cell_plain_nocolon.

(* ... so that the read-back table carries exactly the written destinations ... *)
Theorem C01_read_back_destinations :
  forall t : wtable,
    w_dests t <> [] -> Forall dest_ok (w_dests t) -> p_dests (table_read_back t) = w_dests t.
Proof. exact table_read_back_dests. Qed.
Print Assumptions C01_read_back_destinations.

(* ... and for tables with rows the block-shape hypothesis of C01_bundle_roundtrip_any (plain_core,
   stated on the written rows) follows from the same first-cell conditions.  For tables without rows
   or without columns plain_core remains a (decidable, computable) hypothesis on the written lines. *)
Theorem C01_plain_core_from_first_cells :
  forall (parse_float : str -> option ftok) (parse_dt : str -> dres) (sep : N) (t : wtable),
    wf_table parse_float parse_dt sep t -> first_cells_plain t -> plain_core sep t.
Proof. exact plain_core_from_first_cells. Qed.
Print Assumptions C01_plain_core_from_first_cells.

(* what the writer model produces for a transposed table with an empty string in a non-first text column
   (the lines only; that reading them back keeps the empty string is RoundTripExample.v) *)
Example C01_example :
  let n (l : list N) : str := l in
  table_lines 59%N {| w_name := n [116%N]; w_dests := [n [97%N]]; w_transposed := true;
                     w_cols := [ {| wc_name := n [97%N]; wc_unit := n [109%N]; wc_vals := [WNum one_tok (n [49%N; 46%N; 48%N])] |};
                                 {| wc_name := n [115%N]; wc_unit := u_text; wc_vals := [WText []] |} ] |}
  = [ n [42; 42; 116; 42; 59]%N; n [97%N]; n [97; 59; 109; 59; 49; 46; 48]%N; n [115; 59; 116; 101; 120; 116; 59]%N ].
Proof. vm_compute. reflexivity. Qed.
