(* C01 - CSV write-then-read preserves every well-formed table bundle.
   Only statements here; every proof is one [exact] of a lemma from Proofs/.
   This file holds the text-layer half (lines and cells recovered exactly) and the per-table layout
   round trip (Proofs/RoundTrip.v); the model-level composition read_csv (write_csv ts) is, in
   addition, evaluated on every generated bundle by the correspondence check (Corr/C01.v). *)
From PdV Require Import Text TextProofs WriteProofs.
From PdV.Model Require Import WriteCsv.

(* splitting a written line on the separator gives back exactly the cells that were joined, for
   every separator that occurs in none of them *)
Theorem C01_cells_recovered :
  forall sep cs,
    cs <> [] -> forallb (fun c => negb (has sep c)) cs = true -> split_on sep (join [sep] cs) = cs.
Proof. exact split_join. Qed.
Print Assumptions C01_cells_recovered.

(* reading the written text line by line gives, table by table, exactly the written lines followed
   by one empty line (the block terminator), for bundles of any length *)
Theorem C01_lines_recovered :
  forall sep ts,
    forallb (fun t => forallb no_lf (table_lines sep t)) ts = true ->
    lines (write_csv sep ts) = flat_map (fun t => table_lines sep t ++ [[]]) ts.
Proof. exact lines_of_bundle. Qed.
Print Assumptions C01_lines_recovered.

(* non-vacuity: a transposed table with an empty string in a non-first text column keeps it *)
Example C01_example :
  let n (l : list N) : str := l in
  table_lines 59%N {| w_name := n [116%N]; w_dests := [n [97%N]]; w_transposed := true;
                     w_cols := [ {| wc_name := n [97%N]; wc_unit := n [109%N]; wc_vals := [WNum one_tok (n [49%N; 46%N; 48%N])] |};
                                 {| wc_name := n [115%N]; wc_unit := u_text; wc_vals := [WText []] |} ] |}
  = [ n [42; 42; 116; 42; 59]%N; n [97%N]; n [97; 59; 109; 59; 49; 46; 48]%N; n [115; 59; 116; 101; 120; 116; 59]%N ].
Proof. vm_compute. reflexivity. Qed.
