(* M-Tree: make_location_trees (pdtable/io/load/_tree.py): nodes keyed by load identifier in an
   insertion-ordered dict; a table's leaf is registered under its file, and every newly created node
   is registered under the source of its load item, recursively. *)
From Coq Require Export List Bool Arith.
Export ListNotations.

Section Tree.
Variable loc : Type.
Variable loc_eqb : loc -> loc -> bool.

Inductive child := CLeaf (t : nat) | CNode (l : loc).
Definition buf := list (loc * list child).        (* node -> children, in creation order *)

Fixpoint has (l : loc) (b : buf) : bool :=
  match b with [] => false | (k, _) :: r => loc_eqb k l || has l r end.
Fixpoint add_child (l : loc) (c : child) (b : buf) : buf :=
  match b with
  | [] => []
  | (k, cs) :: r => if loc_eqb k l then (k, cs ++ [c]) :: r else (k, cs) :: add_child l c r
  end.

(* register_node along the chain [location; its source; the source's source; ...] *)
Fixpoint register (chain : list loc) (c : child) (b : buf) : buf :=
  match chain with
  | [] => b
  | l :: rest => if has l b then add_child l c b else register rest (CNode l) (b ++ [(l, [c])])
  end.

(* tables: (table id, chain of its file location) *)
Definition make_trees (tables : list (nat * list loc)) : buf :=
  fold_left (fun b tc => register (snd tc) (CLeaf (fst tc)) b) tables [].

Definition children_of (l : loc) (b : buf) : list child :=
  match find (fun kc => loc_eqb (fst kc) l) b with Some kc => snd kc | None => [] end.
Definition all_children (b : buf) : list child := concat (map snd b).

Definition is_leaf (t : nat) (c : child) : bool := match c with CLeaf u => Nat.eqb t u | _ => false end.
Definition is_node (l : loc) (c : child) : bool := match c with CNode k => loc_eqb l k | _ => false end.
Definition count (p : child -> bool) (cs : list child) : nat := length (filter p cs).

(* the roots: nodes that are nobody's child *)
Definition roots (b : buf) : list loc :=
  map fst (filter (fun kc => Nat.eqb (count (is_node (fst kc)) (all_children b)) 0) b).
End Tree.

Arguments CLeaf {loc}. Arguments CNode {loc}.
