(* M-Write (CSV): _table_to_csv and _represent_element (pdtable/io/csv.py, pdtable/io/_represent.py),
   as repaired.  No display formats (DESIGN section 3.8). *)
From PdV Require Export Text Cell.
Local Open Scope N_scope.

(* a dataframe cell as the writer sees it; numbers and timestamps carry their str() rendering
   (hypothesis H_native) *)
Inductive wval :=
| WText (s : str)
| WBool (b : bool)
| WNum (f : ftok) (repr : str)      (* int or float, not NaN *)
| WDate (d : dtok) (repr : str)     (* str(pd.to_datetime(v).to_pydatetime()) *)
| WMissing (repr : str).            (* NaN / NaT / None: pd.isna holds; repr = str(v) *)

Record wcol := { wc_name : str; wc_unit : str; wc_vals : list wval }.
Record wtable := { w_name : str; w_dests : list str (* iteration order of the destination set *);
                   w_transposed : bool; w_cols : list wcol }.

Definition u_text : str := [116; 101; 120; 116].
Definition u_onoff : str := [111; 110; 111; 102; 102].
Definition u_datetime : str := [100; 97; 116; 101; 116; 105; 109; 101].
Definition na_rep : str := [45].
Definition LF : N := 10.

Definition wval_str (v : wval) : str :=
  match v with
  | WText s => s
  | WBool b => if b then s_True else s_False
  | WNum _ r => r
  | WDate _ r => r
  | WMissing r => r
  end.

(* _represent_element followed by str(): the text of one cell *)
Definition render (unit : str) (in_first_column : bool) (v : wval) : str :=
  if negb (str_eqb unit u_text) && (match v with WMissing _ => true | _ => false end) then na_rep
  else if str_eqb unit u_onoff then
    match v with
    | WBool b => if b then [49] else [48]
    | WNum f _ => if f =? one_tok then [49] else if (f =? zero_tok) || (f =? negzero_tok) then [48] else wval_str v
    | _ => wval_str v
    end
  else if str_eqb unit u_text then
    match v with
    | WText [] => if in_first_column then na_rep else []
    | _ => wval_str v
    end
  else wval_str v.

Definition nl : str := [LF].
Definition stars : str := [42; 42].

Fixpoint nth_vals (i : nat) (cols : list wcol) : list (str * bool * wval) :=
  match cols with
  | [] => []
  | c :: rest => match nth_error (wc_vals c) i with
                 | Some v => (wc_unit c, false, v) :: nth_vals i rest
                 | None => nth_vals i rest
                 end
  end.

(* the cells of data row i: column j is the first column iff j = 0 *)
Definition row_cells (cols : list wcol) (i : nat) : list str :=
  match cols with
  | [] => []
  | c0 :: rest =>
      (match nth_error (wc_vals c0) i with Some v => [render (wc_unit c0) true v] | None => [] end)
      ++ flat_map (fun c => match nth_error (wc_vals c) i with Some v => [render (wc_unit c) false v] | None => [] end) rest
  end.

Definition n_rows (cols : list wcol) : nat :=
  match cols with [] => O | c :: _ => length (wc_vals c) end.

(* the lines of a table block, without line terminators *)
Definition table_lines (sep : N) (t : wtable) : list str :=
  let s := [sep] in
  if w_transposed t then
    (stars ++ w_name t ++ [42] ++ s)
    :: join [32] (w_dests t)
    :: (match w_cols t with
        | [] => [[]]                                   (* "\n".join([]) = "" *)
        | c0 :: rest =>
            (wc_name c0 ++ s ++ wc_unit c0 ++ s ++ join s (map (render (wc_unit c0) true) (wc_vals c0)))
            :: map (fun c => wc_name c ++ s ++ wc_unit c ++ s ++ join s (map (render (wc_unit c) false) (wc_vals c))) rest
        end)
  else
    (stars ++ w_name t ++ s)
    :: join [32] (w_dests t)
    :: join s (map wc_name (w_cols t))
    :: join s (map wc_unit (w_cols t))
    :: (match n_rows (w_cols t) with
        | O => [[]]                                    (* "\n".join([]) = "" *)
        | _ => map (fun i => join s (row_cells (w_cols t) i)) (seq 0 (n_rows (w_cols t)))
        end).

(* the_whole_thing: the lines joined by LF, followed by two LF *)
Definition write_table (sep : N) (t : wtable) : str :=
  join nl (table_lines sep t) ++ nl ++ nl.

Definition write_csv (sep : N) (ts : list wtable) : str := concat (map (write_table sep) ts).
