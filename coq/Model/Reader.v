(* M-Read: parse_blocks / parse_blocks_stable's block_output: handlers per block type, read
   filter, fixer reset, issue tracker (pdtable/io/parsers/blocks.py), over M-Seg and M-Parse. *)
From PdV Require Export Segment ParseTable.
Local Open Scope N_scope.

Inductive form := FPd | FJson | FGrid.

Inductive content :=
| CtTable (t : ptable)                 (* to='pdtable': the Table built from the precursor *)
| CtJson (t : ptable)                  (* to='jsondata': to_json_serializable of the same precursor *)
| CtGrid (rows : list row)             (* to='cellgrid', and TEMPLATE / BLANK blocks: the raw rows *)
| CtMeta (kv : list (str * str))       (* MetadataBlock: insertion-ordered dict *)
| CtDirective (name : str) (lines : list cell).

Inductive event :=
| EBlock (t : btype) (origin : nat) (c : content)
| EIssue (origin : nat) (messages : list defect).   (* issue_tracker.add_error(load_location=origin) *)

Inductive final := FDone | FInputError (origin : nat) | FCrash.

(* MetadataBlock as an insertion-ordered dict: assignment to an existing key keeps its position *)
Fixpoint dict_set (k v : str) (d : list (str * str)) : list (str * str) :=
  match d with
  | [] => [(k, v)]
  | (k', v') :: rest => if str_eqb k' k then (k', v) :: rest else (k', v') :: dict_set k v rest
  end.

Definition meta_row (d : list (str * str)) (r : row) : list (str * str) :=
  match r with
  | CStr k :: v :: _ =>
      let key := strip k in
      if ends_with_c colon key then
        dict_set (removelast key) (match v with CNone => [] | _ => strip (cell_str v) end) d
      else d
  | _ => d
  end.
Definition make_metadata (rows : list row) : list (str * str) := fold_left meta_row rows [].

Definition make_directive (rows : list row) : content :=
  match rows with
  | (CStr c :: _) :: rest =>
      CtDirective (skipn 3 c) (map (fun r => match r with c0 :: _ => c0 | [] => CNone end) rest)
  | _ => CtGrid rows    (* unreachable for DIRECTIVE blocks *)
  end.

(* the name offered to a read filter for a TABLE block *)
Definition offered_name (rows : list row) : str :=
  match rows with
  | (CStr c :: _) :: _ => fst (drop_last_star (skipn 2 c))
  | _ => []
  end.

Definition fx_init : fixer_st := {| fx_errors := 0; fx_warnings := 0; fx_messages := [] |}.

Section Read.
Variable parse_float : str -> option ftok.
Variable parse_dt : str -> dres.
Variable cfg : fixer_cfg.
Variable fm : form.
Variable filter : option (btype -> str -> bool).
Variable raising : bool.          (* default tracker: the first error raises InputError *)

Definition accepted (t : btype) (rows : list row) : bool :=
  match filter with
  | None => true
  | Some f => f t (match t with BTable => offered_name rows | _ => [] end)
  end.

(* handler(cell_grid, origin, fixer): Ok None = filtered out *)
Definition handle (t : btype) (rows : list row) (fx : fixer_st) : res (option content * fixer_st) :=
  if negb (accepted t rows) then Ok (None, fx)
  else match t with
       | BMeta => Ok (Some (CtMeta (make_metadata rows)), fx)
       | BDir => Ok (Some (make_directive rows), fx)
       | BTable =>
           match fm with
           | FGrid => Ok (Some (CtGrid rows), fx)
           | FPd => match parse_table parse_float parse_dt cfg rows fx with
                    | Ok p => Ok (Some (CtTable p), p_fx p)
                    | VErr m => VErr m | Crash => Crash
                    end
           | FJson => match parse_table parse_float parse_dt cfg rows fx with
                      | Ok p => Ok (Some (CtJson p), p_fx p)
                      | VErr m => VErr m | Crash => Crash
                      end
           end
       | _ => Ok (Some (CtGrid rows), fx)
       end.

(* ParseFixer.messages is never cleared between blocks: the text of a later issue repeats the
   defects logged for earlier blocks.  Parsing itself never reads the log, so the model parses each
   block with an empty log and keeps the history [hist] only for the reported message. *)
Fixpoint deliver (bs : list (block row)) (hist : list defect) : list event * final :=
  match bs with
  | [] => ([], FDone)
  | (t, i, rows) :: rest =>
    match handle t rows fx_init with
    | Ok (Some c, fx') => let (evs, fin) := deliver rest (hist ++ fx_messages fx') in (EBlock t i c :: evs, fin)
    | Ok (None, fx') => deliver rest (hist ++ fx_messages fx')
    | VErr m =>
        if raising then ([], FInputError i)
        else let (evs, fin) := deliver rest (hist ++ m) in (EIssue i (hist ++ m) :: evs, fin)
    | Crash => ([], FCrash)
    end
  end.

Definition read (rows : list row) : list event * final := deliver (segment_rows rows) [].
End Read.
