(* M-Eq: Table.equals (pdtable/proxy.py), for tables with default row numbering.
   Cell values are abstract: [eqv] stands for _equal_or_same. *)
From PdV Require Export Text.

Section Eq.
Variable V : Type.
Variable eqv : V -> V -> bool.          (* _equal_or_same *)

Record table := {
  t_name : str;
  t_dests : list str;                    (* a python set: order and multiplicity irrelevant *)
  t_colnames : list str;
  t_units : list str;
  t_rows : list (list V)                 (* row-major cell values; each row has one cell per column *)
}.

Fixpoint list_eqb {A} (e : A -> A -> bool) (a b : list A) : bool :=
  match a, b with
  | [], [] => true
  | x :: a', y :: b' => e x y && list_eqb e a' b'
  | _, _ => false
  end.

Definition mem_str (s : str) (l : list str) : bool := existsb (str_eqb s) l.
Definition subset (a b : list str) : bool := forallb (fun s => mem_str s b) a.
Definition set_eqb (a b : list str) : bool := subset a b && subset b a.

(* the metadata comparison key: (name, destinations, column_names, units) *)
Definition key_eqb (a b : table) : bool :=
  str_eqb (t_name a) (t_name b) && set_eqb (t_dests a) (t_dests b)
  && list_eqb str_eqb (t_colnames a) (t_colnames b) && list_eqb str_eqb (t_units a) (t_units b).

(* _df_elements: for row in df.itertuples(): index, then the cells.  The index of row i is i. *)
Inductive elem := EIdx (i : nat) | EVal (v : V).
Fixpoint elements (i : nat) (rows : list (list V)) : list elem :=
  match rows with
  | [] => []
  | r :: rest => EIdx i :: map EVal r ++ elements (S i) rest
  end.
Definition elem_eqv (a b : elem) : bool :=
  match a, b with
  | EIdx i, EIdx j => Nat.eqb i j
  | EVal x, EVal y => eqv x y
  | _, _ => false            (* an int index against a cell: not generated; treated as unequal *)
  end.
(* all(... for x1, x2 in zip(...)): stops at the shorter stream *)
Fixpoint zip_all (a b : list elem) : bool :=
  match a, b with
  | x :: a', y :: b' => elem_eqv x y && zip_all a' b'
  | _, _ => true
  end.

(* df.shape comparison (rows, columns) *)
Definition shape_eqb (a b : table) : bool :=
  Nat.eqb (length (t_rows a)) (length (t_rows b))
  && Nat.eqb (length (t_colnames a)) (length (t_colnames b)).

Definition equals (a b : table) : bool :=
  key_eqb a b && (shape_eqb a b && zip_all (elements 0 (t_rows a)) (elements 0 (t_rows b))).

(* Table.equals(self, other) on python objects: a Table carries, besides what [table] holds, its
   class (0 = Table itself, otherwise a subclass; distinct subclasses are unrelated), its origin and
   its orientation flag - neither of the latter is part of __metadata_comp_key - and [other] may be
   any object: isinstance(other, Table) is asked first *)
Inductive pyobj :=
| OTable (cls : N) (origin : N) (transposed : bool) (t : table)
| ONotTable (tag : N).
Definition method_equals (self other : pyobj) : bool :=
  match self, other with
  | OTable _ _ _ a, OTable _ _ _ b => equals a b
  | _, _ => false
  end.
(* before the repair: isinstance(other, self.__class__) *)
Definition method_equals_unrepaired (self other : pyobj) : bool :=
  match self, other with
  | OTable c _ _ a, OTable c' _ _ b => (N.eqb c 0 || N.eqb c c') && equals a b
  | _, _ => false
  end.

(* the code before the repair (no shape comparison) *)
Definition equals_unrepaired (a b : table) : bool :=
  key_eqb a b && zip_all (elements 0 (t_rows a)) (elements 0 (t_rows b)).
End Eq.

Arguments t_name {V}. Arguments t_dests {V}. Arguments t_colnames {V}. Arguments t_units {V}.
Arguments t_rows {V}.
Arguments key_eqb {V}. Arguments elements {V}. Arguments elem_eqv {V}. Arguments zip_all {V}.
Arguments shape_eqb {V}. Arguments equals {V}. Arguments equals_unrepaired {V}.
Arguments EIdx {V}. Arguments EVal {V}.
Arguments OTable {V}. Arguments ONotTable {V}. Arguments method_equals {V}. Arguments method_equals_unrepaired {V}.
