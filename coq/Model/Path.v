(* M-Path: POSIX pathlib semantics as FileSystemLoader._resolve_load_item_path uses them
   (pdtable/io/load/_loaders.py): Path(spec), '/', resolve() (realpath with symlinks), relative_to.
   A file system is a finite map from canonical absolute paths (component lists) to nodes. *)
From PdV Require Export Text.
Local Open Scope N_scope.

Definition path := list str.      (* absolute: components from the root *)

Inductive node := NDir | NFile | NLink (target : str).
Definition fsys := list (path * node).

Fixpoint path_eqb (a b : path) : bool :=
  match a, b with
  | [], [] => true
  | x :: a', y :: b' => str_eqb x y && path_eqb a' b'
  | _, _ => false
  end.

Fixpoint fs_get (fs : fsys) (p : path) : option node :=
  match fs with
  | [] => None
  | (q, n) :: rest => if path_eqb q p then Some n else fs_get rest p
  end.

Definition slash : N := 47.
Definition backslash : N := 92.
Definition s_dot : str := [46].
Definition s_dotdot : str := [46; 46].

(* PurePosixPath(spec): absolute iff it starts with '/'; empty and '.' segments are dropped, '..' kept *)
Definition is_abs (spec : str) : bool := match spec with c :: _ => c =? slash | [] => false end.
Definition parts_of (spec : str) : list str :=
  filter (fun s => negb (match s with [] => true | _ => false end) && negb (str_eqb s s_dot))
         (split_on slash spec).

(* base / spec *)
Definition join_path (base : path) (spec : str) : path :=
  if is_abs spec then parts_of spec else base ++ parts_of spec.

(* os.path.realpath: components left to right; '..' pops; a symlink is replaced by its target
   (restarting from the root if the target is absolute).  One unit of fuel per step. *)
Fixpoint realpath (fs : fsys) (fuel : nat) (cur : path) (rest : list str) : option path :=
  match rest with
  | [] => Some cur
  | name :: rest' =>
    match fuel with
    | O => None
    | S f =>
      if str_eqb name s_dotdot then realpath fs f (removelast cur) rest'
      else match fs_get fs (cur ++ [name]) with
           | Some (NLink t) => realpath fs f (if is_abs t then [] else cur) (parts_of t ++ rest')
           | _ => realpath fs f (cur ++ [name]) rest'
           end
    end
  end.

Fixpoint is_prefix (a b : path) : bool :=
  match a, b with
  | [], _ => true
  | x :: a', y :: b' => str_eqb x y && is_prefix a' b'
  | _ :: _, [] => false
  end.

Inductive rres := ROk (p : path) | RLoadError | RLoop.

(* POSIX keeps exactly two leading slashes as a root of its own ("//"): such a path is never
   relative to a root folder under "/" *)
Definition dslash (spec : str) : bool :=
  match spec with
  | a :: b :: rest => (a =? slash) && (b =? slash) && negb (match rest with c :: _ => c =? slash | [] => false end)
  | _ => false
  end.

Definition s_file_colon : str := [102; 105; 108; 101; 58].     (* "file:" *)

(* FileSystemLoader._resolve_load_item_path *)
Definition resolve_item (fs : fsys) (fuel : nat) (root : option path) (src_folder : option path) (spec0 : str) : rres :=
  let spec := if starts_with s_file_colon (lower spec0) then skipn 5 spec0 else spec0 in
  let leading := match spec with c :: _ => (c =? slash) || (c =? backslash) | [] => false end in
  let target : option path :=
    if leading then
      match root with
      | None => if is_abs spec then Some (parts_of spec) else None
      | Some r => Some (join_path r (skipn 1 spec))
      end
    else
      match src_folder with
      | None => if is_abs spec then Some (parts_of spec) else None
      | Some s => Some (join_path s spec)
      end in
  let odd_anchor := if leading then (match root with Some _ => dslash (skipn 1 spec) | None => false end) else false in
  match target with
  | None => RLoadError
  | Some parts =>
      match realpath fs fuel [] parts with
      | None => RLoop
      | Some p =>
          match root with
          | Some r => if is_prefix r p && negb odd_anchor then ROk p else RLoadError
          | None => ROk p
          end
      end
  end.
