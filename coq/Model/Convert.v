(* M-Conv: Table.convert_units / Column.convert_units (pdtable/proxy.py), as repaired.
   Column values are abstract (V); the converter is a parameter:
     conv unit None     vals = Some (vals', base_unit)   converter(values, unit)
     conv unit (Some t) vals = Some (vals', reported)    converter(values, unit, t)
     None = the converter raises. *)
From PdV Require Export Text.
Local Open Scope N_scope.

Definition u_text : str := [116; 101; 120; 116].
Definition u_onoff : str := [111; 110; 111; 102; 102].
Definition u_datetime : str := [100; 97; 116; 101; 116; 105; 109; 101].
Definition s_base : str := [95; 95; 98; 97; 115; 101; 95; 95].              (* "__base__" *)
Definition s_origin : str := [95; 95; 111; 114; 105; 103; 105; 110; 95; 95].  (* "__origin__" *)

Definition inconvertible (u : str) : bool := str_eqb u u_text || str_eqb u u_datetime || str_eqb u u_onoff.

Inductive cerr := ENotDefined (* UnitConversionNotDefinedError *) | ENotImplemented | EConverter
                | ELength (* ValueError: unequal number of columns and units *) | EType.

Section Conv.
Variable V : Type.
Variable conv : str -> option str -> V -> option (V * str).

Record column := { c_name : str; c_unit : str; c_vals : V }.

(* Column.convert_units *)
Definition convert_col (c : column) (to : option str) : column + cerr :=
  match to with
  | None => inl c
  | Some t =>
      if str_eqb t (c_unit c) then inl c
      else if inconvertible (c_unit c) then inr ENotDefined
      else if str_eqb t s_origin then inr ENotImplemented
      else if str_eqb t s_base then
        match conv (c_unit c) None (c_vals c) with
        | Some (v, u) => inl {| c_name := c_name c; c_unit := u; c_vals := v |}
        | None => inr EConverter
        end
      else
        match conv (c_unit c) (Some t) (c_vals c) with
        | Some (v, _) => inl {| c_name := c_name c; c_unit := t; c_vals := v |}
        | None => inr EConverter
        end
  end.

(* the four dispatcher forms plus 'origin' *)
Inductive dispatcher :=
| DBase | DOrigin
| DList (l : list (option str))
| DDict (d : list (str * option str))      (* dict: name -> target (None value = no conversion) *)
| DFun (f : str -> option str).

Fixpoint dict_get (n : str) (d : list (str * option str)) : option str :=
  match d with
  | [] => None
  | (k, v) :: rest => if str_eqb k n then v else dict_get n rest
  end.

(* the target each column is asked to take, or the dispatcher-level error *)
Definition targets (d : dispatcher) (cols : list column) : list (option str) + cerr :=
  match d with
  | DBase => inl (map (fun c => if inconvertible (c_unit c) then None else Some s_base) cols)
  | DOrigin => inl (map (fun c => if inconvertible (c_unit c) then None else Some s_origin) cols)
  | DList l => if Nat.eqb (length l) (length cols) then inl l else inr ELength
  | DDict dd => inl (map (fun c => dict_get (c_name c) dd) cols)
  | DFun f => inl (map (fun c => f (c_name c)) cols)
  end.

(* the loop over the column proxies of the copy: the first error aborts *)
Fixpoint convert_all (cols : list column) (ts : list (option str)) : list column + cerr :=
  match cols, ts with
  | c :: cs, t :: ts' =>
      match convert_col c t with
      | inr e => inr e
      | inl c' => match convert_all cs ts' with
                  | inr e => inr e
                  | inl r => inl (c' :: r)
                  end
      end
  | _, _ => inl []
  end.

Definition convert_units (d : dispatcher) (cols : list column) : list column + cerr :=
  match targets d cols with
  | inr e => inr e
  | inl ts => convert_all cols ts
  end.
End Conv.

Arguments c_name {V}. Arguments c_unit {V}. Arguments c_vals {V}.
Arguments convert_col {V}. Arguments targets {V}. Arguments convert_all {V}. Arguments convert_units {V}.
