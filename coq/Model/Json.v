(* M-Json: to_json_serializable on the table precursor (make_table_json_data), table_to_json_data,
   and json_data_to_table (pdtable/io/_json.py, pdtable/io/json.py, parsers/blocks.py). *)
From PdV Require Export ParseTable.
Local Open Scope N_scope.

(* JSON leaves that can occur in a column's "values" list *)
Inductive jleaf := JNull | JBool (b : bool) | JInt (z : Z) | JFloat (f : ftok) | JStr (s : str).

Section Json.
Variable render_dt : dtok -> str.     (* str(timestamp) *)

(* to_json_serializable on one parsed value *)
Definition leaf_of_value (v : value) : jleaf :=
  match v with
  | VText s => JStr s
  | VBool b => JBool b
  | VNum f => if f =? nan_tok then JNull else JFloat f
  | VDate d => JStr (render_dt d)
  | VNaT => JNull
  | VCustom _ => JNull
  end.

(* a JsonData table: name, destinations (dict keys), columns in order: (name, unit, values) *)
Record jtable := {
  j_name : str; j_dests : list str; j_cols : list (str * str * list jleaf)
}.

Fixpoint zip3 (a : list str) (b : list str) (c : list (list value)) : list (str * str * list jleaf) :=
  match a, b, c with
  | x :: a', y :: b', z :: c' => (x, y, map leaf_of_value z) :: zip3 a' b' c'
  | _, _, _ => []
  end.

(* make_table_json_data = to_json_serializable of the precursor *)
Definition json_of_ptable (p : ptable) : jtable :=
  {| j_name := p_name p; j_dests := p_dests p; j_cols := zip3 (p_names p) (p_units p) (p_cols p) |}.

(* json_data_to_table: rebuild a cell grid of native cells and reuse make_table.
   A JSON leaf becomes the native cell json.loads would give. *)
Variable float_repr : ftok -> str.    (* str(float) *)
Variable int_repr : Z -> str.
Variable int_float : Z -> ftok.
Definition cell_of_leaf (l : jleaf) : cell :=
  match l with
  | JNull => CNone
  | JBool b => CBool b
  | JInt z => CInt z (int_float z) (int_repr z)
  | JFloat f => CFloat f (float_repr f)
  | JStr s => CStr s
  end.

Definition star2 : str := [42; 42].
Definition sp : str := [32].

(* zip( *data ): rows of the column-major values; stops at the shortest column *)
Fixpoint rows_of_columns (cols : list (list cell)) (fuel : nat) : list (list cell) :=
  match fuel with
  | O => []
  | S f =>
    if existsb (fun c => match c with [] => true | _ => false end) cols then []
    else match cols with
         | [] => []
         | _ => map (fun c => match c with x :: _ => x | [] => CNone end) cols
                :: rows_of_columns (map (fun c => match c with _ :: t => t | [] => [] end) cols) f
         end
  end.

Definition grid_of_json (j : jtable) : list row :=
  let cols := map (fun c => map cell_of_leaf (snd c)) (j_cols j) in
  let fuel := fold_right (fun c m => Nat.max (length c) m) 0%nat cols in
  [CStr (star2 ++ j_name j)]
  :: [CStr (join sp (j_dests j))]
  :: map (fun c => CStr (fst (fst c))) (j_cols j)
  :: map (fun c => CStr (snd (fst c))) (j_cols j)
  :: rows_of_columns cols fuel.
End Json.

(* to_json_serializable on one python scalar (a cell): None = NotImplementedError *)
Definition leaf_of_scalar (c : cell) : option jleaf :=
  match c with
  | CStr s => Some (JStr s)
  | CNone => Some JNull
  | CInt z _ _ => Some (JInt z)
  | CFloat f _ => Some (if (f =? nan_tok)%N then JNull else JFloat f)
  | CBool b => Some (JBool b)
  | CDate _ r => Some (JStr r)          (* str(obj) *)
  | CNaT => Some JNull                  (* str(NaT) = "NaT" -> None *)
  | COther _ _ => None
  end.

Fixpoint leaves_of (cs : list cell) : option (list jleaf) :=
  match cs with
  | [] => Some []
  | c :: rest => match leaf_of_scalar c, leaves_of rest with
                 | Some l, Some ls => Some (l :: ls)
                 | _, _ => None
                 end
  end.

(* table_to_json_data: name, destinations, columns in table order with unit and list(df[col]) *)
Fixpoint json_cols (cols : list (str * str * list cell)) : option (list (str * str * list jleaf)) :=
  match cols with
  | [] => Some []
  | (n, u, vs) :: rest => match leaves_of vs, json_cols rest with
                          | Some ls, Some r => Some ((n, u, ls) :: r)
                          | _, _ => None
                          end
  end.
Definition table_to_json (name : str) (dests : list str) (cols : list (str * str * list cell)) : option jtable :=
  match json_cols cols with
  | Some c => Some {| j_name := name; j_dests := dests; j_cols := c |}
  | None => None
  end.

(* The frame make_table_dataframe builds from the precursor's columns, seen through list(df[col])
   (what table_to_json_data reads): pandas hands every stored value back as a python scalar. *)
Section FrameScalars.
Variable render_dt : dtok -> str.     (* str(timestamp) *)
Variable float_repr : ftok -> str.    (* str(float) *)
Definition scalar_of_value (v : value) : cell :=
  match v with
  | VText s => CStr s
  | VBool b => CBool b
  | VNum f => CFloat f (float_repr f)
  | VDate d => CDate d (render_dt d)
  | VNaT => CNaT
  | VCustom k => COther k []
  end.
Fixpoint frame_zip (a b : list str) (c : list (list value)) : list (str * str * list cell) :=
  match a, b, c with
  | x :: a', y :: b', z :: c' => (x, y, map scalar_of_value z) :: frame_zip a' b' c'
  | _, _, _ => []
  end.
Definition frame_cols (p : ptable) : list (str * str * list cell) := frame_zip (p_names p) (p_units p) (p_cols p).
End FrameScalars.
