(* Cells of a cell grid: text (CSV) or native (Excel / JSON) values.  Numbers and timestamps
   are opaque tokens: pdtable never computes with them. *)
From Coq Require Export ZArith.
From PdV Require Export Text.

Definition ftok := N.   (* IEEE-754 binary64 bit pattern of a python float *)
Definition dtok := Z.   (* a datetime: nanoseconds since epoch; NaT has its own constructor *)

Inductive cell :=
| CStr (s : str)
| CNone
| CInt (z : Z)          (* python int (not bool) *)
| CFloat (f : ftok)     (* python float *)
| CBool (b : bool)
| CDate (d : dtok)      (* datetime.datetime / pd.Timestamp *)
| CNaT                  (* pd.NaT: an instance of datetime.datetime *)
| COther (tag : N).     (* any other python object (date, time, bytes, ...) *)

Definition row := list cell.

(* pdtable.io.parsers.blocks._is_cell_blank *)
Definition cell_blank (c : cell) : bool :=
  match c with
  | CNone => true
  | CStr s => is_blank s
  | _ => false
  end.
