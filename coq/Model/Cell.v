(* Cells of a cell grid: text (CSV) or native (Excel / JSON) values.  Numbers and timestamps
   are opaque tokens: pdtable never computes with them.  A native cell carries the results of
   the two python conversions pdtable applies to it - str(x) and float(x) - as fields
   (hypothesis H_native: the harness fills them from the interpreter). *)
From Coq Require Export ZArith.
From PdV Require Export Text.

Definition ftok := N.   (* IEEE-754 binary64 bit pattern of a python float; NaN canonicalised *)
Definition dtok := Z.   (* a timestamp: nanoseconds since the epoch *)

Inductive cell :=
| CStr (s : str)
| CNone
| CInt (z : Z) (fl : ftok) (repr : str)     (* python int (not bool), float(z), str(z) *)
| CFloat (f : ftok) (repr : str)            (* python float, str(f) *)
| CBool (b : bool)
| CDate (d : dtok) (repr : str)             (* datetime.datetime / pd.Timestamp, str(d) *)
| CNaT                                      (* pd.NaT: an instance of datetime.datetime *)
| COther (tag : N) (repr : str).            (* any other python object (date, time, ...) *)

Definition row := list cell.

(* pdtable.io.parsers.blocks._is_cell_blank *)
Definition cell_blank (c : cell) : bool :=
  match c with
  | CNone => true
  | CStr s => is_blank s
  | _ => false
  end.

Local Open Scope N_scope.
Definition nan_tok : ftok := 9221120237041090560.      (* 0x7ff8000000000000 *)
Definition zero_tok : ftok := 0.
Definition negzero_tok : ftok := 9223372036854775808.  (* 0x8000000000000000 *)
Definition one_tok : ftok := 4607182418800017408.      (* 0x3ff0000000000000 *)

(* str(x) of a cell *)
Definition s_None : str := [78; 111; 110; 101].
Definition s_True : str := [84; 114; 117; 101].
Definition s_False : str := [70; 97; 108; 115; 101].
Definition s_NaT : str := [78; 97; 84].
Definition cell_str (c : cell) : str :=
  match c with
  | CStr s => s
  | CNone => s_None
  | CInt _ _ r => r
  | CFloat _ r => r
  | CBool b => if b then s_True else s_False
  | CDate _ r => r
  | CNaT => s_NaT
  | COther _ r => r
  end.
