(* M-Parse: make_table_json_precursor, parse_column_names, _fix_duplicate_column_names,
   _get_destinations_safely_stripped, the four column parsers and ParseFixer
   (pdtable/io/parsers/{blocks,columns,fixer}.py), as repaired by the fix: commits. *)
From PdV Require Export Text Cell.
Local Open Scope N_scope.

(* ---- values of parsed columns ---- *)
Inductive value :=
| VText (s : str)
| VBool (b : bool)
| VNum (f : ftok)           (* NaN is VNum nan_tok *)
| VDate (d : dtok)
| VNaT
| VCustom (k : N).          (* a custom fixer's replacement value *)

Inductive vtype := TOnoff | TDatetime | TFloat.

(* what the fixer logged: enough to decide "the message names the defect" *)
Inductive defect :=
| DIllegal (vt : vtype) (shown : cell)     (* "Illegal value '{value}' for unit '{vtype} '" *)
| DDuplicate (name : str) (pos : nat)      (* "Duplicate column '{name}' at position {pos}" *)
| DShortRow (row : nat).                   (* "Missing data in row {row}" *)

(* ParseFixer configuration and running state *)
Record fixer_cfg := {
  stop_on_errors : bool;
  strict_types : bool;
  fix_value : vtype -> value            (* stock: False / NaT / NaN; custom: anything *)
}.
Definition stock_fix (vt : vtype) : value :=
  match vt with TOnoff => VBool false | TDatetime => VNaT | TFloat => VNum nan_tok end.

Record fixer_st := { fx_errors : nat; fx_warnings : nat; fx_messages : list defect (* oldest first *) }.
Definition fx_reset (s : fixer_st) : fixer_st :=
  {| fx_errors := 0; fx_warnings := 0; fx_messages := fx_messages s |}.
Definition fx_fixes (s : fixer_st) : nat := (fx_errors s + fx_warnings s)%nat.
Definition fx_warn (s : fixer_st) (d : defect) : fixer_st :=
  {| fx_errors := fx_errors s; fx_warnings := S (fx_warnings s); fx_messages := fx_messages s ++ [d] |}.
Definition fx_err (s : fixer_st) (d : defect) : fixer_st :=
  {| fx_errors := S (fx_errors s); fx_warnings := fx_warnings s; fx_messages := fx_messages s ++ [d] |}.

(* results: Ok, ValueError (becomes a located input issue), or any other escaping exception *)
Inductive res (A : Type) :=
| Ok (a : A)
| VErr (messages : list defect)
| Crash.
Arguments Ok {A}. Arguments VErr {A}. Arguments Crash {A}.

Inductive dres := DOk (d : dtok) | DNaTres | DBad | DCrash.

Section Parse.
Variable parse_float : str -> option ftok.   (* float(s); None = ValueError *)
Variable parse_dt : str -> dres.             (* pd.to_datetime(s); DBad = ValueError *)
Variable cfg : fixer_cfg.

Definition s_dash : str := [45].
Definition s_nan : str := [110; 97; 110].
Definition s_NaN : str := [78; 97; 78].
Definition is_marker (n : str) : bool := str_eqb n s_dash || str_eqb n s_nan.
Definition normalize (s : str) : str := lower (strip s).

Definition is_digit (c : N) : bool := (48 <=? c) && (c <=? 57).

(* one cell of a column: a value, or a defect to be fixed, or a ValueError that aborts the table *)
Inductive cres := CVal (v : value) | CFix (vt : vtype) (shown : cell) | CAbort | CCrash.

Definition text_cell (c : cell) : cres := CVal (VText (cell_str c)).   (* np.array(values, dtype=str) *)

Definition s_0 : str := [48].
Definition s_1 : str := [49].
Definition s_true : str := [116; 114; 117; 101].
Definition s_false : str := [102; 97; 108; 115; 101].

Definition onoff_cell (c : cell) : cres :=
  match c with
  | CStr s => let n := normalize s in
              if str_eqb n s_0 || str_eqb n s_false then CVal (VBool false)
              else if str_eqb n s_1 || str_eqb n s_true then CVal (VBool true)
              else CFix TOnoff c
  | CInt z _ _ => if (z =? 0)%Z then CVal (VBool false) else if (z =? 1)%Z then CVal (VBool true)
                  else CFix TOnoff c
  | CFloat f _ => if (f =? zero_tok) || (f =? negzero_tok) then CVal (VBool false)
                  else if f =? one_tok then CVal (VBool true) else CFix TOnoff c
  | CBool b => CVal (VBool b)
  | _ => CFix TOnoff c
  end.

Definition float_cell (c : cell) : cres :=
  match c with
  | CFloat f _ => CVal (VNum f)
  | CInt _ fl _ => CVal (VNum fl)
  | CBool b => CVal (VNum (if b then one_tok else zero_tok))
  | CStr s => let n := normalize s in
              if is_marker n then CVal (VNum nan_tok)
              else match parse_float n with
                   | Some f => CVal (VNum f)
                   | None => CFix TFloat (CStr n)
                   end
  | CNone => CVal (VNum nan_tok)
  | _ => CFix TFloat c
  end.

Definition datetime_cell (c : cell) : cres :=
  match c with
  | CDate d _ => CVal (VDate d)
  | CNaT => CVal VNaT
  | CNone => CFix TDatetime CNone
  | CStr s =>
      let v := strip s in
      match v with
      | [] => CFix TDatetime (CStr v)
      | c0 :: _ =>
          if is_digit c0 || is_marker (lower v) then
            if is_marker (lower v) then CVal VNaT
            else match parse_dt v with
                 | DOk d => CVal (VDate d)
                 | DNaTres => CVal VNaT
                 | DBad => CFix TDatetime (CStr v)
                 | DCrash => CCrash
                 end
          else CFix TDatetime (CStr v)
      end
  | _ => CAbort
  end.

Definition s_text : str := [116; 101; 120; 116].
Definition s_onoff : str := [111; 110; 111; 102; 102].
Definition s_datetime : str := [100; 97; 116; 101; 116; 105; 109; 101].

Definition cell_parser (unit : str) : cell -> cres :=
  if str_eqb unit s_text then text_cell
  else if str_eqb unit s_onoff then onoff_cell
  else if str_eqb unit s_datetime then datetime_cell
  else float_cell.

(* parse_column: left to right, fixing as it goes *)
Fixpoint parse_cells (p : cell -> cres) (cs : list cell) (fx : fixer_st)
  : res (list value * fixer_st) :=
  match cs with
  | [] => Ok ([], fx)
  | c :: rest =>
    match p c with
    | CVal v => match parse_cells p rest fx with
                | Ok (vs, fx') => Ok (v :: vs, fx')
                | VErr m => VErr m | Crash => Crash
                end
    | CFix vt shown =>
      let fx1 := fx_warn fx (DIllegal vt shown) in
      match parse_cells p rest fx1 with
      | Ok (vs, fx') => Ok (fix_value cfg vt :: vs, fx')
      | VErr m => VErr m | Crash => Crash
      end
    | CAbort => VErr (fx_messages fx)
    | CCrash => Crash
    end
  end.

(* parse_column_names: strip, stop at the first blank cell; a non-text cell is a ValueError *)
Fixpoint column_names (cs : list cell) : option (list str) :=
  match cs with
  | [] => Some []
  | c :: rest =>
    if cell_blank c then Some []
    else match c with
         | CStr s => match column_names rest with Some l => Some (strip s :: l) | None => None end
         | _ => None
         end
  end.

Definition mem_str (s : str) (l : list str) : bool := existsb (str_eqb s) l.

(* f"{column_name}_fixed_{sq:03}" *)
Definition pad3 (n : N) : str := [48 + n / 100; 48 + (n / 10) mod 10; 48 + n mod 10].  (* n < 1000 *)
Definition s_fixed : str := [95; 102; 105; 120; 101; 100; 95].
Definition fixed_name (c : str) (sq : N) : str := c ++ s_fixed ++ pad3 sq.
(* the literal returned when all 1000 candidates are taken (a missing f-prefix in the source) *)
Definition s_literal_fixed : str :=
  [123; 99; 111; 108; 117; 109; 110; 95; 110; 97; 109; 101; 125; 45; 102; 105; 120; 101; 100].

Fixpoint first_free (c : str) (taken : list str) (fuel : nat) (sq : N) : str :=
  match fuel with
  | O => s_literal_fixed
  | S f => let t := fixed_name c sq in
           if mem_str t taken then first_free c taken f (sq + 1) else t
  end.

(* _fix_duplicate_column_names; acc = names so far (in order) *)
Fixpoint fix_duplicates (raw : list str) (pos : nat) (acc : list str) (fx : fixer_st)
  : res (list str * fixer_st) :=
  match raw with
  | [] => Ok (acc, fx)
  | c :: rest =>
    if negb (mem_str c acc) && negb (match c with [] => true | _ => false end)
    then fix_duplicates rest (S pos) (acc ++ [c]) fx
    else
      if mem_str c acc then
        let c' := first_free c acc 1000 0 in
        let fx' := fx_err fx (DDuplicate c pos) in
        if mem_str c' acc then Crash      (* assert cname not in names *)
        else fix_duplicates rest (S pos) (acc ++ [c']) fx'
      else fix_duplicates rest (S pos) (acc ++ [c]) fx
  end.

(* _get_destinations_safely_stripped(cell).split(" ") *)
Definition space_to_underscore (s : str) : str := map (fun c => if c =? 32 then 95 else c) s.
Definition destinations (c : cell) : list str :=
  let s := match c with
           | CDate _ r => space_to_underscore r
           | CNaT => s_NaT
           | _ => cell_str c
           end in
  split_on 32 (strip s).

Fixpoint strip_units (us : list cell) : option (list str) :=
  match us with
  | [] => Some []
  | CStr s :: rest => match strip_units rest with Some l => Some (strip s :: l) | None => None end
  | _ :: _ => None
  end.

(* transposed layout: number of data rows = index of the first all-blank position *)
Definition nth_blank (i : nat) (line : list cell) : bool :=
  match nth_error line i with Some c => cell_blank c | None => true end.
Fixpoint count_rows (lines : list (list cell)) (i : nat) (fuel : nat) : nat :=
  match fuel with
  | O => i
  | S f => if forallb (nth_blank i) lines then i else count_rows lines (S i) f
  end.
Definition longest (lines : list (list cell)) : nat := fold_right (fun l m => Nat.max (length l) m) 0%nat lines.

Fixpoint pad_to (n : nat) (l : list cell) : list cell :=
  match n with
  | O => []
  | S m => match l with
           | [] => CNone :: pad_to m []
           | c :: t => c :: pad_to m t
           end
  end.

(* zip( *lines ) for lines of equal length n: n rows *)
Fixpoint transpose (n : nat) (lines : list (list cell)) : list (list cell) :=
  match n with
  | O => []
  | S m => map (fun l => match l with c :: _ => c | [] => CNone end) lines
           :: transpose m (map (fun l => match l with _ :: t => t | [] => [] end) lines)
  end.

Definition s_NaN_cell : cell := CStr s_NaN.

(* ensure all data columns are populated: fix_missing_rows_in_column_data *)
Fixpoint fill_rows (n_col : nat) (rows : list (list cell)) (i : nat) (fx : fixer_st)
  : list (list cell) * fixer_st :=
  match rows with
  | [] => ([], fx)
  | r :: rest =>
    if Nat.ltb (length r) n_col then
      let r' := r ++ repeat s_NaN_cell (n_col - length r) in
      let (rs, fx') := fill_rows n_col rest (S i) (fx_err fx (DShortRow i)) in (r' :: rs, fx')
    else let (rs, fx') := fill_rows n_col rest (S i) fx in (r :: rs, fx')
  end.

(* zip( *data_rows ): columns of the row-major data; stops at the shortest row (all rows have
   at least n_col cells after fill_rows; longer rows were cut to n_col before) *)
Definition columns_of (n_col : nat) (rows : list (list cell)) : list (list cell) :=
  match rows with
  | [] => []
  | _ => map (fun j => map (fun r => match nth_error r j with Some c => c | None => CNone end) rows)
             (seq 0 n_col)
  end.

Record ptable := {
  p_name : str; p_transposed : bool; p_dests : list str;
  p_names : list str; p_units : list str;
  p_cols : list (list value);        (* one list per named column; [] for an unparsed column *)
  p_fx : fixer_st
}.

Fixpoint parse_columns (units : list str) (cols : list (list cell)) (fx : fixer_st)
  : res (list (list value) * fixer_st) :=
  match units, cols with
  | u :: us, c :: cs =>
    match parse_cells (cell_parser u) c fx with
    | Ok (vs, fx1) => match parse_columns us cs fx1 with
                      | Ok (vss, fx2) => Ok (vs :: vss, fx2)
                      | VErr m => VErr m | Crash => Crash
                      end
    | VErr m => VErr m
    | Crash => Crash
    end
  | _, _ => Ok ([], fx)
  end.

Definition drop_last_star (s : str) : str * bool :=
  match rev s with
  | 42 :: r => (rev r, true)
  | _ => (s, false)
  end.

(* make_table_json_precursor; fx is the fixer state after reset_fixes() *)
Definition parse_table (cells : list row) (fx : fixer_st) : res ptable :=
  match cells with
  | [] => Crash
  | r0 :: rest0 =>
    match r0 with
    | CStr c00 :: _ =>
      let (name, transposed) := drop_last_star (skipn 2 c00) in
      match rest0 with
      | [] => VErr (fx_messages fx)                           (* no destinations row *)
      | r1 :: rest1 =>
        match r1 with
        | [] => Crash                                         (* cells[1][0] *)
        | d0 :: _ =>
          let dests := destinations d0 in
          match rest1 with
          | [] => Ok {| p_name := name; p_transposed := transposed; p_dests := dests; p_names := [];
                        p_units := []; p_cols := []; p_fx := fx |}
          | r2 :: rest2 =>
            (* column names *)
            let raw_names :=
              if transposed then
                column_names (map (fun l => match l with c :: _ => c | [] => CNone end) rest1)
              else match rest2 with
                   | [] => None                               (* no unit specification found *)
                   | _ => column_names r2
                   end in
            match raw_names with
            | None => VErr (fx_messages fx)
            | Some raw =>
              match fix_duplicates raw 0 [] fx with
              | Crash => Crash | VErr m => VErr m
              | Ok (names, fx1) =>
                let n_col := length names in
                (* units *)
                let unit_cells :=
                  if transposed then
                    let lines := firstn n_col rest1 in
                    if existsb (fun l => Nat.ltb (length l) 2) lines then None
                    else Some (map (fun l => match l with _ :: u :: _ => u | _ => CNone end) lines)
                  else match rest2 with
                       | r3 :: _ => let us := firstn n_col r3 in
                                    if Nat.ltb (length us) n_col then None else Some us
                       | [] => None
                       end in
                match unit_cells with
                | None => VErr (fx_messages fx1)
                | Some ucs =>
                  match strip_units ucs with
                  | None => VErr (fx_messages fx1)
                  | Some units =>
                    (* data rows *)
                    let rows0 :=
                      if transposed then
                        let lines := map (skipn 2) (firstn n_col rest1) in
                        let n_row := count_rows lines 0 (longest lines) in
                        transpose n_row (map (pad_to n_row) lines)
                      else map (firstn n_col) (match rest2 with _ :: data => data | [] => [] end) in
                    let (rows, fx2) := fill_rows n_col rows0 0 fx1 in
                    match parse_columns units (columns_of n_col rows) fx2 with
                    | Crash => Crash | VErr m => VErr m
                    | Ok (cols, fx3) =>
                      (* fixer.report() *)
                      if Nat.ltb 0 (fx_fixes fx3) && stop_on_errors cfg then VErr (fx_messages fx3)
                      else
                        (* columns never parsed (no data rows) stay empty lists *)
                        let cols' := cols ++ repeat [] (n_col - length cols) in
                        Ok {| p_name := name; p_transposed := transposed; p_dests := dests;
                              p_names := names; p_units := units; p_cols := cols'; p_fx := fx3 |}
                    end
                  end
                end
              end
            end
          end
        end
      end
    | _ => Crash      (* cells[0][0][2:] on a non-text or missing first cell: not a TABLE block *)
    end
  end.
End Parse.
