(* M-PyEq: pdtable.proxy._equal_or_same on the scalars a data frame hands out through itertuples.
   DOMAIN: cells that are int, bool, float (python or numpy), str, a naive pd.Timestamp /
   datetime, or one of the four missing values.  Other scalar types (Decimal, Fraction, complex,
   timedelta, time-zone-aware timestamps, ...) have their own == against numbers and timestamps,
   which is NOT modelled: they are [POther], equal only to an identical [POther].  Containers are outside.
       a == b or a is b or (pd.isna(a) and pd.isna(b))
   with python's == on numbers written out: int, bool and float compare by exact mathematical
   value (10 == 10.0, True == 1, 2**53 + 1 != float(2**53)); NaN equals nothing; None, NaN, NaT and
   pd.NA are the missing values of pd.isna.  A float is its IEEE-754 binary64 bit pattern. *)
From Coq Require Export ZArith Bool.
From PdV Require Export Text.
Local Open Scope Z_scope.

Inductive pyval :=
| PInt (z : Z)              (* python int (any size) / numpy integer, as the repaired code compares them: by exact value *)
| PBool (b : bool)
| PFloat (bits : N)         (* python float / numpy floating, NaN included *)
| PStr (s : str)
| PDate (ns : Z)            (* pd.Timestamp *)
| PNone | PNaT | PNA        (* the other missing values *)
| POther (tag : N).         (* an object of another type (see DOMAIN); modelled as == only to the same object *)

(* the exact value of a float *)
Inductive num := NNaN | NInf (neg : bool) | NFin (m e : Z).     (* NFin m e stands for m * 2^e *)

Definition f_sign (b : N) : bool := N.testbit b 63.
Definition f_exp (b : N) : Z := Z.of_N ((b / 2 ^ 52) mod 2 ^ 11)%N.
Definition f_man (b : N) : Z := Z.of_N (b mod 2 ^ 52)%N.
Definition classify (b : N) : num :=
  let e := f_exp b in let m := f_man b in
  if e =? 2047 then (if m =? 0 then NInf (f_sign b) else NNaN)
  else let mm := if e =? 0 then m else 2 ^ 52 + m in
       let ee := if e =? 0 then -1074 else e - 1075 in
       NFin (if f_sign b then - mm else mm) ee.

Definition num_of (v : pyval) : option num :=
  match v with
  | PInt z => Some (NFin z 0)
  | PBool b => Some (NFin (if b then 1 else 0) 0)
  | PFloat b => Some (classify b)
  | _ => None
  end.

(* m1 * 2^e1 = m2 * 2^e2, decided over the integers *)
Definition num_eqb (a b : num) : bool :=
  match a, b with
  | NFin m1 e1, NFin m2 e2 =>
      let e0 := Z.min e1 e2 in m1 * 2 ^ (e1 - e0) =? m2 * 2 ^ (e2 - e0)
  | NInf s1, NInf s2 => Bool.eqb s1 s2
  | _, _ => false
  end.

(* a == b, as a truth value; pd.NA == x is pd.NA, whose truth value raises: None *)
Definition py_eq (a b : pyval) : option bool :=
  match a, b with
  | PNA, _ | _, PNA => None
  | _, _ =>
    Some match num_of a, num_of b with
         | Some x, Some y => num_eqb x y
         | _, _ =>
           match a, b with
           | PStr s, PStr t => str_eqb s t
           | PDate x, PDate y => x =? y
           | PNone, PNone => true
           | POther x, POther y => N.eqb x y
           | _, _ => false                   (* NaT == NaT is False *)
           end
         end
  end.

(* pd.isna on a scalar *)
Definition is_missing (v : pyval) : bool :=
  match v with
  | PNone | PNaT | PNA => true
  | PFloat b => match classify b with NNaN => true | _ => false end
  | _ => false
  end.

(* _equal_or_same after the repair: a missing value equals exactly the missing values; the truth
   value of a == b is never asked of pd.NA *)
Definition equal_or_same (a b : pyval) : bool :=
  if is_missing a || is_missing b then is_missing a && is_missing b
  else match py_eq a b with Some r => r | None => false end.

(* before the pd.NA repair: a == b or a is b or (isna(a) and isna(b)); None = the exception that
   Table.equals turns into False for the whole comparison.  This describes the old code on PYTHON
   numbers; on numpy scalars the old == rounded to a common type (the separate, third repair), which
   this definition does not reproduce *)
Definition equal_or_same_unrepaired (a b : pyval) : option bool :=
  match py_eq a b with
  | None => None
  | Some true => Some true
  | Some false => Some (is_missing a && is_missing b)
  end.
